----------------------------- MODULE GenTypes -----------------------------
(***************************************************************************)
(* Generation model for C11 (and the acceptance half of C09): enumerates   *)
(* the COMPLETE finite domain - every operator class handed over by the     *)
(* harness (read from the engine's registries at check time: name, arity,   *)
(* type_to_check, return_type) x every operand type combination - and emits *)
(* the documented verdict (accepted?, result type) of each point; the       *)
(* harness replays every point against the real code at three levels.       *)
(* Also emits the 9x9 explicit-cast table.  The table theorems of VTLTypes  *)
(* are invariants.                                                         *)
(***************************************************************************)
EXTENDS VTLTypes, Json, IOUtils

Classes == JsonDeserialize(IOEnv.CLASSES_FILE)
TypeSeq == <<"String", "Number", "Integer", "Boolean", "Time", "Date", "Time_Period", "Duration", "Null">>
VARIABLE i
Init == i = 0
Point2(c, l, r) == [c |-> c.name, l |-> l, r |-> r, acc |-> Accept2(l, r, c.ttc),
                    res |-> IF Accept2(l, r, c.ttc) THEN Result2(l, r, c.ttc, c.rt) ELSE "error"]
Point1(c, x) == [c |-> c.name, l |-> x, r |-> "-", acc |-> Accept1(x, c.ttc),
                 res |-> IF Accept1(x, c.ttc) THEN Result1(x, c.ttc, c.rt) ELSE "error"]
EmitClass(c) == IF c.arity = 2
                THEN \A a \in DOMAIN TypeSeq : \A b \in DOMAIN TypeSeq : PrintT("@@" \o ToJson(Point2(c, TypeSeq[a], TypeSeq[b])))
                ELSE \A a \in DOMAIN TypeSeq : PrintT("@@" \o ToJson(Point1(c, TypeSeq[a])))
EmitCast == \A a \in DOMAIN TypeSeq : \A b \in DOMAIN TypeSeq :
               PrintT("@@" \o ToJson([c |-> "cast", l |-> TypeSeq[a], r |-> TypeSeq[b], acc |-> TypeSeq[b] \in Exp[TypeSeq[a]],
                                      res |-> IF TypeSeq[b] \in Exp[TypeSeq[a]] THEN TypeSeq[b] ELSE "error"]))
\* the full grid of (type_to_check, return_type) for the two promotion functions themselves
TtcSeq == TypeSeq \o <<"none">>
EmitGrid == \A t \in DOMAIN TtcSeq : \A a \in DOMAIN TypeSeq : \A b \in DOMAIN TypeSeq :
               PrintT("@@" \o ToJson([c |-> "grid:" \o TtcSeq[t], l |-> TypeSeq[a], r |-> TypeSeq[b], acc |-> Accept2(TypeSeq[a], TypeSeq[b], TtcSeq[t]),
                                      res |-> IF Accept2(TypeSeq[a], TypeSeq[b], TtcSeq[t]) THEN Result2(TypeSeq[a], TypeSeq[b], TtcSeq[t], "none") ELSE "error"]))
Next == /\ i <= Len(Classes)
        /\ IF i = 0 THEN EmitCast /\ EmitGrid ELSE EmitClass(Classes[i])
        /\ i' = i + 1
Theorems == SymmetricAccept /\ SymmetricResult /\ AcceptedHasResult /\ ReflexiveImp /\ ImplicitIsExplicit
=============================================================================
