CONSTANTS
  Deep = TRUE
INIT Init
NEXT Next
INVARIANT Closure
INVARIANT JoinKeysLaw
CHECK_DEADLOCK FALSE
