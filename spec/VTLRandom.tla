----------------------------- MODULE VTLRandom -----------------------------
(***************************************************************************)
(* random(seed, index).  VTL leaves the generator free, so the             *)
(* specification does not compute values: random is an UNINTERPRETED       *)
(* function                                                                *)
(*        Rnd : Type x Seed x Index -> [0, 1)                              *)
(* and what a user relies on is exactly that it IS a function (the same    *)
(* seed and index give the same number, in every row, statement and run -  *)
(* this is what makes a script using random reproducible), that its values *)
(* lie in [0, 1) and that a null operand gives null.  The abstract state   *)
(* is the part of the function revealed so far; Observe reveals one point. *)
(* A point is [t, seed, idx, v, src]: declared type of the seed, the seed  *)
(* and index values (VTLValues encoding), the value logged as              *)
(* I(floor(v * 10^9)) or Null, and how the seed was written (column,       *)
(* expression, literal, dataset measure) - the last is NOT part of the key.*)
(***************************************************************************)
EXTENDS VTLValues, TLC, FiniteSets

Scale == 1000000000
Key(p) == <<p.t, p.seed, p.idx>>
NullIn(p) == IsNull(p.seed) \/ IsNull(p.idx)
NullPropagates(p) == NullIn(p) => IsNull(p.v)
InRange(p) == ~NullIn(p) => (~IsNull(p.v) /\ p.v[2] >= 0 /\ p.v[2] < Scale)
\* memo: key -> index of the point that revealed it
Function(pts, memo, p) == Key(p) \in DOMAIN memo => pts[memo[Key(p)]].v = p.v

VARIABLES memo, n
Init == memo = << >> /\ n = 0
Observe(pts) == /\ n < Len(pts)
                /\ LET p == pts[n + 1] IN
                   /\ NullPropagates(p) /\ InRange(p) /\ Function(pts, memo, p)
                   /\ memo' = IF Key(p) \in DOMAIN memo THEN memo ELSE (Key(p) :> (n + 1)) @@ memo
                /\ n' = n + 1

\* the same walk as a total verdict (the longest accepted prefix and the clause that rejects the next point)
RECURSIVE Walk(_, _, _)
Walk(pts, i, m) ==
    IF i > Len(pts) THEN [ok |-> TRUE, points |-> Len(pts), keys |-> Cardinality(DOMAIN m)]
    ELSE LET p == pts[i] IN
         IF ~NullPropagates(p) THEN [ok |-> FALSE, at |-> i, clause |-> "NullPropagates", first |-> 0]
         ELSE IF ~InRange(p) THEN [ok |-> FALSE, at |-> i, clause |-> "InRange", first |-> 0]
         ELSE IF ~Function(pts, m, p) THEN [ok |-> FALSE, at |-> i, clause |-> "Function", first |-> m[Key(p)]]
         ELSE Walk(pts, i + 1, IF Key(p) \in DOMAIN m THEN m ELSE (Key(p) :> i) @@ m)
=============================================================================
