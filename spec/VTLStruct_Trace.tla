-------------------------- MODULE VTLStruct_Trace --------------------------
(***************************************************************************)
(* Trace validation for C10: what run() returned against what              *)
(* semantic_analysis() predicted, plus the well-formedness of the returned *)
(* data (VTLDatasets!WellFormed and non-nullability).                      *)
(* unit: [id, pred: seq of [name, comps], res: seq of [name, comps, cols,  *)
(*        rows]]; a component is [n, r, t, u] (u = nullable); a value is   *)
(* <<tag, text>> where tag is the tag of the declared type if the value    *)
(* is a valid representation of it, 0 for null and 13 otherwise.           *)
(***************************************************************************)
EXTENDS Integers, Sequences, FiniteSets, TLC, Json, IOUtils

Units == JsonDeserialize(IOEnv.TRACE_FILE)
Rng(s) == { s[i] : i \in DOMAIN s }
TagOf(t) == CASE t = "Integer" -> 1 [] t = "Number" -> 2 [] t = "Boolean" -> 3 [] t = "String" -> 4 [] t = "Date" -> 5
              [] t = "Time_Period" -> 6 [] t = "Time" -> 7 [] t = "Duration" -> 8 [] OTHER -> 99
Names(comps) == { comps[i].n : i \in DOMAIN comps }
Ids(comps) == { comps[i].n : i \in { j \in DOMAIN comps : comps[j].r = "I" } }
Key(row, ids) == [x \in ids |-> row[x]]

DsWhy(p, d) ==
    LET rows == Rng(d.rows) ids == Ids(d.comps) IN
    IF d.comps # p.comps THEN "components (name, role, type, nullability, order) differ from semantic_analysis()"
    ELSE IF d.cols # [i \in DOMAIN d.comps |-> d.comps[i].n] THEN "column order differs from the predicted component order"
    ELSE IF \E r \in rows : DOMAIN r # Names(d.comps) THEN "a datapoint does not have exactly the declared columns"
    ELSE IF \E r \in rows : \E i \in ids : r[i][1] = 0 THEN "null identifier"
    ELSE IF Cardinality({ Key(r, ids) : r \in rows }) # Len(d.rows) THEN "duplicate identifiers"
    ELSE IF ids = {} /\ Len(d.rows) > 1 THEN "dataset without identifiers has more than one datapoint"
    ELSE IF \E r \in rows : \E i \in DOMAIN d.comps : (~d.comps[i].u) /\ r[d.comps[i].n][1] = 0 THEN "null in a non-nullable component"
    ELSE IF \E r \in rows : \E i \in DOMAIN d.comps : r[d.comps[i].n][1] \notin {0, TagOf(d.comps[i].t)} THEN "a value does not conform to its component's type"
    ELSE ""
Why(u) ==
    LET pn == { u.pred[i].name : i \in DOMAIN u.pred } rn == { u.res[i].name : i \in DOMAIN u.res } IN
    IF pn # rn THEN "returned names differ from the predicted names"
    ELSE LET bad == { i \in DOMAIN u.res : DsWhy(u.pred[CHOOSE j \in DOMAIN u.pred : u.pred[j].name = u.res[i].name], u.res[i]) # "" }
         IN  IF bad = {} THEN ""
             ELSE LET i == CHOOSE x \in bad : \A y \in bad : x <= y
                  IN  u.res[i].name \o ": " \o DsWhy(u.pred[CHOOSE j \in DOMAIN u.pred : u.pred[j].name = u.res[i].name], u.res[i])

ChunkSize == 10
VARIABLE l
Init == l \in { i \in 1..Len(Units) : i % ChunkSize = 1 \/ ChunkSize = 1 }
Next == /\ l <= Len(Units)
        /\ PrintT("@@" \o ToJson([id |-> Units[l].id, ok |-> Why(Units[l]) = "", why |-> Why(Units[l])]))
        /\ l' = IF l % ChunkSize = 0 THEN Len(Units) + 1 + l ELSE l + 1
=============================================================================
