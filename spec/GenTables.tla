----------------------------- MODULE GenTables -----------------------------
(***************************************************************************)
(* Generation model for C18 / C19 / C20 over VTLFormats: every cell of     *)
(* every type (valid, boundary, invalid, not determined) in every role     *)
(* (nullable measure, non-nullable measure, identifier), and the           *)
(* structural violations of a table (duplicate / null / missing            *)
(* identifiers, missing non-nullable column, several datapoints without    *)
(* identifiers), alone and combined, and whole columns holding every valid  *)
(* representation of a type in every rotation.  Emits each table with the  *)
(* documented                                                              *)
(* verdict and the values an accepted table denotes.                       *)
(***************************************************************************)
EXTENDS VTLFormats, Json

TypeSeq == <<"Integer", "Number", "Boolean", "Date", "Time_Period", "Time", "Duration", "String">>
Col(n, r, t, u) == [n |-> n, r |-> r, t |-> t, u |-> u]
IdCell(k) == Cell("int", ToString(k), <<1, k>>)
StrCell(x) == Cell("text", x, <<4, x>>)
Table(id, cols, has, rows) == [id |-> id, cols |-> cols, has |-> has, rows |-> rows, verdict |-> TableVerdict(cols, has, rows)]
Emit(t) == PrintT("@@" \o ToJson([id |-> t.id, cols |-> t.cols, has |-> [i \in DOMAIN t.cols |-> i \in t.has], rows |-> t.rows, verdict |-> t.verdict]))

CellTables(t) ==
    LET cs == CellsOf(t) IN
    /\ \A k \in DOMAIN cs :
         /\ Emit(Table("cell." \o t \o "." \o cs[k].form \o ".measure", <<Col("Id_0", "I", "Integer", FALSE), Col("C", "M", t, TRUE)>>, {1, 2}, <<<<IdCell(1), cs[k]>>>>))
         /\ Emit(Table("cell." \o t \o "." \o cs[k].form \o ".nonnull", <<Col("Id_0", "I", "Integer", FALSE), Col("C", "M", t, FALSE)>>, {1, 2}, <<<<IdCell(1), cs[k]>>>>))
         /\ Emit(Table("cell." \o t \o "." \o cs[k].form \o ".identifier", <<Col("C", "I", t, FALSE), Col("Me_0", "M", "Integer", TRUE)>>, {1, 2}, <<<<cs[k], IdCell(5)>>>>))
    \* two different spellings of the same value in an identifier column are duplicates
    /\ \A a, b \in DOMAIN cs : (a < b /\ cs[a].den = cs[b].den /\ cs[a].den \notin {Invalid, Undet, NullV}) =>
         Emit(Table("dup." \o t \o "." \o cs[a].form \o "+" \o cs[b].form, <<Col("C", "I", t, FALSE), Col("Me_0", "M", "Integer", TRUE)>>, {1, 2},
                    <<<<cs[a], IdCell(1)>>, <<cs[b], IdCell(2)>>>>))

\* whole COLUMNS of one type: every valid cell of the type (and the null) in one measure column, in every rotation of the pool
\* order, so that each representation is once the first value of its column (nothing may be decided from the first values only)
ColumnTables(t) ==
    LET cs == CellsOf(t)
        idx == SelectSeq([k \in DOMAIN cs |-> k], LAMBDA k : cs[k].den \notin {Invalid, Undet})
        n == Len(idx)
        Rot(r) == [j \in 1..n |-> idx[((j + r - 2) % n) + 1]]
    IN  \A r \in 1..n :
          Emit(Table("column." \o t \o ".first-" \o cs[idx[r]].form, <<Col("Id_0", "I", "Integer", FALSE), Col("C", "M", t, TRUE)>>, {1, 2},
                     [j \in 1..n |-> <<IdCell(j), cs[Rot(r)[j]]>>]))

S2 == <<Col("Id_1", "I", "Integer", FALSE), Col("Id_2", "I", "String", FALSE), Col("Me_1", "M", "Number", TRUE), Col("Me_2", "M", "String", FALSE)>>
N(x) == Cell("decimal", x, <<2, <<1, 1>>>>)
NullC == Cell("null", "", NullV)
StructTables ==
    /\ Emit(Table("struct.ok", S2, {1, 2, 3, 4}, <<<<IdCell(1), StrCell("a"), N("1.0"), StrCell("x")>>, <<IdCell(1), StrCell("b"), NullC, StrCell("y")>>, <<IdCell(2), StrCell("a"), N("1.0"), StrCell("z")>>>>))
    /\ Emit(Table("struct.duplicate-ids", S2, {1, 2, 3, 4}, <<<<IdCell(1), StrCell("a"), N("1.0"), StrCell("x")>>, <<IdCell(2), StrCell("b"), N("1.0"), StrCell("y")>>, <<IdCell(1), StrCell("a"), NullC, StrCell("z")>>>>))
    /\ Emit(Table("struct.null-id", S2, {1, 2, 3, 4}, <<<<IdCell(1), StrCell("a"), N("1.0"), StrCell("x")>>, <<NullC, StrCell("b"), N("1.0"), StrCell("y")>>>>))
    /\ Emit(Table("struct.null-string-id", S2, {1, 2, 3, 4}, <<<<IdCell(1), NullC, N("1.0"), StrCell("x")>>>>))
    /\ Emit(Table("struct.null-nonnullable", S2, {1, 2, 3, 4}, <<<<IdCell(1), StrCell("a"), N("1.0"), NullC>>>>))
    /\ Emit(Table("struct.missing-id-column", S2, {1, 3, 4}, <<<<IdCell(1), StrCell("a"), N("1.0"), StrCell("x")>>>>))
    /\ Emit(Table("struct.missing-nonnullable-column", S2, {1, 2, 3}, <<<<IdCell(1), StrCell("a"), N("1.0"), StrCell("x")>>>>))
    /\ Emit(Table("struct.missing-nullable-column", S2, {1, 2, 4}, <<<<IdCell(1), StrCell("a"), N("1.0"), StrCell("x")>>, <<IdCell(2), StrCell("a"), N("1.0"), StrCell("y")>>>>))
    /\ Emit(Table("struct.empty", S2, {1, 2, 3, 4}, <<>>))
    /\ Emit(Table("struct.duplicate+invalid", S2, {1, 2, 3, 4}, <<<<IdCell(1), StrCell("a"), Cell("alpha", "abc", Invalid), StrCell("x")>>, <<IdCell(1), StrCell("a"), N("1.0"), StrCell("y")>>>>))
    /\ Emit(Table("struct.null-id+missing-column", S2, {1, 2, 3}, <<<<NullC, StrCell("a"), N("1.0"), StrCell("x")>>>>))
    /\ LET S0 == <<Col("Me_1", "M", "Number", TRUE), Col("Me_2", "M", "String", TRUE)>> IN
       /\ Emit(Table("noid.one-row", S0, {1, 2}, <<<<N("1.0"), StrCell("x")>>>>))
       /\ Emit(Table("noid.two-rows", S0, {1, 2}, <<<<N("1.0"), StrCell("x")>>, <<N("1.0"), StrCell("y")>>>>))
       /\ Emit(Table("noid.two-equal-rows", S0, {1, 2}, <<<<N("1.0"), StrCell("x")>>, <<N("1.0"), StrCell("x")>>>>))
       /\ Emit(Table("noid.empty", S0, {1, 2}, <<>>))

VARIABLE i
Init == i = 0
Next == /\ i <= Len(TypeSeq)
        /\ IF i = 0 THEN StructTables ELSE (CellTables(TypeSeq[i]) /\ ColumnTables(TypeSeq[i]))
        /\ i' = i + 1
\* sanity of the pools: every type has valid, invalid and null cells; calendar-invalid dates really are invalid dates
PoolsSane == /\ \A a \in DOMAIN TypeSeq : \E k \in DOMAIN CellsOf(TypeSeq[a]) : CellsOf(TypeSeq[a])[k].den \notin {Invalid, Undet, NullV}
             /\ ~ValidYMD(2020, 13, 1) /\ ~ValidYMD(2020, 2, 30) /\ ~ValidYMD(2021, 2, 29) /\ ValidYMD(2020, 2, 29)
             /\ ~ValidPeriod(<<2021, "W", 53>>) /\ ValidPeriod(<<2020, "W", 53>>) /\ ~ValidPeriod(<<2021, "D", 366>>) /\ ValidPeriod(<<2020, "D", 366>>)
=============================================================================
