CONSTANTS
  N = 3
  NInputs = 1
  AllPerms = TRUE
SPECIFICATION Spec
INVARIANT Confluence
INVARIANT Completion
CHECK_DEADLOCK FALSE
