----------------------------- MODULE GenConfig -----------------------------
(***************************************************************************)
(* Generation model for C30: for every requested setting (width, scale;    *)
(* Unset = variable not defined) emits the documented verdict and, for an   *)
(* accepted setting, the stored form of every probe value and the exact     *)
(* sums / differences of the storable ones.                                 *)
(***************************************************************************)
EXTENDS VTLConfig, Json, IOUtils

Req == JsonDeserialize(IOEnv.CFG_FILE)
Settings == Req.settings        \* sequence of <<w, s>>
VARIABLE i
Init == i = 1
Text(x) == [neg |-> x.neg, int |-> x.int, frac |-> x.frac]
StoredOf(w, s) == LET ps == Probes(w, s) IN [k \in DOMAIN ps |-> [id |-> ps[k].id, x |-> Text(ps[k].x), stored |-> Store(ps[k].x, w, s)]]
OkIdx(w, s) == { k \in DOMAIN Probes(w, s) : Store(Probes(w, s)[k].x, w, s) # Reject }
Pairs == <<<<"near-carry", "ulp">>, <<"plain", "plain-neg">>, <<"max", "ulp">>, <<"half-up", "half-up-neg">>, <<"plain", "ulp">>, <<"max-neg", "plain">>>>
IdxOf(w, s, id) == CHOOSE k \in DOMAIN Probes(w, s) : Probes(w, s)[k].id = id
Emit(w, s) ==
    LET v == Setting(w, s) ew == EffWidth(w) es == EffScale(s) IN
    IF v # "ok" THEN PrintT("@@" \o ToJson([w |-> w, s |-> s, verdict |-> v]))
    ELSE PrintT("@@" \o ToJson([w |-> w, s |-> s, verdict |-> v, ew |-> ew, es |-> es, probes |-> StoredOf(ew, es),
            sums |-> [k \in DOMAIN Pairs |->
                        LET a == Store(Probes(ew, es)[IdxOf(ew, es, Pairs[k][1])].x, ew, es)
                            b == Store(Probes(ew, es)[IdxOf(ew, es, Pairs[k][2])].x, ew, es)
                        IN  IF a = Reject \/ b = Reject \/ Len(Sum(a, b).digits) > 38 \/ Len(Diff(a, b).digits) > 38 THEN [a |-> Pairs[k][1], b |-> Pairs[k][2], skip |-> TRUE]
                            ELSE [a |-> Pairs[k][1], b |-> Pairs[k][2], skip |-> FALSE, sum |-> Sum(a, b), diff |-> Diff(a, b)]]]))
Next == i <= Len(Settings) /\ Emit(Settings[i][1], Settings[i][2]) /\ i' = i + 1
\* sanity of the digit arithmetic on the probe set: (a + b) - b = a
Sane == i <= Len(Settings) =>
          LET w == Settings[i][1] s == Settings[i][2] IN
          Setting(w, s) = "ok" =>
             \A k1, k2 \in OkIdx(EffWidth(w), EffScale(s)) :
                LET a == Store(Probes(EffWidth(w), EffScale(s))[k1].x, EffWidth(w), EffScale(s))
                    b == Store(Probes(EffWidth(w), EffScale(s))[k2].x, EffWidth(w), EffScale(s))
                IN  Diff(Sum(a, b), b) = a /\ Sum(a, b) = Sum(b, a)
=============================================================================
