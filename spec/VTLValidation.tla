--------------------------- MODULE VTLValidation ---------------------------
(***************************************************************************)
(* Validation and hierarchy operators (C07): check, check_datapoint,       *)
(* check_hierarchy and hierarchy.                                          *)
(*                                                                         *)
(* A datapoint rule is [name, when (term or <<>>), then (term), ec, el];   *)
(* a hierarchical rule is [name, left (code), op, right: seq of <<sign,     *)
(* code>>, ec, el] over the code items of the rule component; values of    *)
(* the single measure are Integers.                                        *)
(***************************************************************************)
EXTENDS VTLOperators

(* check(op errorcode ec errorlevel el imbalance imb invalid|all) *)
CheckDS(b, imb, ec, el, out) ==
    LET ids == IdsOf(b)
        imbOf(r) == IF imb = <<>> THEN Null
                    ELSE LET m == { q \in imb[1].rows : Rst(q, ids) = Rst(r, ids) }
                         IN  IF m = {} THEN Null ELSE (CHOOSE q \in m : TRUE)[CHOOSE x \in MeasOf(imb[1]) : TRUE]
        row(r) == [x \in ids \cup {"bool_var", "imbalance", "errorcode", "errorlevel"} |->
                     CASE x \in ids -> r[x]
                       [] x = "bool_var" -> r["bool_var"]
                       [] x = "imbalance" -> imbOf(r)
                       [] x = "errorcode" -> IF r["bool_var"] = F THEN ec ELSE Null
                       [] OTHER -> IF r["bool_var"] = F THEN el ELSE Null]
        rows == IF out = "invalid" THEN { r \in b.rows : r["bool_var"] = F } ELSE b.rows
        \* the imbalance keeps the type of the operand's measure
        imbType == IF imb = <<>> THEN "Number" ELSE (CHOOSE c \in imb[1].comps : c.r = "M").t
    IN  [comps |-> { c \in b.comps : c.r = "I" } \cup { Comp("bool_var", "M", "Boolean"), Comp("imbalance", "M", imbType),
                                                       Comp("errorcode", "M", "String"), Comp("errorlevel", "M", "Integer") },
         rows |-> { row(r) : r \in rows }]

(* check_datapoint(ds, ruleset invalid|all|all_measures) *)
RuleBool(rule, r, env) ==
    LET w == IF rule.when = <<>> THEN T ELSE EvalC(rule.when[1], r, env)
    IN  IF w = F THEN T ELSE IF IsNull(w) THEN Null ELSE EvalC(rule.then, r, env)
CheckDatapoint(ds, rules, out, env) ==
    LET ids == IdsOf(ds)
        meas == MeasOf(ds)
        cols == ids \cup {"ruleid", "errorcode", "errorlevel"}
                \cup (IF out \in {"invalid", "all_measures"} THEN meas ELSE {})
                \cup (IF out \in {"all", "all_measures"} THEN {"bool_var"} ELSE {})
        res(j, r) == LET b == RuleBool(rules[j], r, env)
                     IN  [x \in cols |->
                            CASE x \in ids \cup meas -> r[x]
                              [] x = "ruleid" -> rules[j].name
                              [] x = "bool_var" -> b
                              [] x = "errorcode" -> IF b = F THEN rules[j].ec ELSE Null
                              [] OTHER -> IF b = F THEN rules[j].el ELSE Null]
        all == { <<j, r>> : j \in DOMAIN rules, r \in ds.rows }
        sel == IF out = "invalid" THEN { p \in all : RuleBool(rules[p[1]], p[2], env) = F } ELSE all
    IN  IF \E p \in all : IsErr(RuleBool(rules[p[1]], p[2], env)) THEN E("runtime")
        ELSE [comps |-> { c \in ds.comps : c.n \in cols } \cup { Comp("ruleid", "I", "String"), Comp("errorcode", "M", "String"), Comp("errorlevel", "M", "Number") }
                        \cup (IF "bool_var" \in cols THEN { Comp("bool_var", "M", "Boolean") } ELSE {}),
              rows |-> { res(p[1], p[2]) : p \in sel }]

-----------------------------------------------------------------------------
(* hierarchical rulesets *)
Absent == <<15, 0>>                 \* no datapoint for the code item
OtherIds(ds, comp) == IdsOf(ds) \ {comp}
Measure(ds) == CHOOSE m \in MeasOf(ds) : TRUE
KeysOf(ds, comp) == { Rst(r, OtherIds(ds, comp)) : r \in ds.rows }
\* value of code item c for key k in a set of datapoints
Fetch(rows, oids, comp, m, k, c) ==
    LET hit == { r \in rows : Rst(r, oids) = k /\ r[comp] = c }
    IN  IF hit = {} THEN Absent ELSE (CHOOSE r \in hit : TRUE)[m]
IsAbsent(v) == v[1] = 15
\* mode: does the rule produce a result for these item values, and what stands for an absent item
Fill(mode, v) == IF ~IsAbsent(v) THEN v
                 ELSE IF mode \in {"non_zero", "partial_zero", "always_zero"} THEN I(0) ELSE Null
\* Does a rule produce a result for a key (READINGS.md 20).  lv: the left item's value, rvs: the right items' values (both with
\* Absent), L / R: the two sides with absent items filled.  check_hierarchy looks at all items, hierarchy at the right side only and
\* always needs one right item present.
Present(v) == ~IsAbsent(v)
IsZeroV(v) == (~IsNull(v)) /\ (~IsAbsent(v)) /\ EqV(v, I(0)) = T
ProducesCheck(mode, lv, rvs, Lf, Rf) ==
    LET vals == {lv} \cup rvs
    IN  CASE mode = "non_null" -> \A v \in vals : Present(v) /\ ~IsNull(v)
          [] mode = "non_zero" -> ~(IsZeroV(Lf) /\ IsZeroV(Rf))
          [] mode \in {"partial_null", "partial_zero"} -> \E v \in vals : Present(v) /\ ~IsNull(v)
          [] OTHER -> \E v \in vals : Present(v)
ProducesHier(mode, rvs) ==
    /\ \E v \in rvs : Present(v)
    /\ CASE mode = "non_null" -> \A v \in rvs : Present(v) /\ ~IsNull(v)
         [] mode = "non_zero" -> ~\A v \in rvs : IsZeroV(Fill(mode, v))
         [] mode \in {"partial_null", "partial_zero"} -> \E v \in rvs : Present(v) /\ ~IsNull(v)
         [] OTHER -> TRUE
RECURSIVE SumItems(_, _)
SumItems(items, i) ==        \* items: sequence of <<sign, value>>
    IF i > Len(items) THEN I(0)
    ELSE LET rest == SumItems(items, i + 1)
         IN  IF items[i][1] = "+" THEN AddV(items[i][2], rest) ELSE AddV(UMinusV(items[i][2]), rest)
Compare(op, l, r) == CASE op = "=" -> EqV(l, r) [] op = ">" -> GtV(l, r) [] op = ">=" -> GeV(l, r) [] op = "<" -> LtV(l, r) [] op = "<=" -> LeV(l, r)

\* check_hierarchy(ds, ruleset rule comp mode invalid|all|all_measures) (input: dataset)
CheckHierarchy(ds, comp, rules, mode, out) ==
    LET oids == OtherIds(ds, comp)
        m == Measure(ds)
        keys == KeysOf(ds, comp)
        lv(j, k) == Fetch(ds.rows, oids, comp, m, k, rules[j].left)
        rv(j, k) == [i \in DOMAIN rules[j].right |-> <<rules[j].right[i][1], Fetch(ds.rows, oids, comp, m, k, rules[j].right[i][2])>>]
        rvs(j, k) == { rv(j, k)[i][2] : i \in DOMAIN rules[j].right }
        L(j, k) == Fill(mode, lv(j, k))
        Rt(j, k) == SumItems([i \in DOMAIN rules[j].right |-> <<rv(j, k)[i][1], Fill(mode, rv(j, k)[i][2])>>], 1)
        cases == { <<j, k>> \in (DOMAIN rules) \X keys : ProducesCheck(mode, lv(j, k), rvs(j, k), L(j, k), Rt(j, k)) }
        bool(j, k) == Compare(rules[j].op, L(j, k), Rt(j, k))
        cols == IdsOf(ds) \cup {"ruleid", "errorcode", "errorlevel", "imbalance"}
                \cup (IF out \in {"invalid", "all_measures"} THEN {m} ELSE {})
                \cup (IF out \in {"all", "all_measures"} THEN {"bool_var"} ELSE {})
        res(j, k) == [x \in cols |->
                        CASE x \in oids -> k[x]
                          [] x = comp -> rules[j].left
                          [] x = "ruleid" -> rules[j].name
                          [] x = m -> L(j, k)
                          [] x = "bool_var" -> bool(j, k)
                          [] x = "imbalance" -> SubV(L(j, k), Rt(j, k))
                          [] x = "errorcode" -> IF bool(j, k) = F THEN rules[j].ec ELSE Null
                          [] OTHER -> IF bool(j, k) = F THEN rules[j].el ELSE Null]
        sel == IF out = "invalid" THEN { c \in cases : bool(c[1], c[2]) = F } ELSE cases
    IN  [comps |-> { c \in ds.comps : c.n \in cols } \cup { Comp("ruleid", "I", "String"), Comp("errorcode", "M", "String"),
                      Comp("errorlevel", "M", "Number"), Comp("imbalance", "M", "Number") }
                   \cup (IF "bool_var" \in cols THEN { Comp("bool_var", "M", "Boolean") } ELSE {}),
         rows |-> { res(c[1], c[2]) : c \in sel }]

\* hierarchy(ds, ruleset rule comp mode dataset|rule|rule_priority computed|all): rules with "=" compute their left item.
\* The rules are taken in dependency order (a rule after the rules computing its operands); `order` is that sequence of indexes.
RECURSIVE HierSteps(_, _, _, _, _, _, _)
HierSteps(ds, comp, rules, mode, input, order, computed) ==
    IF order = <<>> THEN computed
    ELSE LET j == Head(order)
             oids == OtherIds(ds, comp)
             m == Measure(ds)
             keys == KeysOf(ds, comp) \cup { Rst(r, oids) : r \in computed }
             fromDs(k, c) == Fetch(ds.rows, oids, comp, m, k, c)
             fromComp(k, c) == Fetch(computed, oids, comp, m, k, c)
             \* the value an operand takes: from the input dataset, from the results computed so far, or computed with dataset fallback
             isComputedItem(c) == \E q \in DOMAIN rules : rules[q].op = "=" /\ rules[q].left = c
             \* READINGS.md 21: a computed item replaces the dataset's wherever its rule produced a datapoint (rule_priority: a
             \* non-null one); "dataset" is not distinguished from "rule" by the engine.
             fetch(k, c) == IF IsAbsent(fromComp(k, c)) THEN fromDs(k, c)
                            ELSE IF input = "rule_priority" /\ IsNull(fromComp(k, c))
                                 THEN (IF IsAbsent(fromDs(k, c)) THEN Null ELSE fromDs(k, c))   \* the item exists: its rule produced it
                            ELSE fromComp(k, c)
             rv(k) == [i \in DOMAIN rules[j].right |-> <<rules[j].right[i][1], fetch(k, rules[j].right[i][2])>>]
             vals(k) == { rv(k)[i][2] : i \in DOMAIN rules[j].right }
             new == { [x \in IdsOf(ds) \cup {m} |->
                         IF x \in oids THEN k[x] ELSE IF x = comp THEN rules[j].left
                         ELSE SumItems([i \in DOMAIN rules[j].right |-> <<rv(k)[i][1], Fill(mode, rv(k)[i][2])>>], 1)]
                      : k \in { q \in keys : ProducesHier(mode, vals(q)) } }
         IN  HierSteps(ds, comp, rules, mode, input, Tail(order),
                       IF rules[j].op = "=" THEN { r \in computed : r[comp] # rules[j].left } \cup new ELSE computed)
Hierarchy(ds, comp, rules, mode, input, out, order) ==
    LET m == Measure(ds)
        computed == HierSteps(ds, comp, rules, mode, input, order, {})
        \* what was computed feeds the later rules in any case; the result keeps, per mode, the non-null / non-zero ones
        shown == CASE mode = "non_null" -> { r \in computed : ~IsNull(r[m]) }
                   [] mode = "non_zero" -> { r \in computed : ~IsZeroV(r[m]) }
                   [] OTHER -> computed
        keyOf(r) == Rst(r, IdsOf(ds))
        base == { Rst(r, IdsOf(ds) \cup {m}) : r \in ds.rows }
    IN  [comps |-> { c \in ds.comps : c.r = "I" \/ c.n = m },
         rows |-> IF out = "computed" THEN shown
                  ELSE shown \cup { r \in base : ~\E c \in shown : keyOf(c) = keyOf(r) }]

-----------------------------------------------------------------------------
(* evaluation of validation terms (operands are ordinary terms of VTLOperators) *)
Rule(j) == [name |-> j.name, when |-> j.when, then |-> j.then, ec |-> j.ec, el |-> j.el]
EvalV(t, env) ==
    CASE t.k = "check" ->
            LET b == EvalD(t.x, env)
                imb == IF t.imb = <<>> THEN <<>> ELSE <<EvalD(t.imb[1], env)>>
            IN  IF IsE(b) THEN b ELSE IF imb # <<>> /\ IsE(imb[1]) THEN imb[1] ELSE CheckDS(b, imb, t.ec, t.el, t.out)
      [] t.k = "dpcheck" ->
            LET d == EvalD(t.ds, env) IN IF IsE(d) THEN d ELSE CheckDatapoint(d, t.rules, t.out, env)
      [] t.k = "hier" ->
            LET d == EvalD(t.ds, env)
            IN  IF IsE(d) THEN d
                ELSE IF t.check THEN CheckHierarchy(d, t.comp, t.rules, t.mode, t.out)
                ELSE Hierarchy(d, t.comp, t.rules, t.mode, t.input, t.out, t.order)
      [] OTHER -> EvalD(t, env)
=============================================================================
