------------------------------ MODULE GenCast ------------------------------
(***************************************************************************)
(* Generation model for C09: every (source type, target type) pair x the   *)
(* value pool of the source type (0, negatives, fractional, booleans,      *)
(* every period indicator, same / different interval dates, duration       *)
(* codes, unparsable and padded strings, null).  Emits the documented      *)
(* outcome of every point and the measure name of the dataset form.        *)
(***************************************************************************)
EXTENDS VTLCast, Json

TypeSeq == <<"String", "Number", "Integer", "Boolean", "Time", "Date", "Time_Period", "Duration">>
D0 == Ord(2020, 1, 15)
StrPool == <<
   [text |-> "12", int |-> 12], [text |-> "-7", int |-> -7], [text |-> "0", int |-> 0],
   [text |-> "3.5", num |-> <<7, 2>>], [text |-> "-0.25", num |-> <<-1, 4>>], [text |-> "10.0", num |-> <<10, 1>>],
   [text |-> "abc"], [text |-> "12abc"], [text |-> "1,5"],
   [text |-> "true"], [text |-> "False"],
   [text |-> "2020-01-15", date |-> D0, period |-> <<2020, "D", 15>>],
   [text |-> "2020-02-30"], [text |-> "2020-13-01"],
   [text |-> "2020", int |-> 2020, period |-> <<2020, "A", 1>>, interval |-> <<Ord(2020, 1, 1), Ord(2020, 12, 31)>>],
   [text |-> "2020A", period |-> <<2020, "A", 1>>],
   [text |-> "2020S2", period |-> <<2020, "S", 2>>], [text |-> "2020-Q3", period |-> <<2020, "Q", 3>>],
   [text |-> "2020M02", period |-> <<2020, "M", 2>>],
   [text |-> "2020-02", period |-> <<2020, "M", 2>>, interval |-> <<Ord(2020, 2, 1), Ord(2020, 2, 29)>>],
   [text |-> "2020W53", period |-> <<2020, "W", 53>>], [text |-> "2021W53"], [text |-> "2020D366", period |-> <<2020, "D", 366>>],
   [text |-> "2021D366"], [text |-> "2020Q5"],
   [text |-> "2020-01-01/2020-12-31", interval |-> <<Ord(2020, 1, 1), Ord(2020, 12, 31)>>],
   [text |-> "2020-03-05/2020-03-05", interval |-> <<Ord(2020, 3, 5), Ord(2020, 3, 5)>>],
   [text |-> "2020-12-31/2020-01-01"],
   [text |-> "A", dur |-> "A"], [text |-> "M", dur |-> "M"], [text |-> "D", dur |-> "D"], [text |-> "X"],
   [text |-> "null", null |-> TRUE] >>
NumPool == << R(0, 1), R(1, 1), R(-3, 1), R(7, 2), R(-1, 4), R(25, 1), Null >>
IntPool == << I(0), I(1), I(-7), I(42), Null >>
BoolPool == << B(TRUE), B(FALSE), Null >>
DatePool == << <<5, D0>>, <<5, Ord(2020, 2, 29)>>, <<5, Ord(2020, 12, 31)>>, <<5, Ord(1999, 1, 1)>>, Null >>
PeriodPool == << <<6, <<2020, "A", 1>>>>, <<6, <<2020, "S", 2>>>>, <<6, <<2020, "Q", 3>>>>, <<6, <<2020, "M", 2>>>>,
                 <<6, <<2020, "W", 53>>>>, <<6, <<2020, "D", 366>>>>, <<6, <<2021, "D", 1>>>>, Null >>
TimePool == << <<7, <<Ord(2020, 1, 1), Ord(2020, 12, 31)>>>>, <<7, <<Ord(2020, 3, 5), Ord(2020, 3, 5)>>>>,
               <<7, <<Ord(2020, 1, 1), Ord(2020, 3, 31)>>>>, <<7, <<Ord(2020, 7, 1), Ord(2020, 12, 31)>>>>, <<7, <<Ord(2020, 2, 1), Ord(2020, 2, 29)>>>>,
               <<7, <<Ord(2024, 12, 30), Ord(2025, 1, 5)>>>>, <<7, <<Ord(2020, 12, 28), Ord(2021, 1, 3)>>>>, <<7, <<Ord(2021, 1, 4), Ord(2021, 1, 10)>>>>,
               <<7, <<Ord(2020, 1, 2), Ord(2020, 3, 31)>>>>,
               \* intervals that look like a period at both ends but span several years: no period denotes them
               <<7, <<Ord(2020, 1, 1), Ord(2021, 12, 31)>>>>, <<7, <<Ord(2020, 1, 1), Ord(2021, 6, 30)>>>>, <<7, <<Ord(2020, 7, 1), Ord(2022, 12, 31)>>>>,
               <<7, <<Ord(2020, 1, 1), Ord(2021, 3, 31)>>>>, <<7, <<Ord(2020, 2, 1), Ord(2021, 2, 28)>>>>, Null >>
DurPool == << <<8, "A">>, <<8, "Q">>, <<8, "D">>, Null >>
Pool(t) == CASE t = "String" -> StrPool [] t = "Number" -> NumPool [] t = "Integer" -> IntPool [] t = "Boolean" -> BoolPool
             [] t = "Date" -> DatePool [] t = "Time_Period" -> PeriodPool [] t = "Time" -> TimePool [] t = "Duration" -> DurPool

\* the input text the harness writes for a non-String source value
SrcText(v) == CASE v[1] = 0 -> ""
                [] v[1] = 1 -> ToString(v[2])
                [] v[1] = 2 -> "num"                \* rendered by the harness from the rational
                [] v[1] = 3 -> IF v[2] THEN "true" ELSE "false"
                [] v[1] = 5 -> IsoDate(v[2])
                [] v[1] = 6 -> PeriodText(Render(v[2], "vtl"))
                [] v[1] = 7 -> IsoDate(v[2][1]) \o "/" \o IsoDate(v[2][2])
                [] v[1] = 8 -> v[2]

VARIABLE i
Init == i = 1
Emit(a) ==
    LET from == TypeSeq[a] IN
    \A b \in DOMAIN TypeSeq : \A k \in DOMAIN Pool(from) :
       LET to == TypeSeq[b] x == Pool(from)[k] IN
       PrintT("@@" \o ToJson([from |-> from, to |-> to, k |-> k,
                              text |-> IF from = "String" THEN x.text ELSE SrcText(x),
                              src |-> IF from = "String" THEN (IF Has(x, "null") THEN Null ELSE <<4, x.text>>) ELSE x,
                              exp |-> Cast(x, from, to),
                              accepted |-> CastAccepted(from, to),
                              beyond |-> IF from # "String" /\ Beyond(from, to) THEN CastBeyondTable(x, from, to) ELSE Undet,
                              name |-> IF CastAccepted(from, to) THEN MeasureName("Me_1", from, to) ELSE "-"]))
Next == i <= Len(TypeSeq) /\ Emit(i) /\ i' = i + 1
\* sanity: every accepted pair yields a non-error for at least one pool value; identity casts are the identity
Sane == \A a \in DOMAIN TypeSeq : \A k \in DOMAIN Pool(TypeSeq[a]) :
           TypeSeq[a] # "String" => Cast(Pool(TypeSeq[a])[k], TypeSeq[a], TypeSeq[a]) = Pool(TypeSeq[a])[k]
=============================================================================
