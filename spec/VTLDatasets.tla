--------------------------- MODULE VTLDatasets ---------------------------
(***************************************************************************)
(* Datasets, environments and component-level (per datapoint) evaluation.  *)
(*                                                                         *)
(* A component is a record [n: name, r: role, t: type] with role           *)
(*   "I" identifier, "M" measure, "A" attribute, "V" viral attribute.      *)
(* A datapoint is a function  component name -> value.                     *)
(* A dataset is [comps: set of components, rows: SET of datapoints].       *)
(* Row order and column order do not exist in the specification.           *)
(* A scalar result is [v: value, t: type]; an error is [err: code].        *)
(* Terms (scripts) are records discriminated by field k, see DESIGN.md A.  *)
(***************************************************************************)
EXTENDS VTLValues, FiniteSetsExt

Rng(s) == { s[i] : i \in DOMAIN s }
\* JSON form -> dataset (comps and rows arrive as sequences)
DS(j) == [comps |-> Rng(j.comps), rows |-> Rng(j.rows)]
IsDS(x) == "comps" \in DOMAIN x
IsSc(x) == "v" \in DOMAIN x
IsE(x) == "err" \in DOMAIN x
E(code) == [err |-> code]
Sc(v, t) == [v |-> v, t |-> t]
Comp(n, r, t) == [n |-> n, r |-> r, t |-> t]

NamesOf(ds, role) == { c.n : c \in { x \in ds.comps : x.r = role } }
IdsOf(ds) == NamesOf(ds, "I")
MeasOf(ds) == NamesOf(ds, "M")
AttrsOf(ds) == NamesOf(ds, "A")
ViralOf(ds) == NamesOf(ds, "V")
AllNames(ds) == { c.n : c \in ds.comps }
CompOf(ds, n) == CHOOSE c \in ds.comps : c.n = n
TypeOfComp(ds, n) == CompOf(ds, n).t
Rst(row, names) == [x \in names |-> row[x]]
\* functional override / extension of a datapoint
With(row, n, v) == [x \in DOMAIN row \cup {n} |-> IF x = n THEN v ELSE row[x]]

(* Well-formedness of a dataset (C10) *)
IdsNonNull(ds) == \A r \in ds.rows : \A i \in IdsOf(ds) : ~IsNull(r[i])
KeysUnique(ds) == \A r1, r2 \in ds.rows : Rst(r1, IdsOf(ds)) = Rst(r2, IdsOf(ds)) => r1 = r2
AtMostOneRowWithoutIds(ds) == IdsOf(ds) = {} => Cardinality(ds.rows) <= 1
TagOfType(t) == CASE t = "Integer" -> {1} [] t = "Number" -> {1, 2, 11, 12} [] t = "Boolean" -> {3}
                  [] t = "String" -> {4} [] t = "Date" -> {5} [] t = "Time_Period" -> {6, 13}
                  [] t = "Time" -> {7, 13} [] t = "Duration" -> {8, 13} [] OTHER -> {0}
ValuesTyped(ds) == \A r \in ds.rows : \A c \in ds.comps : IsNull(r[c.n]) \/ IsUndet(r[c.n]) \/ r[c.n][1] \in TagOfType(c.t)
RowsShaped(ds) == \A r \in ds.rows : DOMAIN r = AllNames(ds)
WellFormed(ds) == RowsShaped(ds) /\ IdsNonNull(ds) /\ KeysUnique(ds) /\ AtMostOneRowWithoutIds(ds) /\ ValuesTyped(ds)

-----------------------------------------------------------------------------
(* Static result types of the scalar operators *)
TypeOfValue(v) == CASE v[1] = 1 -> "Integer" [] v[1] = 2 -> "Number" [] v[1] = 3 -> "Boolean"
                    [] v[1] = 4 -> "String" [] v[1] = 5 -> "Date" [] v[1] = 6 -> "Time_Period"
                    [] v[1] = 7 -> "Time" [] v[1] = 8 -> "Duration" [] OTHER -> "Null"
NumLub(a, b) == IF a = "Integer" /\ b = "Integer" THEN "Integer"
                ELSE IF a = "Null" THEN b ELSE IF b = "Null" THEN a ELSE "Number"
UnType(op, a) ==
    CASE op \in {"+", "-", "abs"} -> a
      [] op \in {"not", "isnull"} -> "Boolean"
      [] op \in {"ceil", "floor", "length"} -> "Integer"
      [] op \in {"ln", "exp", "sqrt"} -> "Number"
      [] op \in {"trim", "ltrim", "rtrim", "upper", "lower"} -> "String"
BinType(op, a, b) ==
    CASE op \in {"+", "-", "*"} -> NumLub(a, b)
      [] op \in {"/", "power", "log"} -> "Number"
      [] op = "mod" -> NumLub(a, b)
      [] op \in BoolResult -> "Boolean"
      [] op = "||" -> "String"
      [] op = "nvl" -> IF a = "Null" THEN b ELSE IF b = "Null" \/ a = b THEN a ELSE NumLub(a, b)
FnType(op, ts, nargs) ==
    CASE op \in {"round", "trunc"} -> IF nargs[2] THEN "Integer" ELSE "Number"
      [] op \in {"substr", "replace"} -> "String"
      [] op = "instr" -> "Integer"
      [] op = "between" -> "Boolean"

-----------------------------------------------------------------------------
(* Component-level evaluation: the value of a term on one datapoint.        *)
(* A name denotes the datapoint's component if it has one, otherwise a      *)
(* scalar of the environment.                                               *)
\* the set of an `in` / `not_in`: written in the statement, or a value domain of the environment named by `dom`
\* (run(value_domains=...): an environment entry [set |-> <<values>>, t |-> type])
InSet(t, env) == IF "dom" \in DOMAIN t THEN Rng(env[t.dom].set) ELSE Rng(t.set)

RECURSIVE EvalC(_, _, _)
EvalC(t, row, env) ==
    CASE t.k = "const" -> t.v
      [] t.k = "var" -> IF t.name \in DOMAIN row THEN row[t.name] ELSE env[t.name].v
      [] t.k = "un" -> Un(t.op, EvalC(t.x, row, env))
      [] t.k = "bin" -> Bin(t.op, EvalC(t.l, row, env), EvalC(t.r, row, env))
      [] t.k = "fn" -> Fn(t.op, [i \in DOMAIN t.args |-> EvalC(t.args[i], row, env)])
      [] t.k = "in" -> LET x == EvalC(t.x, row, env)
                       IN  IF t.neg THEN NotInV(x, InSet(t, env)) ELSE InV(x, InSet(t, env))
      [] t.k = "if" -> LET c == EvalC(t.c, row, env)
                       IN  IF IsErr(c) THEN c ELSE IF c = T THEN EvalC(t.t, row, env) ELSE EvalC(t.e, row, env)
      [] t.k = "case" -> LET hits == { i \in DOMAIN t.whens : EvalC(t.whens[i][1], row, env) = T }
                         IN  IF hits = {} THEN EvalC(t.else, row, env)
                             ELSE EvalC(t.whens[Min(hits)][2], row, env)

\* static type of a component-level term; tenv: name -> type
RECURSIVE TypeC(_, _)
TypeC(t, tenv) ==
    CASE t.k = "const" -> TypeOfValue(t.v)
      [] t.k = "var" -> tenv[t.name]
      [] t.k = "un" -> UnType(t.op, TypeC(t.x, tenv))
      [] t.k = "bin" -> BinType(t.op, TypeC(t.l, tenv), TypeC(t.r, tenv))
      [] t.k = "fn" -> FnType(t.op, [i \in DOMAIN t.args |-> TypeC(t.args[i], tenv)],
                              [i \in DOMAIN t.args |-> t.args[i].k = "const" /\ IsNull(t.args[i].v)])
      [] t.k = "in" -> "Boolean"
      [] t.k = "if" -> LET a == TypeC(t.t, tenv) b == TypeC(t.e, tenv)
                       IN IF a = "Null" THEN b ELSE IF b = "Null" THEN a
                          ELSE IF a = b THEN a ELSE NumLub(a, b)
      [] t.k = "case" -> LET a == TypeC(t.whens[1][2], tenv) b == TypeC(t.else, tenv)
                         IN IF a = "Null" THEN b ELSE IF b = "Null" THEN a
                            ELSE IF a = b THEN a ELSE NumLub(a, b)

\* name -> type map of a dataset plus the scalars of an environment
TEnv(ds, env) == [x \in AllNames(ds) \cup { n \in DOMAIN env : IsSc(env[n]) } |->
                     IF x \in AllNames(ds) THEN TypeOfComp(ds, x) ELSE env[x].t]

\* first error (if any) among a set of values, deterministic: the least code
ErrsIn(vals) == { v \in vals : IsErr(v) }
HasErr(vals) == ErrsIn(vals) # {}
\* does any datapoint carry an error marker?
RowsErr(rows) == { r[c] : r \in rows, c \in UNION { DOMAIN q : q \in rows } } \cap { v \in { r[c] : r \in rows, c \in UNION { DOMAIN q : q \in rows } } : IsErr(v) }

\* type-changing renames of a mono-measure result (COMP_NAME_MAPPING of the semantic layer)
VarNameOf(t) == CASE t = "String" -> "str_var" [] t = "Number" -> "num_var" [] t = "Integer" -> "int_var"
                  [] t = "Boolean" -> "bool_var" [] t = "Date" -> "date_var" [] t = "Time_Period" -> "time_period_var"
                  [] t = "Time" -> "time_var" [] t = "Duration" -> "duration_var" [] OTHER -> "null_var"
\* "changed" = the operand type is not a subtype of the result type (Integer is a subtype of Number)
TypeChanged(from, to) == ~(from = to \/ (from = "Integer" /\ to = "Number") \/ from = "Null")
=============================================================================
