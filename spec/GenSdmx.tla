------------------------------ MODULE GenSdmx ------------------------------
(***************************************************************************)
(* Generation model for C27: every SDMX data type known to the installed   *)
(* pysdmx (handed over by the harness) x every role as a one-component     *)
(* structure next to a fixed dimension, plus the structures of 1-5          *)
(* components of the request file; emits the documented VTL structure or    *)
(* the input-validation error.                                             *)
(***************************************************************************)
EXTENDS VTLSdmx, Json, IOUtils

Req == JsonDeserialize(IOEnv.SDMX_FILE)
VARIABLE i
Init == i = 1
Structs == Req.structures       \* sequence of [id, comps]
Next == /\ i <= Len(Structs)
        /\ PrintT("@@" \o ToJson([id |-> Structs[i].id, exp |-> MapStructure(Structs[i].id, Structs[i].comps)]))
        /\ i' = i + 1
Inv == i <= Len(Structs) => OnlyDimensionsNonNullable(Structs[i].comps)
=============================================================================
