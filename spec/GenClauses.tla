----------------------------- MODULE GenClauses -----------------------------
(***************************************************************************)
(* Generation model for the clause operators (C02): every chain of 1..ChainLen  *)
(* clauses that is well-formed for the structure it is applied to, over    *)
(* datasets with two identifiers, an Integer and a String measure and an   *)
(* attribute.  A chain is ONE statement  D[c1][c2]...  (each clause sees   *)
(* the result of the previous one).  Conditions evaluate to true, false    *)
(* and null on different datapoints; calc adds, overwrites and changes     *)
(* roles; keep/drop/rename/sub act on every applicable component.          *)
(***************************************************************************)
EXTENDS VTLOperators, Json

CONSTANTS ChainLen

Row(i1, i2, m1, m2, a) == [x \in {"Id_1", "Id_2", "Me_1", "Me_2", "At_1"} |->
    CASE x = "Id_1" -> I(i1) [] x = "Id_2" -> S(<<i2>>) [] x = "Me_1" -> m1 [] x = "Me_2" -> m2 [] OTHER -> a]
Comps0 == { Comp("Id_1", "I", "Integer"), Comp("Id_2", "I", "String"), Comp("Me_1", "M", "Integer"),
            Comp("Me_2", "M", "String"), Comp("At_1", "A", "String") }
D0 == [comps |-> Comps0,
       rows |-> { Row(1, 97, I(2), S(<<97>>), S(<<120>>)), Row(1, 98, Null, S(<<98, 98>>), Null),
                  Row(2, 97, I(-3), Null, S(<<121>>)), Row(2, 98, I(0), S(<<>>), S(<<>>)) }]
D1 == [comps |-> Comps0, rows |-> {}]
Inputs == { [n \in {"D"} |-> d] : d \in {D0, D1} }

V(n) == [k |-> "var", name |-> n]
C(v) == [k |-> "const", v |-> v]
Bn(op, l, r) == [k |-> "bin", op |-> op, l |-> l, r |-> r]
U1(op, x) == [k |-> "un", op |-> op, x |-> x]
Cl(op, items) == [op |-> op, items |-> items]

NumNames(ds) == { c.n : c \in { x \in ds.comps : x.t \in {"Integer", "Number"} /\ x.r # "I" } }
StrNames(ds) == { c.n : c \in { x \in ds.comps : x.t = "String" /\ x.r # "I" } }
Fresh(ds, n) == n \notin AllNames(ds)

\* the clauses applicable to a dataset with the structure of ds
ClausesFor(ds) ==
    { Cl("filter", <<Bn(">", V(n), C(I(0)))>>) : n \in NumNames(ds) }
    \cup { Cl("filter", <<Bn("=", V(n), C(S(<<97>>)))>>) : n \in StrNames(ds) }
    \cup { Cl("filter", <<U1("isnull", V(n))>>) : n \in NumNames(ds) }
    \cup { Cl("filter", <<Bn("=", V("Id_1"), C(I(1)))>>) : x \in IF "Id_1" \in IdsOf(ds) THEN {1} ELSE {} }
    \cup { Cl("calc", <<[name |-> "Me_9", role |-> "M", expr |-> Bn("+", V(n), C(I(1)))]>>) : n \in { m \in NumNames(ds) : Fresh(ds, "Me_9") } }
    \cup { Cl("calc", <<[name |-> n, role |-> "M", expr |-> Bn("*", V(n), C(I(2)))]>>) : n \in NumNames(ds) \cap MeasOf(ds) }
    \cup { Cl("calc", <<[name |-> "At_9", role |-> "A", expr |-> Bn("||", V(n), C(S(<<33>>)))]>>) : n \in { m \in StrNames(ds) : Fresh(ds, "At_9") } }
    \cup { Cl("calc", <<[name |-> "Me_8", role |-> "M", expr |-> U1("length", V(n))], [name |-> "Me_7", role |-> "M", expr |-> U1("isnull", V(n))]>>)
           : n \in { m \in StrNames(ds) : Fresh(ds, "Me_8") /\ Fresh(ds, "Me_7") } }
    \cup { Cl("keep", <<n>>) : n \in MeasOf(ds) \cup AttrsOf(ds) }
    \cup { Cl("drop", <<n>>) : n \in { m \in MeasOf(ds) \cup AttrsOf(ds) : Cardinality(AllNames(ds)) > 1 } }
    \cup { Cl("rename", <<<<n, "Ren_1">>>>) : n \in { m \in MeasOf(ds) : Fresh(ds, "Ren_1") } }
    \* simultaneous renames whose targets are names renamed away by the same clause (swap, shift)
    \cup { Cl("rename", <<<<"Me_1", "Me_2">>, <<"Me_2", "Me_1">>>>) : x \in IF {"Me_1", "Me_2"} \subseteq MeasOf(ds) THEN {1} ELSE {} }
    \cup { Cl("rename", <<<<"Me_1", "Me_2">>, <<"Me_2", "Me_3">>>>) : x \in IF {"Me_1", "Me_2"} \subseteq MeasOf(ds) /\ Fresh(ds, "Me_3") THEN {1} ELSE {} }
    \cup { Cl("rename", <<<<"Id_1", "Id_9">>>>) : x \in IF "Id_1" \in IdsOf(ds) /\ Fresh(ds, "Id_9") THEN {1} ELSE {} }
    \cup { Cl("sub", <<<<"Id_2", S(<<97>>)>>>>) : x \in IF "Id_2" \in IdsOf(ds) /\ Cardinality(IdsOf(ds)) > 1 THEN {1} ELSE {} }
    \cup { Cl("sub", <<<<"Id_1", I(2)>>>>) : x \in IF "Id_1" \in IdsOf(ds) /\ Cardinality(IdsOf(ds)) > 1 THEN {1} ELSE {} }

Apply(cl, t) == [k |-> "clause", op |-> cl.op, ds |-> t, items |-> cl.items]
\* all well-formed chains of exactly n clauses starting from term t whose value is ds
RECURSIVE Chains(_, _, _)
Chains(t, ds, n) ==
    IF n = 0 THEN { t }
    ELSE UNION { LET t2 == Apply(cl, t)
                     v == ApplyClause(t2, ds, <<>>)
                 IN  IF IsE(v) THEN {} ELSE Chains(t2, v, n - 1)
                 : cl \in ClausesFor(ds) }
Terms(e, d) == UNION { Chains(V("D"), e["D"], n) : n \in 1..ChainLen }

VARIABLES env, depth, outcome
M == INSTANCE VTLMachine WITH InputEnvs <- Inputs, TermsOf <- Terms, MaxDepth <- 1
Init == M!Init
Next == M!Next
Closure == M!Closure
(* laws *)
FilterTrueIsId == \A n \in DOMAIN env : IsDS(env[n]) =>
                     Filter(env[n], C(T), <<>>).rows = env[n].rows
=============================================================================
