INIT Init
NEXT Next
INVARIANT PoolsSane
CHECK_DEADLOCK FALSE
