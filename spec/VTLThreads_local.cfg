SPECIFICATION Spec
CONSTANT Shared = FALSE
CONSTANT Programs <- ProgramsFromFile
INVARIANT Isolation
INVARIANT LockConsistent
INVARIANT Progress
PROPERTY Termination
CHECK_DEADLOCK FALSE
