CONSTANTS
  MaxRuns = 50
  BodySteps = 1000000
  FileBacked = FALSE
  ProtectedFrom = "mkdir"
INIT TInit
NEXT TNext
INVARIANT NoLeak
CHECK_DEADLOCK FALSE
