----------------------------- MODULE VTLFormats -----------------------------
(***************************************************************************)
(* The DOCUMENTED external representations of the VTL scalar types         *)
(* (docs/data_types.rst): which texts are accepted as input for a          *)
(* component of each type, which value each denotes, and how values are    *)
(* rendered on output.                                                     *)
(*                                                                         *)
(* A table cell is a *spelling descriptor* [form, ...fields]; Text(d) is   *)
(* its concrete text, Denotes(d) the value it denotes (tagged value of     *)
(* VTLValues) or Invalid.  Generation works on descriptors, so the spec    *)
(* never has to parse text.                                                *)
(***************************************************************************)
EXTENDS VTLCalendar, Sequences

Invalid == <<-1, "invalid">>
NotExpressible == [form |-> "not-expressible"]

Pad(n, w) == LET s == ToString(n)
             IN  IF Len(s) >= w THEN s
                 ELSE IF w - Len(s) = 1 THEN "0" \o s
                 ELSE IF w - Len(s) = 2 THEN "00" \o s ELSE "000" \o s
Y4(y) == Pad(y, 4)
IsoDate(o) == Y4(YearOf(o)) \o "-" \o Pad(MonthOf(o), 2) \o "-" \o Pad(DayOfMonth(o), 2)

(***************************************************************************)
(* Time_Period: the documented input forms per indicator                   *)
(***************************************************************************)
PeriodForms(i) ==
    CASE i = "A" -> {"YYYY", "YYYYA", "YYYY-A1"}
      [] i = "S" -> {"YYYYSx", "YYYY-Sx"}
      [] i = "Q" -> {"YYYYQx", "YYYY-Qx"}
      [] i = "M" -> {"YYYYMm", "YYYYMmm", "YYYY-MM", "YYYY-M", "YYYY-Mxx", "YYYY-Mx"}
      [] i = "W" -> {"YYYYWw", "YYYYWww", "YYYY-Wxx"}
      [] i = "D" -> {"YYYYDd", "YYYYDdd", "YYYYDddd", "YYYY-Dx", "YYYY-Dxx", "YYYY-Dxxx", "YYYY-MM-DD"}

\* descriptor [form, y, i, n]; for the date form of a day period n is the day of the year
PeriodText(d) ==
    LET y == Y4(d.y) n == d.n f == d.form IN
    CASE f = "YYYY" -> y
      [] f = "YYYYA" -> y \o "A"
      [] f = "YYYY-A1" -> y \o "-A1"
      [] f = "YYYYSx" -> y \o "S" \o ToString(n)
      [] f = "YYYY-Sx" -> y \o "-S" \o ToString(n)
      [] f = "YYYYQx" -> y \o "Q" \o ToString(n)
      [] f = "YYYY-Qx" -> y \o "-Q" \o ToString(n)
      [] f = "YYYYMm" -> y \o "M" \o ToString(n)
      [] f = "YYYYMmm" -> y \o "M" \o Pad(n, 2)
      [] f = "YYYY-MM" -> y \o "-" \o Pad(n, 2)
      [] f = "YYYY-M" -> y \o "-" \o ToString(n)
      [] f = "YYYY-Mxx" -> y \o "-M" \o Pad(n, 2)
      [] f = "YYYY-Mx" -> y \o "-M" \o ToString(n)
      [] f = "YYYYWw" -> y \o "W" \o ToString(n)
      [] f = "YYYYWww" -> y \o "W" \o Pad(n, 2)
      [] f = "YYYY-Wxx" -> y \o "-W" \o Pad(n, 2)
      [] f = "YYYYDd" -> y \o "D" \o ToString(n)
      [] f = "YYYYDdd" -> y \o "D" \o Pad(n, 2)
      [] f = "YYYYDddd" -> y \o "D" \o Pad(n, 3)
      [] f = "YYYY-Dx" -> y \o "-D" \o ToString(n)
      [] f = "YYYY-Dxx" -> y \o "-D" \o Pad(n, 2)
      [] f = "YYYY-Dxxx" -> y \o "-D" \o Pad(n, 3)
      [] f = "YYYY-MM-DD" -> IsoDate(DaysBeforeYear(d.y) + n)

\* is the text of this form well defined for n (e.g. a 1-digit form cannot spell 12)
FormFits(f, n) ==
    CASE f \in {"YYYY-M", "YYYYMm", "YYYY-Mx", "YYYYWw", "YYYYDd", "YYYY-Dx"} -> TRUE
      [] f \in {"YYYYDdd", "YYYY-Dxx"} -> n <= 99
      [] OTHER -> TRUE

PeriodDenotes(d) == IF ValidPeriod(<<d.y, d.i, d.n>>) THEN <<6, <<d.y, d.i, d.n>>>> ELSE Invalid

(***************************************************************************)
(* Time_Period output formats                                              *)
(***************************************************************************)
OutFormats == {"vtl", "sdmx_reporting", "sdmx_gregorian", "natural"}
Render(p, fmt) ==
    LET y == p[1] i == p[2] n == p[3]
        D(f) == [form |-> f, y |-> y, i |-> i, n |-> n]
    IN
    CASE fmt = "vtl" ->
           (CASE i = "A" -> D("YYYY") [] i = "S" -> D("YYYYSx") [] i = "Q" -> D("YYYYQx")
              [] i = "M" -> D("YYYYMm") [] i = "W" -> D("YYYYWw") [] i = "D" -> D("YYYYDd"))
      [] fmt = "sdmx_reporting" ->
           (CASE i = "A" -> D("YYYY-A1") [] i = "S" -> D("YYYY-Sx") [] i = "Q" -> D("YYYY-Qx")
              [] i = "M" -> D("YYYY-Mxx") [] i = "W" -> D("YYYY-Wxx") [] i = "D" -> D("YYYY-Dxxx"))
      [] fmt = "sdmx_gregorian" ->
           (CASE i = "A" -> D("YYYY") [] i = "M" -> D("YYYY-MM") [] i = "D" -> D("YYYY-MM-DD")
              [] OTHER -> NotExpressible)
      [] fmt = "natural" ->
           (CASE i = "A" -> D("YYYY") [] i = "S" -> D("YYYY-Sx") [] i = "Q" -> D("YYYY-Qx")
              [] i = "M" -> D("YYYY-MM") [] i = "W" -> D("YYYY-Wxx") [] i = "D" -> D("YYYY-MM-DD"))

\* the period a rendered descriptor denotes when read back as INPUT; the date form goes through the calendar
ReadBack(d) == IF d.form = "YYYY-MM-DD"
               THEN LET o == DaysBeforeYear(d.y) + d.n IN <<6, PeriodOfDate(o, "D")>>
               ELSE IF d.form \in PeriodForms(d.i) THEN PeriodDenotes(d) ELSE Invalid

(* Theorems (checked by TLC in GenFormats for every period of the requested years) *)
RoundTrip(p) == \A fmt \in OutFormats :
                   LET r == Render(p, fmt)
                   IN  r # NotExpressible => (r.form \in PeriodForms(p[2]) /\ ReadBack(r) = <<6, p>>)
AllFormsAgree(p) == \A f \in PeriodForms(p[2]) : PeriodDenotes([form |-> f, y |-> p[1], i |-> p[2], n |-> p[3]]) = <<6, p>>
GregorianExpressible(p) == (Render(p, "sdmx_gregorian") # NotExpressible) <=> p[2] \in {"A", "M", "D"}
=============================================================================
