----------------------------- MODULE VTLFormats -----------------------------
(***************************************************************************)
(* The DOCUMENTED external representations of the VTL scalar types         *)
(* (docs/data_types.rst): which texts are accepted as input for a          *)
(* component of each type, which value each denotes, and how values are    *)
(* rendered on output.                                                     *)
(*                                                                         *)
(* A table cell is a *spelling descriptor* [form, ...fields]; Text(d) is   *)
(* its concrete text, Denotes(d) the value it denotes (tagged value of     *)
(* VTLValues) or Invalid.  Generation works on descriptors, so the spec    *)
(* never has to parse text.                                                *)
(***************************************************************************)
EXTENDS VTLCalendar, Sequences

Invalid == <<-1, "invalid">>
NotExpressible == [form |-> "not-expressible"]

Pad(n, w) == LET s == ToString(n)
             IN  IF Len(s) >= w THEN s
                 ELSE IF w - Len(s) = 1 THEN "0" \o s
                 ELSE IF w - Len(s) = 2 THEN "00" \o s ELSE "000" \o s
Y4(y) == Pad(y, 4)
IsoDate(o) == Y4(YearOf(o)) \o "-" \o Pad(MonthOf(o), 2) \o "-" \o Pad(DayOfMonth(o), 2)

(***************************************************************************)
(* Time_Period: the documented input forms per indicator                   *)
(***************************************************************************)
PeriodForms(i) ==
    CASE i = "A" -> {"YYYY", "YYYYA", "YYYY-A1"}
      [] i = "S" -> {"YYYYSx", "YYYY-Sx"}
      [] i = "Q" -> {"YYYYQx", "YYYY-Qx"}
      [] i = "M" -> {"YYYYMm", "YYYYMmm", "YYYY-MM", "YYYY-M", "YYYY-Mxx", "YYYY-Mx"}
      [] i = "W" -> {"YYYYWw", "YYYYWww", "YYYY-Wxx"}
      [] i = "D" -> {"YYYYDd", "YYYYDdd", "YYYYDddd", "YYYY-Dx", "YYYY-Dxx", "YYYY-Dxxx", "YYYY-MM-DD"}

\* descriptor [form, y, i, n]; for the date form of a day period n is the day of the year
PeriodText(d) ==
    LET y == Y4(d.y) n == d.n f == d.form IN
    CASE f = "YYYY" -> y
      [] f = "YYYYA" -> y \o "A"
      [] f = "YYYY-A1" -> y \o "-A1"
      [] f = "YYYYSx" -> y \o "S" \o ToString(n)
      [] f = "YYYY-Sx" -> y \o "-S" \o ToString(n)
      [] f = "YYYYQx" -> y \o "Q" \o ToString(n)
      [] f = "YYYY-Qx" -> y \o "-Q" \o ToString(n)
      [] f = "YYYYMm" -> y \o "M" \o ToString(n)
      [] f = "YYYYMmm" -> y \o "M" \o Pad(n, 2)
      [] f = "YYYY-MM" -> y \o "-" \o Pad(n, 2)
      [] f = "YYYY-M" -> y \o "-" \o ToString(n)
      [] f = "YYYY-Mxx" -> y \o "-M" \o Pad(n, 2)
      [] f = "YYYY-Mx" -> y \o "-M" \o ToString(n)
      [] f = "YYYYWw" -> y \o "W" \o ToString(n)
      [] f = "YYYYWww" -> y \o "W" \o Pad(n, 2)
      [] f = "YYYY-Wxx" -> y \o "-W" \o Pad(n, 2)
      [] f = "YYYYDd" -> y \o "D" \o ToString(n)
      [] f = "YYYYDdd" -> y \o "D" \o Pad(n, 2)
      [] f = "YYYYDddd" -> y \o "D" \o Pad(n, 3)
      [] f = "YYYY-Dx" -> y \o "-D" \o ToString(n)
      [] f = "YYYY-Dxx" -> y \o "-D" \o Pad(n, 2)
      [] f = "YYYY-Dxxx" -> y \o "-D" \o Pad(n, 3)
      [] f = "YYYY-MM-DD" -> IsoDate(DaysBeforeYear(d.y) + n)

\* is the text of this form well defined for n (e.g. a 1-digit form cannot spell 12)
FormFits(f, n) ==
    CASE f \in {"YYYY-M", "YYYYMm", "YYYY-Mx", "YYYYWw", "YYYYDd", "YYYY-Dx"} -> TRUE
      [] f \in {"YYYYDdd", "YYYY-Dxx"} -> n <= 99
      [] OTHER -> TRUE

PeriodDenotes(d) == IF ValidPeriod(<<d.y, d.i, d.n>>) THEN <<6, <<d.y, d.i, d.n>>>> ELSE Invalid

(***************************************************************************)
(* Time_Period output formats                                              *)
(***************************************************************************)
OutFormats == {"vtl", "sdmx_reporting", "sdmx_gregorian", "natural"}
Render(p, fmt) ==
    LET y == p[1] i == p[2] n == p[3]
        D(f) == [form |-> f, y |-> y, i |-> i, n |-> n]
    IN
    CASE fmt = "vtl" ->
           (CASE i = "A" -> D("YYYY") [] i = "S" -> D("YYYYSx") [] i = "Q" -> D("YYYYQx")
              [] i = "M" -> D("YYYYMm") [] i = "W" -> D("YYYYWw") [] i = "D" -> D("YYYYDd"))
      [] fmt = "sdmx_reporting" ->
           (CASE i = "A" -> D("YYYY-A1") [] i = "S" -> D("YYYY-Sx") [] i = "Q" -> D("YYYY-Qx")
              [] i = "M" -> D("YYYY-Mxx") [] i = "W" -> D("YYYY-Wxx") [] i = "D" -> D("YYYY-Dxxx"))
      [] fmt = "sdmx_gregorian" ->
           (CASE i = "A" -> D("YYYY") [] i = "M" -> D("YYYY-MM") [] i = "D" -> D("YYYY-MM-DD")
              [] OTHER -> NotExpressible)
      [] fmt = "natural" ->
           (CASE i = "A" -> D("YYYY") [] i = "S" -> D("YYYY-Sx") [] i = "Q" -> D("YYYY-Qx")
              [] i = "M" -> D("YYYY-MM") [] i = "W" -> D("YYYY-Wxx") [] i = "D" -> D("YYYY-MM-DD"))

\* the period a rendered descriptor denotes when read back as INPUT; the date form goes through the calendar
ReadBack(d) == IF d.form = "YYYY-MM-DD"
               THEN LET o == DaysBeforeYear(d.y) + d.n IN <<6, PeriodOfDate(o, "D")>>
               ELSE IF d.form \in PeriodForms(d.i) THEN PeriodDenotes(d) ELSE Invalid

(* Theorems (checked by TLC in GenFormats for every period of the requested years) *)
RoundTrip(p) == \A fmt \in OutFormats :
                   LET r == Render(p, fmt)
                   IN  r # NotExpressible => (r.form \in PeriodForms(p[2]) /\ ReadBack(r) = <<6, p>>)
AllFormsAgree(p) == \A f \in PeriodForms(p[2]) : PeriodDenotes([form |-> f, y |-> p[1], i |-> p[2], n |-> p[3]]) = <<6, p>>
GregorianExpressible(p) == (Render(p, "sdmx_gregorian") # NotExpressible) <=> p[2] \in {"A", "M", "D"}

(***************************************************************************)
(* Cells of the other types: [form, text, den] with den = the tagged value *)
(* the text denotes under the documented input formats, Invalid when the   *)
(* documentation admits no such representation, Undet where it does not    *)
(* say (such cells are only compared ACROSS input forms, C18 / C20).       *)
(***************************************************************************)
Undet == <<14, 0>>
NullV == <<0, 0>>
Cell(f, t, d) == [form |-> f, text |-> t, den |-> d]
DT(y, m, d, sec) == <<5, <<Ord(y, m, d), sec>>>>
P2(n) == Pad(n, 2)

IntegerCells == <<
   Cell("int", "42", <<1, 42>>), Cell("zero", "0", <<1, 0>>), Cell("negative", "-7", <<1, -7>>),
   Cell("fraction", "3.5", Invalid), Cell("negative-fraction", "-0.5", Invalid),
   Cell("hexadecimal", "0x1F", Invalid), Cell("alpha", "abc", Invalid), Cell("mixed", "12abc", Invalid),
   Cell("integral-float", "3.0", Undet), Cell("plus-sign", "+5", Undet), Cell("padded", " 7 ", Undet),
   Cell("exponent", "1e3", Undet), Cell("null", "", NullV) >>
NumberCells == <<
   Cell("int", "42", <<2, <<42, 1>>>>), Cell("decimal", "3.14", <<2, <<157, 50>>>>), Cell("negative", "-0.25", <<2, <<-1, 4>>>>),
   Cell("exponent", "1e5", <<2, <<100000, 1>>>>), Cell("zero", "0", <<2, <<0, 1>>>>),
   Cell("alpha", "abc", Invalid), Cell("comma", "1,5", Invalid), Cell("hexadecimal", "0x1F", Invalid), Cell("two-dots", "1.2.3", Invalid),
   Cell("padded", " 2.5 ", Undet), Cell("nan", "NaN", Undet), Cell("infinity", "inf", Undet), Cell("null", "", NullV) >>
BooleanCells == <<
   Cell("true", "true", <<3, TRUE>>), Cell("false", "false", <<3, FALSE>>), Cell("TRUE", "TRUE", <<3, TRUE>>),
   Cell("False", "False", <<3, FALSE>>), Cell("one", "1", <<3, TRUE>>), Cell("zero", "0", <<3, FALSE>>),
   Cell("yes", "yes", Invalid), Cell("two", "2", Invalid), Cell("alpha", "abc", Invalid), Cell("t", "t", Undet),
   Cell("padded", " true ", Undet), Cell("null", "", NullV) >>
DateCells == <<
   Cell("date", "2020-01-15", DT(2020, 1, 15, 0)), Cell("leap-day", "2020-02-29", DT(2020, 2, 29, 0)),
   Cell("datetime-space", "2020-01-15 10:30:00", DT(2020, 1, 15, 37800)), Cell("datetime-T", "2020-01-15T10:30:00", DT(2020, 1, 15, 37800)),
   Cell("timezone-Z", "2020-01-15T10:30:00Z", DT(2020, 1, 15, 37800)), Cell("timezone-offset", "2020-01-15T10:30:00+02:00", DT(2020, 1, 15, 37800)),
   Cell("first-year", "1800-01-01", DT(1800, 1, 1, 0)), Cell("last-year", "9999-12-31", DT(9999, 12, 31, 0)),
   Cell("month-13", "2020-13-01", Invalid), Cell("day-30-feb", "2020-02-30", Invalid), Cell("day-29-feb-common", "2021-02-29", Invalid),
   Cell("year-1799", "1799-12-31", Invalid), Cell("year-10000", "10000-01-01", Invalid),
   Cell("partial-time", "2020-01-15 10:30", Invalid), Cell("hour-only", "2020-01-15T10", Invalid), Cell("hour-25", "2020-01-15T25:00:00", Invalid),
   Cell("bad-separator", "2020-01-15X10:30:00", Invalid), Cell("slashes", "2020/01/15", Invalid), Cell("alpha", "abc", Invalid),
   Cell("period-text", "2020Q1", Invalid), Cell("one-digit-month", "2020-1-5", Undet), Cell("null", "", NullV) >>
PD(y, i, n) == <<6, <<y, i, n>>>>
PeriodCells == <<
   Cell("YYYY", "2020", PD(2020, "A", 1)), Cell("YYYYA", "2020A", PD(2020, "A", 1)), Cell("YYYY-A1", "2020-A1", PD(2020, "A", 1)),
   Cell("YYYYSx", "2020S2", PD(2020, "S", 2)), Cell("YYYY-Qx", "2020-Q3", PD(2020, "Q", 3)),
   Cell("YYYYMm", "2020M2", PD(2020, "M", 2)), Cell("YYYY-MM", "2020-02", PD(2020, "M", 2)), Cell("YYYY-Mxx", "2020-M12", PD(2020, "M", 12)),
   Cell("YYYYWww", "2020W53", PD(2020, "W", 53)), Cell("YYYY-Wxx", "2021-W52", PD(2021, "W", 52)),
   Cell("YYYYDddd", "2020D366", PD(2020, "D", 366)), Cell("YYYY-MM-DD", "2020-03-01", PD(2020, "D", 61)),
   Cell("semester-3", "2020S3", Invalid), Cell("quarter-5", "2020Q5", Invalid), Cell("month-13", "2020M13", Invalid), Cell("month-0", "2020M0", Invalid),
   Cell("week-54", "2020W54", Invalid), Cell("week-53-of-52", "2021W53", Invalid), Cell("week-0", "2020W0", Invalid),
   Cell("day-366-common", "2021D366", Invalid), Cell("day-367", "2020D367", Invalid), Cell("day-0", "2020D0", Invalid),
   Cell("date-month-13", "2020-13-01", Invalid), Cell("alpha", "abc", Invalid), Cell("interval-text", "2020-01-01/2020-12-31", Invalid),
   Cell("lowercase", "2020q1", Undet), Cell("null", "", NullV) >>
IV(a, b) == <<7, <<a, b>>>>
TimeCells == <<
   Cell("interval", "2020-01-01/2020-12-31", IV(Ord(2020, 1, 1), Ord(2020, 12, 31))),
   Cell("same-day", "2020-03-05/2020-03-05", IV(Ord(2020, 3, 5), Ord(2020, 3, 5))),
   Cell("year", "2020", IV(Ord(2020, 1, 1), Ord(2020, 12, 31))), Cell("year-month", "2020-02", IV(Ord(2020, 2, 1), Ord(2020, 2, 29))),
   Cell("reversed", "2020-12-31/2020-01-01", Invalid), Cell("month-13", "2020-13-01/2020-13-31", Invalid),
   Cell("alpha", "abc", Invalid), Cell("single-date", "2020-01-15", Undet), Cell("period-text", "2020Q1", Undet), Cell("null", "", NullV) >>
DurationCells == <<
   Cell("A", "A", <<8, "A">>), Cell("S", "S", <<8, "S">>), Cell("Q", "Q", <<8, "Q">>), Cell("M", "M", <<8, "M">>), Cell("W", "W", <<8, "W">>),
   Cell("D", "D", <<8, "D">>), Cell("unknown-letter", "X", Invalid), Cell("iso-duration", "P1Y", Invalid), Cell("word", "month", Invalid),
   Cell("digit", "1", Invalid), Cell("lowercase", "m", Undet), Cell("null", "", NullV) >>
StringCells == <<
   Cell("text", "abc", <<4, "abc">>), Cell("spaces", "a b", <<4, "a b">>), Cell("digits", "42", <<4, "42">>), Cell("comma", "x,y", <<4, "x,y">>), Cell("semicolon", "a;b", <<4, "a;b">>), Cell("inner-quote", "say \"hi\"", Undet),
   Cell("padded", " x ", Undet), Cell("empty", "", Undet) >>
CellsOf(t) == CASE t = "Integer" -> IntegerCells [] t = "Number" -> NumberCells [] t = "Boolean" -> BooleanCells
                [] t = "Date" -> DateCells [] t = "Time_Period" -> PeriodCells [] t = "Time" -> TimeCells
                [] t = "Duration" -> DurationCells [] t = "String" -> StringCells

(***************************************************************************)
(* A table: cols = sequence of [n, r, t, u] (u = nullable), rows = sequence *)
(* of sequences of cells (one per column, "absent" column = not in `has`).  *)
(* Verdict: "reject" when the table violates its declared structure,       *)
(* "accept" when it does not, "undetermined" when it holds an Undet cell   *)
(* and no violation.                                                       *)
(***************************************************************************)
IdIdx(cols) == { i \in DOMAIN cols : cols[i].r = "I" }
TableVerdict(cols, has, rows) ==
    LET ids == IdIdx(cols)
        missing == { i \in DOMAIN cols : i \notin has }
        key(r) == [i \in ids |-> r[i].den]
    IN  IF \E i \in missing : cols[i].r = "I" \/ ~cols[i].u THEN "reject"                              \* missing identifier / non-nullable column
        ELSE IF \E k \in DOMAIN rows : \E i \in has : rows[k][i].den = Invalid THEN "reject"             \* not a representation of the type
        ELSE IF \E k \in DOMAIN rows : \E i \in has : rows[k][i].den = NullV /\ (cols[i].r = "I" \/ ~cols[i].u) THEN "reject"   \* null identifier / non-nullable
        ELSE IF ids = {} /\ Len(rows) > 1 THEN "reject"                                                  \* more than one datapoint without identifiers
        ELSE IF \E k \in DOMAIN rows : \E i \in has : rows[k][i].den = Undet THEN "undetermined"
        ELSE IF \E a, b \in DOMAIN rows : a # b /\ key(rows[a]) = key(rows[b]) THEN "reject"              \* duplicate identifier keys
        ELSE "accept"
=============================================================================
