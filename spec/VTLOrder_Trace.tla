--------------------------- MODULE VTLOrder_Trace ---------------------------
(***************************************************************************)
(* Trace validation for C12.  A unit groups all observations of ONE script *)
(* under different textual orders:                                         *)
(*   [id, n, reads (per statement, or <<>> when unknown), dup,             *)
(*    obs: sequence of [perm, api, outcome, digest]]                       *)
(* outcome is "ok" or the VTL error code.  When the dependency structure   *)
(* is known (generated scripts) the expected outcome comes from the        *)
(* specification (cycle => 1-3-2-3, redefinition => 1-2-2, else ok);       *)
(* in every case all observations of the unit must agree (same outcome,    *)
(* and for "ok" the same result digest per API function).                  *)
(***************************************************************************)
EXTENDS Integers, Sequences, FiniteSets, TLC, Json, IOUtils

Units == JsonDeserialize(IOEnv.TRACE_FILE)
Rng(s) == { s[i] : i \in DOMAIN s }
StIdx(name, n) == CHOOSE i \in 1..n : name = ("S_" \o ToString(i))
IsSt(name, n) == \E i \in 1..n : name = ("S_" \o ToString(i))
StmtReads(u, i) == { StIdx(x, u.n) : x \in { y \in Rng(u.reads[i]) : IsSt(y, u.n) } }
RECURSIVE Reach(_, _, _)
Reach(u, S, k) == IF k = 0 THEN S ELSE Reach(u, S \cup UNION { StmtReads(u, j) : j \in S }, k - 1)
Acyclic(u) == \A i \in 1..u.n : i \notin Reach(u, StmtReads(u, i), u.n)

Expected(u) == IF u.reads = <<>> THEN "same"
               ELSE IF ~Acyclic(u) THEN "1-3-2-3"
               ELSE IF u.dup THEN "1-2-2" ELSE "ok"
Why(u) ==
    LET e == Expected(u) O == Rng(u.obs) IN
    IF e # "same" /\ \E o \in O : o.outcome # e
      THEN "outcome differs from the specification: expected " \o e \o ", got " \o (CHOOSE o \in O : o.outcome # e).outcome
    ELSE IF \E a, b \in O : a.api = b.api /\ a.outcome # b.outcome
      THEN "outcome depends on the textual order"
    ELSE IF \E a, b \in O : a.api = b.api /\ a.digest # b.digest
      THEN "results depend on the textual order"
    ELSE ""

ChunkSize == 50
VARIABLE l
Init == l \in { i \in 1..Len(Units) : i % ChunkSize = 1 \/ ChunkSize = 1 }
Next == /\ l <= Len(Units)
        /\ PrintT("@@" \o ToJson([id |-> Units[l].id, ok |-> Why(Units[l]) = "", why |-> Why(Units[l])]))
        /\ l' = IF l % ChunkSize = 0 THEN Len(Units) + 1 + l ELSE l + 1
=============================================================================
