------------------------------ MODULE VTLOrder ------------------------------
(***************************************************************************)
(* C12: results do not depend on the textual order of statements.          *)
(*                                                                         *)
(* A script is a function  statement index -> set of names it reads        *)
(* (inputs "In_j" or other statements "S_j", in ANY direction, so cyclic   *)
(* scripts are part of the family) plus a textual order (a permutation).   *)
(* The abstract machine may execute any statement whose statement operands *)
(* have been executed (any topological order is a legal behaviour).  TLC   *)
(* checks, for every script of the family:                                 *)
(*   Confluence   - whatever order is taken, each statement gets the value *)
(*                  Den(i) determined by the script alone;                 *)
(*   Completion   - the machine gets stuck before the end exactly when the *)
(*                  script has a dependency cycle (=> rejection 1-3-2-3).  *)
(* Every (script, textual order) pair is emitted and replayed on the real  *)
(* engine (B1): create_ast / semantic_analysis / run must give the same    *)
(* outcome for every permutation of the text.                              *)
(***************************************************************************)
EXTENDS Integers, Sequences, FiniteSets, TLC, Json

CONSTANTS N, NInputs, AllPerms
Stmts == 1..N
InName(i) == CASE i = 1 -> "In_1" [] OTHER -> "In_2"
StName(i) == CASE i = 1 -> "S_1" [] i = 2 -> "S_2" [] i = 3 -> "S_3" [] OTHER -> "S_4"
InNames == { InName(j) : j \in 1..NInputs }
ReadSets(i) == (SUBSET (InNames \cup { StName(j) : j \in Stmts \ {i} })) \ {{}}
Scripts == [Stmts -> SUBSET (InNames \cup { StName(j) : j \in Stmts })]
Perms == IF AllPerms THEN { p \in [Stmts -> Stmts] : \A a, b \in Stmts : a # b => p[a] # p[b] }
         ELSE { [i \in Stmts |-> i] }

StmtReads(sc, i) == { j \in Stmts : StName(j) \in sc[i] }
\* reachability by repeated squaring of the "reads" relation
RECURSIVE Reach(_, _, _)
Reach(sc, S, k) == IF k = 0 THEN S ELSE Reach(sc, S \cup UNION { StmtReads(sc, j) : j \in S }, k - 1)
Acyclic(sc) == \A i \in Stmts : i \notin Reach(sc, StmtReads(sc, i), N)

\* denotation of a statement: the tree of its operands (well-founded when acyclic)
RECURSIVE Den(_, _, _)
Den(sc, i, fuel) == IF fuel = 0 THEN <<"cycle">>
                    ELSE [stmt |-> i,
                          ins |-> sc[i] \cap InNames,
                          ops |-> { Den(sc, j, fuel - 1) : j \in StmtReads(sc, i) }]

VARIABLES sc, text, done, env
vars == <<sc, text, done, env>>

Init == /\ sc \in { s \in Scripts : \A i \in Stmts : s[i] \in ReadSets(i) }
        /\ text \in Perms
        /\ done = {} /\ env = << >>
        /\ PrintT("@@" \o ToJson([reads |-> [i \in Stmts |-> sc[i]], text |-> text, acyclic |-> Acyclic(sc)]))

Ready(i) == i \notin done /\ StmtReads(sc, i) \subseteq done
Exec(i) == /\ Ready(i)
           /\ done' = done \cup {i}
           /\ env' = [j \in done \cup {i} |-> IF j = i
                          THEN [stmt |-> i, ins |-> sc[i] \cap InNames, ops |-> { env[q] : q \in StmtReads(sc, i) }]
                          ELSE env[j]]
           /\ UNCHANGED <<sc, text>>
Next == \E i \in Stmts : Exec(i)
Spec == Init /\ [][Next]_vars

Confluence == Acyclic(sc) => \A i \in done : env[i] = Den(sc, i, N)
Stuck == \A i \in Stmts : ~Ready(i)
Completion == Stuck => (done = Stmts <=> Acyclic(sc))
=============================================================================
