CONSTANTS
  Depth = 1
  Family = "num"
  MeA = "Me_1"
  MeB = "Me_1"
INIT Init
NEXT Next
INVARIANT Closure
INVARIANT KleeneTable
CHECK_DEADLOCK FALSE
