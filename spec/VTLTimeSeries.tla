--------------------------- MODULE VTLTimeSeries ---------------------------
(***************************************************************************)
(* Time-series operators over datasets whose time identifier holds periods *)
(* of ONE indicator:  a datapoint is [g: values of the other identifiers   *)
(* (a string), p: <<year, ind, n>>, v: Integer value or Null].             *)
(*   timeshift(k)          every period moved by k periods                 *)
(*   fill_time_series      missing periods between the first and the last  *)
(*                         period (of the group: single; of the dataset:   *)
(*                         all) are added with a null measure              *)
(*   flow_to_stock         running sum along time within the group         *)
(*   stock_to_flow         difference with the previous datapoint of the   *)
(*                         group (the first one keeps its value)           *)
(* Periods are put on a line by Lin (calendar-correct for weeks and days). *)
(***************************************************************************)
EXTENDS VTLCalendar, VTLValues, FiniteSetsExt

Lin(p) == CASE p[2] = "D" -> PeriodStart(p)
            [] p[2] = "W" -> (PeriodStart(p) - 1) \div 7
            [] OTHER -> p[1] * PeriodsInYear(p[2], p[1]) + (p[3] - 1)
FromLin(i, q) == CASE i = "D" -> PeriodOfDate(q, "D")
                   [] i = "W" -> PeriodOfDate(7 * q + 1, "W")
                   [] OTHER -> LET per == PeriodsInYear(i, 2000) IN <<q \div per, i, (q % per) + 1>>

Groups(rows) == { r.g : r \in rows }
Of(rows, g) == { r \in rows : r.g = g }
MinLin(rs) == CHOOSE x \in { Lin(r.p) : r \in rs } : \A y \in { Lin(r.p) : r \in rs } : x <= y
MaxLin(rs) == CHOOSE x \in { Lin(r.p) : r \in rs } : \A y \in { Lin(r.p) : r \in rs } : x >= y
IndOf(rows) == (CHOOSE r \in rows : TRUE).p[2]

TimeShift(rows, k) == { [g |-> r.g, p |-> ShiftPeriod(r.p, k), v |-> r.v] : r \in rows }

FillRows(rows, all) ==
    IF rows = {} THEN {}
    ELSE LET i == IndOf(rows)
             \* all: every series covers the whole years spanned by the dataset (reference-manual example; READINGS.md)
             minY == FromLin(i, MinLin(rows))[1]
             maxY == FromLin(i, MaxLin(rows))[1]
             lo(g) == IF all THEN Lin(<<minY, i, 1>>) ELSE MinLin(Of(rows, g))
             hi(g) == IF all THEN Lin(<<maxY, i, PeriodsInYear(i, maxY)>>) ELSE MaxLin(Of(rows, g))
             missing(g) == { q \in lo(g)..hi(g) : ~\E r \in Of(rows, g) : Lin(r.p) = q }
         IN  rows \cup UNION { { [g |-> g, p |-> FromLin(i, q), v |-> Null] : q \in missing(g) } : g \in Groups(rows) }

SumV(rs) == FoldSet(LAMBDA r, acc : AddV(acc, r.v), I(0), rs)
FlowToStock(rows) == { [g |-> r.g, p |-> r.p, v |-> SumV({ q \in Of(rows, r.g) : Lin(q.p) <= Lin(r.p) })] : r \in rows }
Prev(rows, r) == { q \in Of(rows, r.g) : Lin(q.p) < Lin(r.p) }
StockToFlow(rows) ==
    { [g |-> r.g, p |-> r.p,
       v |-> IF Prev(rows, r) = {} THEN r.v
             ELSE LET pr == CHOOSE q \in Prev(rows, r) : \A z \in Prev(rows, r) : Lin(z.p) <= Lin(q.p)
                  IN  SubV(r.v, pr.v)] : r \in rows }

Apply(op, rows, k) ==
    CASE op = "timeshift" -> TimeShift(rows, k)
      [] op = "fill_single" -> FillRows(rows, FALSE)
      [] op = "fill_all" -> FillRows(rows, TRUE)
      [] op = "flow_to_stock" -> FlowToStock(rows)
      [] op = "stock_to_flow" -> StockToFlow(rows)
=============================================================================
