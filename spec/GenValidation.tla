---------------------------- MODULE GenValidation ----------------------------
(***************************************************************************)
(* Generation model for the validation and hierarchy operators (C07).      *)
(*                                                                         *)
(* The inputs hold EVERY combination of item states, one combination per   *)
(* key: each code item of a hierarchical rule is absent, null, 0, 2 or -2  *)
(* (so that sums cancel and every validation mode meets every case it      *)
(* distinguishes); each measure of a datapoint rule is null, 0, 1 or 3.    *)
(* Over them: check_hierarchy (6 modes x 3 outputs x rule shapes),         *)
(* hierarchy (6 modes x 3 input modes x 2 outputs x declared orders of a   *)
(* two-level ruleset), check (with / without error code, level and         *)
(* imbalance operand), check_datapoint (rules with and without a when      *)
(* condition, rulesets of 1, 3 and 5 rules, 3 outputs).                    *)
(* Every term is one transition, emitted with the value EvalV gives it.    *)
(***************************************************************************)
EXTENDS VTLValidation, Json

CONSTANTS Deep          \* FALSE: the quick subset of terms

V(n) == [k |-> "var", name |-> n]
C(v) == [k |-> "const", v |-> v]
BinT(op, l, r) == [k |-> "bin", op |-> op, l |-> l, r |-> r]
Code(c) == S(<<c>>)
A == 65  Bc == 66  Cc == 67  Dc == 68

\* ---- hierarchical inputs: key i (1..125) encodes the states of three items in base 5
States == <<<<15, 0>>, Null, I(0), I(2), I(-2)>>
Digit(i, p) == (((i - 1) \div (IF p = 0 THEN 1 ELSE IF p = 1 THEN 5 ELSE 25)) % 5) + 1
HRow(i, c, v) == [x \in {"Id_1", "Id_2", "Me_1"} |-> CASE x = "Id_1" -> I(i) [] x = "Id_2" -> Code(c) [] OTHER -> v]
HComps == { Comp("Id_1", "I", "Integer"), Comp("Id_2", "I", "String"), Comp("Me_1", "M", "Integer") }
\* H3: items A, B, C in every combination
H3 == [comps |-> HComps,
       rows |-> UNION { { HRow(i, <<A, Bc, Cc>>[p + 1], States[Digit(i, p)]) : p \in { q \in 0..2 : States[Digit(i, q)][1] # 15 } } : i \in 1..125 }]
\* H4: items B (also computed), C, D in every combination; A (computed from B) present with a value for even keys
H4 == [comps |-> HComps,
       rows |-> UNION { { HRow(i, <<Bc, Cc, Dc>>[p + 1], States[Digit(i, p)]) : p \in { q \in 0..2 : States[Digit(i, q)][1] # 15 } }
                        \cup (IF i % 2 = 0 THEN { HRow(i, A, I(7)) } ELSE {}) : i \in 1..125 }]
\* the rule component as the only identifier
H1 == [comps |-> { Comp("Id_2", "I", "String"), Comp("Me_1", "M", "Integer") },
       rows |-> { [x \in {"Id_2", "Me_1"} |-> IF x = "Id_2" THEN Code(c[1]) ELSE c[2]] : c \in { <<Bc, I(2)>>, <<Cc, I(5)>>, <<Dc, Null>> } }]

HR(n, left, op, right, ec, el) == [name |-> S(<<104, 48 + n>>), left |-> Code(left), op |-> op, right |-> right, ec |-> ec, el |-> el]
Plus(c) == <<"+", Code(c)>>
Minus(c) == <<"-", Code(c)>>
Modes == {"non_null", "non_zero", "partial_null", "partial_zero", "always_null", "always_zero"}
CheckRulesets ==
    { <<HR(1, A, "=", <<Plus(Bc), Plus(Cc)>>, S(<<72, 49>>), I(1))>>,
      <<HR(1, A, ">=", <<Plus(Bc), Minus(Cc)>>, Null, I(3))>> }
    \cup (IF Deep THEN { <<HR(1, A, "<", <<Plus(Bc)>>, S(<<72, 49>>), Null)>>,
                         <<HR(1, A, "=", <<Minus(Bc), Plus(Cc)>>, S(<<72, 49>>), I(1)), HR(2, Bc, ">", <<Plus(Cc)>>, S(<<72, 50>>), I(2)),
                           HR(3, Cc, "<=", <<Plus(A), Plus(Bc)>>, Null, Null)>> }
          ELSE {})
HCheck(rs, mode, out) == [k |-> "hier", check |-> TRUE, ds |-> V("H3"), rs |-> "hr_1", comp |-> "Id_2", rules |-> rs, mode |-> mode,
                          input |-> "dataset", out |-> out, order |-> <<>>]
\* two-level hierarchy, declared top-down and bottom-up: the dependency order is the same
Top == HR(1, A, "=", <<Plus(Bc), Minus(Cc)>>, Null, Null)
Low == HR(2, Bc, "=", <<Plus(Cc), Plus(Dc)>>, Null, Null)
Hier(ds, rs, order, mode, input, out) == [k |-> "hier", check |-> FALSE, ds |-> V(ds), rs |-> "hr_1", comp |-> "Id_2", rules |-> rs, mode |-> mode,
                                          input |-> input, out |-> out, order |-> order]
HierTerms ==
    { Hier("H4", d[1], d[2], mode, input, out) :
        d \in { <<<<Top, Low>>, <<2, 1>>>> } \cup (IF Deep THEN { <<<<Low, Top>>, <<1, 2>>>> } ELSE {}),
        mode \in Modes, input \in {"dataset", "rule", "rule_priority"}, out \in {"computed", "all"} }
    \cup { Hier("H1", <<Top, Low>>, <<2, 1>>, mode, "rule", out) : mode \in {"non_null", "always_zero"}, out \in {"computed", "all"} }

\* ---- check
KRow(i, v) == [x \in {"Id_1", "Me_1"} |-> IF x = "Id_1" THEN I(i) ELSE v]
KComps == { Comp("Id_1", "I", "Integer"), Comp("Me_1", "M", "Integer") }
K1 == [comps |-> KComps, rows |-> { KRow(1, Null), KRow(2, I(0)), KRow(3, I(1)), KRow(4, I(2)), KRow(5, I(3)), KRow(6, I(2)) }]
K2 == [comps |-> KComps, rows |-> { KRow(2, I(1)), KRow(3, I(1)), KRow(4, Null), KRow(6, I(5)), KRow(7, I(1)) }]
Check(x, imb, ec, el, out) == [k |-> "check", x |-> x, imb |-> imb, ec |-> ec, el |-> el, out |-> out]
CheckTerms ==
    { Check(BinT(op, V("K1"), C(I(1))), <<>>, ec, el, out) :
        op \in {">", "="}, ec \in {S(<<69, 49>>), Null}, el \in {I(2), Null}, out \in {"invalid", "all"} }
    \cup { Check(BinT(op, V("K1"), V("K2")), imb, S(<<69, 49>>), I(1), out) :
        op \in {">=", "="}, imb \in { <<V("K2")>>, <<BinT("-", V("K1"), V("K2"))>> }, out \in {"invalid", "all"} }
    \cup { Check(BinT(">", V("K1"), C(I(1))), <<V("K2")>>, Null, Null, out) : out \in {"invalid", "all"} }

\* ---- check_datapoint: the sixteen combinations of two measures
MV == <<Null, I(0), I(1), I(3)>>
P2 == [comps |-> { Comp("Id_1", "I", "Integer"), Comp("Me_1", "M", "Integer"), Comp("Me_2", "M", "Integer") },
       rows |-> { [x \in {"Id_1", "Me_1", "Me_2"} |-> CASE x = "Id_1" -> I(i) [] x = "Me_1" -> MV[((i - 1) \div 4) + 1] [] OTHER -> MV[((i - 1) % 4) + 1]] : i \in 1..16 }]
Whens == { <<>>, <<BinT(">", V("Me_1"), C(I(0)))>>, <<BinT("=", V("Me_2"), C(I(3)))>> }
Thens == { BinT(">=", V("Me_1"), V("Me_2")), BinT("<>", V("Me_2"), C(I(1))),
           BinT("and", BinT(">", V("Me_1"), C(I(0))), BinT(">", V("Me_2"), C(I(0)))) }
DR(n, w, t, ec, el) == [name |-> S(<<114, 48 + n>>), when |-> w, then |-> t, ec |-> ec, el |-> el]
Five == <<DR(1, <<>>, BinT(">=", V("Me_1"), V("Me_2")), S(<<69, 49>>), I(1)),
          DR(2, <<BinT(">", V("Me_1"), C(I(0)))>>, BinT("<>", V("Me_2"), C(I(1))), Null, I(2)),
          DR(3, <<BinT("=", V("Me_2"), C(I(3)))>>, BinT("or", BinT("=", V("Me_1"), C(I(3))), BinT("<", V("Me_1"), C(I(1)))), S(<<69, 51>>), Null),
          DR(4, <<>>, BinT("<", V("Me_2"), C(I(3))), Null, Null),
          DR(5, <<BinT("<", V("Me_1"), V("Me_2"))>>, BinT("=", V("Me_2"), C(I(3))), S(<<69, 53>>), I(5))>>
DP(rules, out) == [k |-> "dpcheck", ds |-> V("P2"), rs |-> "dpr_1", vars |-> <<"Me_1", "Me_2">>, rules |-> rules, out |-> out]
DPTerms ==
    { DP(<<DR(1, w, t, S(<<69, 49>>), I(1))>>, out) : w \in Whens, t \in Thens, out \in (IF Deep THEN {"invalid", "all", "all_measures"} ELSE {"all"}) }
    \cup { DP(r, out) : r \in { SubSeq(Five, 1, 3), Five }, out \in {"invalid", "all", "all_measures"} }

Env0 == [n \in {"H3", "H4", "H1", "K1", "K2", "P2"} |->
           CASE n = "H3" -> H3 [] n = "H4" -> H4 [] n = "H1" -> H1 [] n = "K1" -> K1 [] n = "K2" -> K2 [] OTHER -> P2]
Terms == { HCheck(rs, mode, out) : rs \in CheckRulesets, mode \in Modes, out \in {"invalid", "all", "all_measures"} }
         \cup HierTerms \cup CheckTerms \cup DPTerms

\* the datasets a term reads (the emitted environment carries only those)
Reads(t) == CASE t.k = "hier" -> {t.ds.name} [] t.k = "dpcheck" -> {"P2"} [] OTHER -> {"K1", "K2"}

\* the terms are split into parts (one initial state each) only so that TLC's workers share the evaluation
PartOf(t) == IF t.k = "hier" THEN t.mode ELSE t.k
VARIABLES done, outcome, part
Init == done = {} /\ outcome = "running" /\ part \in Modes \cup {"check", "dpcheck"}
Exec(t) ==
    /\ t \notin done
    /\ LET v == EvalV(t, Env0)
       IN  /\ PrintT("@@" \o ToJson([env |-> [n \in Reads(t) |-> Env0[n]], term |-> t, exp |-> v, depth |-> 0]))
           /\ outcome' = IF IsE(v) THEN "VTLError" ELSE "running"
    /\ done' = {t}
    /\ UNCHANGED part
Next == done = {} /\ \E t \in { u \in Terms : PartOf(u) = part } : Exec(t)

(* model-level properties of the four operators *)
\* in invalid mode every reported datapoint carries the rule's false outcome: error code / level only there
ResultOf(t) == EvalV(t, Env0)
InvalidSubsetOfAll ==
    \A t \in done : (t.k \in {"hier", "dpcheck"} /\ t.out = "invalid" /\ (t.k = "hier" => t.check)) =>
        LET inv == ResultOf(t)
            all == ResultOf([t EXCEPT !.out = "all_measures"])
        IN  IsDS(inv) /\ IsDS(all)
            /\ inv.rows = { Rst(r, DOMAIN r \ {"bool_var"}) : r \in { q \in all.rows : q["bool_var"] = F } }
ErrorsOnlyWhereFalse ==
    \A t \in done : (t.k \in {"check", "dpcheck"} \/ (t.k = "hier" /\ t.check)) /\ t.out # "invalid" =>
        \A r \in ResultOf(t).rows : (r["bool_var"] # F) => (IsNull(r["errorcode"]) /\ IsNull(r["errorlevel"]))
ImbalanceIsDifference ==
    \A t \in done : (t.k = "hier" /\ t.check /\ t.out = "all_measures") =>
        \A r \in ResultOf(t).rows : (r["bool_var"] = F /\ t.rules[1].op = "=" /\ Len(t.rules) = 1) => (IsNull(r["imbalance"]) \/ r["imbalance"] # I(0))
=============================================================================
