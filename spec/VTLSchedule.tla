---------------------------- MODULE VTLSchedule ----------------------------
(***************************************************************************)
(* C13, code model: the execute_queries loop driven by the schedule of     *)
(* DAGAnalyzer._ds_usage_analysis (see VTLStore for the abstract store and *)
(* the transcription of the schedule), over EVERY script of a bounded      *)
(* family.  Each load / CREATE TABLE / fetch / DROP is one action; `ok`    *)
(* records that every operation issued was allowed by the abstract store.  *)
(***************************************************************************)
EXTENDS VTLStore

CONSTANTS MaxStmts, NInputs

InName(i) == CASE i = 1 -> "In_1" [] i = 2 -> "In_2" [] i = 3 -> "In_3" [] OTHER -> "In_4"
StName(i) == CASE i = 1 -> "S_1" [] i = 2 -> "S_2" [] i = 3 -> "S_3" [] i = 4 -> "S_4" [] i = 5 -> "S_5" [] OTHER -> "S_6"
NamesBefore(i) == { InName(j) : j \in 1..NInputs } \cup { StName(j) : j \in 1..(i - 1) }
StmtsAt(i) == { [name |-> StName(i), reads |-> r, pers |-> p] : r \in (SUBSET NamesBefore(i)) \ {{}}, p \in BOOLEAN }
RECURSIVE ScriptsOfLen(_)
ScriptsOfLen(n) == IF n = 0 THEN { <<>> }
                   ELSE { Append(s, x) : s \in ScriptsOfLen(n - 1), x \in StmtsAt(n) }
\* the family: every sequence of 1..MaxStmts statements (an operator with a parameter, so that TLC does not enumerate the
\* whole family as a constant when it starts)
AllScripts(m) == UNION { ScriptsOfLen(n) : n \in 1..m }

VARIABLES sc, rop,      \* the script and return_only_persistent (chosen initially)
          k, pc,        \* statement counter and position in the loop body
          st,           \* store state
          todo,         \* names still to process in the current load / cleanup list
          ok            \* every operation issued so far was allowed by the abstract store
vars == <<sc, rop, k, pc, st, todo, ok>>

\* The script is built statement by statement (pc = "build") and then started: the family explored is exactly
\* AllScripts(MaxStmts) x BOOLEAN, but its members are reached by ACTIONS, which TLC's workers expand in parallel (as a set of
\* initial states the 312 480 members of the thorough family were enumerated by one thread for over half an hour).
Init == /\ sc = <<>> /\ rop \in BOOLEAN
        /\ k = 1 /\ pc = "build" /\ st = EmptyStore /\ todo = {} /\ ok = TRUE
Build == /\ pc = "build" /\ Len(sc) < MaxStmts
         /\ \E x \in StmtsAt(Len(sc) + 1) : sc' = Append(sc, x)
         /\ UNCHANGED <<rop, k, pc, st, todo, ok>>
Start == /\ pc = "build" /\ Len(sc) >= 1
         /\ pc' = "load" /\ todo' = Insertion(sc, 1)
         /\ PrintT("@@" \o ToJson([script |-> sc, rop |-> rop, schedule |-> Schedule(sc)]))
         /\ UNCHANGED <<sc, rop, k, st, ok>>

\* load_scheduled_datasets: one dataset per step
Load == /\ pc = "load" /\ todo # {}
        /\ \E d \in todo :
              /\ ok' = (ok /\ CanLoad(sc, st, d))
              /\ st' = DoLoad(st, d)
              /\ todo' = todo \ {d}
        /\ UNCHANGED <<sc, rop, k, pc>>
LoadDone == /\ pc = "load" /\ todo = {} /\ pc' = "exec" /\ UNCHANGED <<sc, rop, k, st, todo, ok>>
\* CREATE TABLE result AS query
Exec == /\ pc = "exec"
        /\ ok' = (ok /\ CanExec(sc, st, sc[k].name))
        /\ st' = DoExec(st, sc[k].name)
        /\ pc' = "cleanup" /\ todo' = Deletion(sc, k)
        /\ UNCHANGED <<sc, rop, k>>
\* cleanup_scheduled_datasets: inputs dropped; selected results fetched then dropped; others dropped
CleanInput == /\ pc = "cleanup" /\ \E d \in todo \cap GlobalInputs(sc) :
                    /\ ok' = (ok /\ CanRelease(sc, st, d, rop))
                    /\ st' = DoRelease(st, d) /\ todo' = todo \ {d}
              /\ UNCHANGED <<sc, rop, k, pc>>
CleanFetch == /\ pc = "cleanup" /\ \E d \in (todo \ GlobalInputs(sc)) \cap Selected(sc, rop) :
                    /\ d \notin st.fetched
                    /\ ok' = (ok /\ CanFetch(sc, st, d, rop))
                    /\ st' = DoFetch(st, d) /\ UNCHANGED todo
              /\ UNCHANGED <<sc, rop, k, pc>>
CleanDrop == /\ pc = "cleanup" /\ \E d \in todo \ GlobalInputs(sc) :
                    /\ (d \in Selected(sc, rop) => d \in st.fetched)
                    /\ ok' = (ok /\ CanRelease(sc, st, d, rop))
                    /\ st' = DoRelease(st, d) /\ todo' = todo \ {d}
             /\ UNCHANGED <<sc, rop, k, pc>>
CleanDone == /\ pc = "cleanup" /\ todo = {}
             /\ IF k < Len(sc) THEN k' = k + 1 /\ pc' = "load" /\ todo' = Insertion(sc, k + 1)
                ELSE k' = k /\ pc' = "final" /\ todo' = Selected(sc, rop) \ st.fetched
             /\ UNCHANGED <<sc, rop, st, ok>>
\* "final results not yet processed": fetched without being dropped (the session ends right after)
FinalFetch == /\ pc = "final" /\ \E r \in todo :
                    /\ ok' = (ok /\ CanFetch(sc, st, r, rop))
                    /\ st' = DoFetch(st, r) /\ todo' = todo \ {r}
              /\ UNCHANGED <<sc, rop, k, pc>>
FinalDone == /\ pc = "final" /\ todo = {} /\ pc' = "done" /\ UNCHANGED <<sc, rop, k, st, todo, ok>>

Next == Build \/ Start \/ Load \/ LoadDone \/ Exec \/ CleanInput \/ CleanFetch \/ CleanDrop \/ CleanDone \/ FinalFetch \/ FinalDone
Spec == Init /\ [][Next]_vars

(* Properties *)
Refines == ok                                                      \* StoreSafety, LoadAtMostOnce, release-after-last-reader
ResultSelection == pc = "done" => Final(sc, st, rop)               \* returned = selected, everything released exactly once
StoreSafety == [][pc = "exec" /\ pc' = "cleanup" => sc[k].reads \subseteq st.store]_vars
NoResurrection == [][st.released \subseteq st'.released /\ st.loaded \subseteq st'.loaded]_vars
=============================================================================
