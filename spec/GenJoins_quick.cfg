CONSTANTS
  Deep = FALSE
INIT Init
NEXT Next
INVARIANT Closure
INVARIANT JoinKeysLaw
CHECK_DEADLOCK FALSE
