------------------------ MODULE VTLTimeSeries_Trace ------------------------
(***************************************************************************)
(* Trace validation of time-series statements (C08): a unit is             *)
(*   [id, op, k, rows: seq of [g, p: <<y, ind, n>>, v: value],             *)
(*    obs: seq of rows | "error"]                                          *)
(* accepted iff obs is exactly the set VTLTimeSeries!Apply gives; otherwise *)
(* the expected rows are printed.  SumV is memoised per subset, so series   *)
(* stay small (<= 10 datapoints per group).                                *)
(***************************************************************************)
EXTENDS VTLTimeSeries, Json, IOUtils, TLCExt

Units == JsonDeserialize(IOEnv.TRACE_FILE)
Rng(s) == { s[i] : i \in DOMAIN s }
RowOf(j) == [g |-> j.g, p |-> <<j.p[1], j.p[2], j.p[3]>>, v |-> <<j.v[1], j.v[2]>>]
Verdict(u) ==
    LET exp == Apply(u.op, { RowOf(u.rows[i]) : i \in DOMAIN u.rows }, u.k)
        obs == { RowOf(u.obs[i]) : i \in DOMAIN u.obs }
    IN  IF exp = obs /\ Len(u.obs) = Cardinality(obs) THEN [id |-> u.id, ok |-> TRUE]
        ELSE [id |-> u.id, ok |-> FALSE, exp |-> exp]

ChunkSize == 20
VARIABLE l
Init == l \in { i \in 1..Len(Units) : i % ChunkSize = 1 \/ ChunkSize = 1 }
Next == /\ l <= Len(Units)
        /\ PrintT("@@" \o ToJson(Verdict(Units[l])))
        /\ l' = IF l % ChunkSize = 0 THEN Len(Units) + 1 + l ELSE l + 1
=============================================================================
