----------------------------- MODULE VTLViral -----------------------------
(***************************************************************************)
(* Viral attribute propagation (C28).                                      *)
(*                                                                         *)
(* rules: viral attribute name -> rule,                                    *)
(*   [kind |-> "agg", fn |-> "min" | "max" | "sum" | "avg"]                *)
(*   [kind |-> "enum", clauses |-> sequence of [vals |-> <<v>> or <<v, w>>, *)
(*                                              res |-> value],            *)
(*    default |-> value (Null when there is no else)]                      *)
(*                                                                         *)
(* The measures and identifiers of a result are those of VTLOperators on   *)
(* the operands without their viral attributes; the viral attributes are   *)
(* then computed from the LINEAGE of each result datapoint - the operand   *)
(* datapoints that agree with it on the identifiers they share:            *)
(*   row-wise  (unary, dataset-scalar, functions): enumerated rule applied *)
(*             to the datapoint's own value (unary clauses, else default); *)
(*             aggregate rule over ALL values of the operand;              *)
(*   combine   (dataset-dataset, joins): the rule folded over the operands *)
(*             in their order (a missing side of an outer join is null);   *)
(*   group     (aggregations): the rule over the values of the group;      *)
(*   copy      (clauses, plain assignment, set operators): unchanged.      *)
(* An enumerated rule over a group is a fold of the pair rule over the     *)
(* values in ascending order (nulls last): a rule need not be associative, *)
(* and the result must not depend on the order of the INPUT datapoints.    *)
(***************************************************************************)
EXTENDS VTLValidation

IsAgg(rule) == rule.kind = "agg"
InPair(v, a, b) == IF IsNull(v) THEN IsNull(a) \/ IsNull(b) ELSE v = a \/ v = b
\* first matching clause: binary clauses (both values among the pair) before unary ones, in declaration order
EnumPair(rule, a, b) ==
    LET bin == SelectSeq(rule.clauses, LAMBDA c : Len(c.vals) = 2)
        un == SelectSeq(rule.clauses, LAMBDA c : Len(c.vals) = 1)
        mb == { i \in DOMAIN bin : InPair(bin[i].vals[1], a, b) /\ InPair(bin[i].vals[2], a, b) }
        mu == { i \in DOMAIN un : InPair(un[i].vals[1], a, b) }
    IN  IF IsUndet(a) \/ IsUndet(b) THEN Undet       \* nothing is determined from an undetermined value
        ELSE IF mb # {} THEN bin[Min(mb)].res ELSE IF mu # {} THEN un[Min(mu)].res ELSE rule.default
EnumSingle(rule, a) ==
    LET un == SelectSeq(rule.clauses, LAMBDA c : Len(c.vals) = 1)
        mu == { i \in DOMAIN un : IF IsNull(un[i].vals[1]) THEN IsNull(a) ELSE un[i].vals[1] = a }
    IN  IF IsUndet(a) THEN Undet ELSE IF mu # {} THEN un[Min(mu)].res ELSE rule.default
\* two values: min / max skip a null, sum / avg do not
AggPair(fn, a, b) ==
    CASE fn = "min" -> IF IsNull(a) THEN b ELSE IF IsNull(b) THEN a ELSE IF Cmp(a, b) = 1 THEN b ELSE a
      [] fn = "max" -> IF IsNull(a) THEN b ELSE IF IsNull(b) THEN a ELSE IF Cmp(a, b) = -1 THEN b ELSE a
      [] fn = "sum" -> AddV(a, b)
      [] OTHER -> IF IsNull(a) \/ IsNull(b) THEN Null ELSE DivV(AddV(a, b), I(2))
PairV(rule, a, b) == IF IsAgg(rule) THEN AggPair(rule.fn, a, b) ELSE EnumPair(rule, a, b)
\* a set of datapoints (values form a bag): aggregate functions skip nulls
AggGroup(fn, rows, v, type) == AggValue(fn, rows, v, type)
\* an enumerated rule over a group: the pair rule folded over the values in ascending order, nulls last (a rule need not be
\* associative, so the order is part of the model; it must not be the order of the input datapoints)
Least(rows, v) == LET nn == { q \in rows : ~IsNull(q[v]) }
                  IN  IF nn = {} THEN CHOOSE q \in rows : TRUE ELSE CHOOSE q \in nn : \A p \in nn : Cmp(q[v], p[v]) \in {-1, 0}
RECURSIVE FoldSorted(_, _, _, _)
FoldSorted(rule, v, rest, acc) ==
    IF rest = {} THEN acc
    ELSE LET q == Least(rest, v) IN FoldSorted(rule, v, rest \ {q}, EnumPair(rule, acc, q[v]))
GroupV(rule, rows, v, type) ==
    IF IsAgg(rule) THEN AggGroup(rule.fn, rows, v, type)
    ELSE LET q == Least(rows, v) IN FoldSorted(rule, v, rows \ {q}, q[v])

StripV(ds) == [comps |-> { c \in ds.comps : c.r # "V" }, rows |-> { Rst(r, AllNames(ds) \ ViralOf(ds)) : r \in ds.rows }]
\* the datapoints of operand x a result datapoint r (identifiers ids) descends from
Lineage(x, r, ids) == LET k == ids \cap IdsOf(x) IN { q \in x.rows : Rst(q, k) = Rst(r, k) }
ViralComps(xs) == UNION { { c \in xs[i].comps : c.r = "V" } : i \in DOMAIN xs }
\* attach: core = result without viral attributes, xs = operands (sequence, with viral attributes), how = kind of lineage use
Attach(core, xs, how, rules) ==
    LET ids == IdsOf(core)
        vcs == ViralComps(xs)
        having(v) == SelectSeq([i \in DOMAIN xs |-> i], LAMBDA i : v \in ViralOf(xs[i]))
        tOf(v) == (CHOOSE c \in vcs : c.n = v).t
        one(qs, v) == IF qs = {} THEN Null ELSE (CHOOSE q \in qs : TRUE)[v]
        RECURSIVE Fold(_, _, _, _)
        Fold(v, r, idx, acc) == IF idx = <<>> THEN acc
                                ELSE Fold(v, r, Tail(idx), PairV(rules[v], acc, one(Lineage(xs[Head(idx)], r, ids), v)))
        val(v, r) ==
            LET hv == having(v) IN
            CASE how = "rowwise" -> IF IsAgg(rules[v]) THEN AggGroup(rules[v].fn, xs[hv[1]].rows, v, tOf(v))
                                    ELSE EnumSingle(rules[v], one(Lineage(xs[hv[1]], r, ids), v))
              [] how = "combine" -> Fold(v, r, Tail(hv), one(Lineage(xs[hv[1]], r, ids), v))
              [] how = "group" -> GroupV(rules[v], Lineage(xs[hv[1]], r, ids), v, tOf(v))
              [] OTHER -> LET src == SelectSeq(hv, LAMBDA i : Lineage(xs[i], r, ids) # {})     \* copy from the operand that supplies the datapoint
                          IN  one(Lineage(xs[src[1]], r, ids), v)
    IN  IF IsE(core) \/ ~IsDS(core) THEN core
        ELSE [comps |-> core.comps \cup vcs,
              rows |-> { [x \in AllNames(core) \cup { c.n : c \in vcs } |-> IF x \in AllNames(core) THEN r[x] ELSE val(x, r)] : r \in core.rows }]

V_(n) == [k |-> "var", name |-> n]
Bind(env, names, vals) == [n \in DOMAIN env \cup Rng(names) |-> IF n \in Rng(names) THEN vals[CHOOSE i \in DOMAIN names : names[i] = n] ELSE env[n]]
Tmp(i) == CASE i = 1 -> "_o1" [] i = 2 -> "_o2" [] i = 3 -> "_o3" [] OTHER -> "_o4"
MissingRule(x, rules) == IsDS(x) /\ \E v \in ViralOf(x) : v \notin DOMAIN rules

RECURSIVE EvalVP(_, _, _)
\* core of an operator over already evaluated operands: the operator of VTLOperators on the operands stripped of viral attributes
Core(t, xs, env) ==
    EvalD(t, Bind(env, [i \in DOMAIN xs |-> Tmp(i)], [i \in DOMAIN xs |-> IF IsDS(xs[i]) THEN StripV(xs[i]) ELSE xs[i]]))
EvalVP(t, env, rules) ==
    CASE t.k = "var" -> IF MissingRule(env[t.name], rules) THEN E("semantic") ELSE env[t.name]
      [] t.k \in {"un", "in"} ->
            LET x == EvalVP(t.x, env, rules)
            IN  IF IsE(x) \/ ~IsDS(x) THEN EvalD(t, env) ELSE Attach(Core([t EXCEPT !.x = V_(Tmp(1))], <<x>>, env), <<x>>, "rowwise", rules)
      [] t.k = "fn" ->
            LET x == EvalVP(t.args[1], env, rules)
            IN  IF IsE(x) \/ ~IsDS(x) THEN EvalD(t, env)
                ELSE Attach(Core([t EXCEPT !.args = [i \in DOMAIN t.args |-> IF i = 1 THEN V_(Tmp(1)) ELSE t.args[i]]], <<x>>, env), <<x>>, "rowwise", rules)
      [] t.k = "bin" ->
            LET l == EvalVP(t.l, env, rules) r == EvalVP(t.r, env, rules)
                core == Core([t EXCEPT !.l = V_(Tmp(1)), !.r = V_(Tmp(2))], <<l, r>>, env)
            IN  IF IsE(l) THEN l ELSE IF IsE(r) THEN r
                ELSE IF IsDS(l) /\ IsDS(r) THEN Attach(core, <<l, r>>, "combine", rules)
                ELSE IF IsDS(l) THEN Attach(core, <<l>>, "rowwise", rules)
                ELSE IF IsDS(r) THEN Attach(core, <<r>>, "rowwise", rules)
                ELSE core
      [] t.k = "agg" ->
            LET x == EvalVP(t.x, env, rules)
            IN  IF IsE(x) THEN x ELSE Attach(Core([t EXCEPT !.x = V_(Tmp(1))], <<x>>, env), <<x>>, "group", rules)
      [] t.k = "clause" ->
            LET x == EvalVP(t.ds, env, rules)
            IN  IF IsE(x) THEN x
                ELSE IF t.op = "aggr" THEN Attach(Core([t EXCEPT !.ds = V_(Tmp(1))], <<x>>, env), <<x>>, "group", rules)
                \* the other clauses leave every datapoint's viral attributes as they are (a component like any other, kept by keep)
                ELSE EvalD([t EXCEPT !.ds = V_(Tmp(1))], Bind(env, <<Tmp(1)>>, <<x>>))
      [] t.k = "set" ->
            LET xs == [i \in DOMAIN t.ops |-> EvalVP(t.ops[i], env, rules)]
            IN  IF \E i \in DOMAIN xs : IsE(xs[i]) THEN xs[CHOOSE i \in DOMAIN xs : IsE(xs[i])]
                ELSE Attach(Core([t EXCEPT !.ops = [i \in DOMAIN t.ops |-> V_(Tmp(i))]], xs, env), xs, "copy", rules)
      [] t.k = "join" ->
            LET xs == [i \in DOMAIN t.ops |-> EvalVP(t.ops[i].t, env, rules)]
            IN  IF \E i \in DOMAIN xs : IsE(xs[i]) THEN xs[CHOOSE i \in DOMAIN xs : IsE(xs[i])]
                ELSE Attach(Core([t EXCEPT !.ops = [i \in DOMAIN t.ops |-> [t |-> V_(Tmp(i)), a |-> t.ops[i].a]]], xs, env), xs, "combine", rules)
      [] t.k = "an" ->
            \* dataset-level analytic invocation: every datapoint of a partition gets the rule over the values of the whole partition
            \* (not of its frame); inside calc an analytic expression is a clause like any other (viral attributes unchanged)
            LET x == EvalVP(t.x, env, rules)
                core == Core([t EXCEPT !.x = V_(Tmp(1))], <<x>>, env)
                part == Rng(t.part)
                vcs == { c \in x.comps : c.r = "V" }
                src(r) == CHOOSE q \in x.rows : Rst(q, IdsOf(x)) = Rst(r, IdsOf(x))
                grp(r) == { q \in x.rows : Rst(q, part) = Rst(src(r), part) }
            IN  IF IsE(x) THEN x ELSE IF IsE(core) \/ ~IsDS(core) THEN core
                ELSE [comps |-> core.comps \cup vcs,
                      rows |-> { [n \in AllNames(core) \cup { c.n : c \in vcs } |->
                                    IF n \in AllNames(core) THEN r[n] ELSE GroupV(rules[n], grp(r), n, (CHOOSE c \in vcs : c.n = n).t)] : r \in core.rows }]
      [] t.k = "check" ->
            \* check(x ...): the viral attributes of the validated operand x (a comparison: they went through the rule there) are
            \* copied to the reported datapoints; those of the imbalance operand play no part
            LET x == EvalVP(t.x, env, rules)
                envS == [n \in DOMAIN env |-> IF IsDS(env[n]) THEN StripV(env[n]) ELSE env[n]]
                core == EvalV([t EXCEPT !.x = V_(Tmp(1))], Bind(envS, <<Tmp(1)>>, <<IF IsDS(x) THEN StripV(x) ELSE x>>))
            IN  IF IsE(x) THEN x ELSE Attach(core, <<x>>, "copy", rules)
      [] t.k = "dpcheck" \/ (t.k = "hier" /\ t.check) ->
            \* check_datapoint / check_hierarchy: every reported datapoint carries the viral attributes of the operand datapoint it
            \* reports on (for check_hierarchy the left code item's), through the rule applied ROW-WISE over the RESULT: an
            \* enumerated rule per datapoint, an aggregate rule over all reported datapoints (one per rule and datapoint)
            LET x == EvalVP(t.ds, env, rules)
                core == EvalV([t EXCEPT !.ds = V_(Tmp(1))], Bind(env, <<Tmp(1)>>, <<StripV(x)>>))
                vcs == { c \in x.comps : c.r = "V" }
                vn == { c.n : c \in vcs }
                srcV(r, n) == LET hit == { q \in x.rows : Rst(q, IdsOf(x)) = Rst(r, IdsOf(x)) }
                              IN  IF hit = {} THEN Null ELSE (CHOOSE q \in hit : TRUE)[n]
                bag(n) == { [row |-> r, v |-> srcV(r, n)] : r \in core.rows }
                val(r, n) == IF IsAgg(rules[n]) THEN AggGroup(rules[n].fn, bag(n), "v", (CHOOSE c \in vcs : c.n = n).t)
                             ELSE EnumSingle(rules[n], srcV(r, n))
            IN  IF IsE(x) THEN x ELSE IF IsE(core) \/ ~IsDS(core) THEN core
                ELSE [comps |-> core.comps \cup vcs,
                      rows |-> { [n \in AllNames(core) \cup vn |-> IF n \in AllNames(core) THEN r[n] ELSE val(r, n)] : r \in core.rows }]
      [] t.k = "hier" /\ ~t.check ->
            \* hierarchy: a computed item gets the rule over the viral values of its children - the datapoints of the operand for a leaf
            \* item, the values already computed for an item that is itself computed - per key of the other identifiers; datapoints
            \* that are not computed keep their own
            LET x == EvalVP(t.ds, env, rules)
                core == Hierarchy(StripV(x), t.comp, t.rules, t.mode, t.input, t.out, t.order)
                vcs == { c \in x.comps : c.r = "V" }
                vn == { c.n : c \in vcs }
                oids == IdsOf(x) \ {t.comp}
                RECURSIVE VSteps(_, _, _)
                VSteps(order, acc, seen) ==
                    IF order = <<>> THEN acc
                    ELSE LET j == Head(order)
                             kids == { t.rules[j].right[i][2] : i \in DOMAIN t.rules[j].right }
                             rowsOf(c) == IF c \in seen THEN { r \in acc : r[t.comp] = c } ELSE { Rst(r, oids \cup {t.comp} \cup vn) : r \in { q \in x.rows : q[t.comp] = c } }
                             pool == UNION { rowsOf(c) : c \in kids }
                             new == { [n \in oids \cup {t.comp} \cup vn |->
                                         IF n \in oids THEN k[n] ELSE IF n = t.comp THEN t.rules[j].left
                                         ELSE GroupV(rules[n], { r \in pool : Rst(r, oids) = k }, n, (CHOOSE c \in vcs : c.n = n).t)]
                                      : k \in { Rst(r, oids) : r \in pool } }
                         IN  VSteps(Tail(order), { r \in acc : r[t.comp] # t.rules[j].left } \cup new, seen \cup {t.rules[j].left})
                nodes == VSteps(t.order, {}, {})
                computedItems == { t.rules[j].left : j \in DOMAIN t.rules }
                \* a result datapoint of a computed item is a computed one unless it was taken over unchanged from the operand
                computedRows == Hierarchy(StripV(x), t.comp, t.rules, t.mode, t.input, "computed", t.order).rows
                IsComputedRow(r) == r \in computedRows
                vOf(r, n) == IF r[t.comp] \in computedItems /\ IsComputedRow(r)
                             THEN LET hit == { q \in nodes : q[t.comp] = r[t.comp] /\ Rst(q, oids) = Rst(r, oids) } IN IF hit = {} THEN Null ELSE (CHOOSE q \in hit : TRUE)[n]
                             ELSE LET hit == { q \in x.rows : Rst(q, IdsOf(x)) = Rst(r, IdsOf(x)) } IN IF hit = {} THEN Null ELSE (CHOOSE q \in hit : TRUE)[n]
            IN  IF IsE(x) THEN x ELSE IF IsE(core) THEN core
                ELSE [comps |-> core.comps \cup vcs,
                      rows |-> { [n \in AllNames(core) \cup vn |-> IF n \in AllNames(core) THEN r[n] ELSE vOf(r, n)] : r \in core.rows }]
      [] OTHER -> EvalD(t, env)
=============================================================================
