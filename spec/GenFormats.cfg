INIT Init
NEXT Next
INVARIANT AllYearsOk
CHECK_DEADLOCK FALSE
