-------------------------- MODULE VTLViral_Trace --------------------------
(***************************************************************************)
(* Trace validation of statements over datasets with viral attributes      *)
(* (C28): same unit format and verdict protocol as VTLOperators_Trace,     *)
(* each unit carrying its propagation rules; evaluated with EvalVP.        *)
(***************************************************************************)
EXTENDS VTLViral, Json, IOUtils, TLCExt

Units == JsonDeserialize(IOEnv.TRACE_FILE)
ChunkSize == 25
VARIABLE l
ObsOf(o) == IF "comps" \in DOMAIN o THEN DS(o) ELSE o
\* a datapoint matches when it agrees everywhere except where the spec leaves the value undetermined
RowMatches(e, o) == DOMAIN e = DOMAIN o /\ \A x \in DOMAIN e : IsUndet(e[x]) \/ e[x] = o[x]
RowsMatch(exp, obs) == /\ Cardinality(exp) = Cardinality(obs)
                       /\ \A e \in exp : \E o \in obs : RowMatches(e, o)
                       /\ \A o \in obs : \E e \in exp : RowMatches(e, o)
Exact(exp, obs, cc) ==
    IF IsE(exp) THEN IsE(obs)
    ELSE IF IsE(obs) THEN FALSE
    ELSE IF IsDS(exp) THEN IsDS(obs) /\ RowsMatch(exp.rows, obs.rows) /\ (cc => exp.comps = obs.comps)
    ELSE IsSc(obs) /\ exp.v = obs.v /\ (cc => exp.t = obs.t)
Verdict(u) ==
    LET exp == EvalVP(u.term, EnvOf(u.env), u.rules)
        obs == ObsOf(u.obs)
    IN  IF Exact(exp, obs, u.cc) THEN [id |-> u.id, ok |-> TRUE]
        ELSE [id |-> u.id, ok |-> FALSE, exp |-> exp]
Init == l \in { i \in 1..Len(Units) : i % ChunkSize = 1 \/ ChunkSize = 1 }
Next == /\ l <= Len(Units)
        /\ PrintT("@@" \o ToJson(Verdict(Units[l])))
        /\ l' = IF l % ChunkSize = 0 THEN Len(Units) + 1 + l ELSE l + 1
=============================================================================
