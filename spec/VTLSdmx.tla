------------------------------ MODULE VTLSdmx ------------------------------
(***************************************************************************)
(* The DOCUMENTED mapping of SDMX structures to VTL structures             *)
(* (docs/data_structures.rst, "Under the hood"): one VTL component per     *)
(* SDMX component; role by the role table; type by the type table;         *)
(* dimensions are the only non-nullable components; a structure holding a  *)
(* data type outside the table cannot be mapped (input-validation error).  *)
(***************************************************************************)
EXTENDS Integers, Sequences, FiniteSets, TLC

DocType(d) ==
    CASE d \in {"String", "Alpha", "AlphaNumeric", "Numeric", "URI", "Month", "MonthDay", "Day", "Time"} -> "String"
      [] d \in {"BigInteger", "Integer", "Long", "Short", "Count"} -> "Integer"
      [] d \in {"Decimal", "Float", "Double", "InclusiveValueRange", "ExclusiveValueRange", "Incremental"} -> "Number"
      [] d = "Boolean" -> "Boolean"
      [] d \in {"BasicTimePeriod", "GregorianTimePeriod", "GregorianYear", "GregorianYearMonth", "GregorianMonth", "GregorianDay", "DateTime"} -> "Date"
      [] d \in {"ObservationalTimePeriod", "StandardTimePeriod", "ReportingTimePeriod", "ReportingYear", "ReportingSemester",
                "ReportingTrimester", "ReportingQuarter", "ReportingMonth", "ReportingWeek", "ReportingDay"} -> "Time_Period"
      [] d = "TimeRange" -> "Time"
      [] d = "Duration" -> "Duration"
      [] OTHER -> "unmapped"
DocRole(r) == CASE r = "DIMENSION" -> "Identifier" [] r = "MEASURE" -> "Measure" [] r = "ATTRIBUTE" -> "Attribute" [] OTHER -> "unmapped"
DocNullable(r) == r # "DIMENSION"

\* comps: sequence of [id, role, dtype]
Mappable(comps) == \A i \in DOMAIN comps : DocType(comps[i].dtype) # "unmapped" /\ DocRole(comps[i].role) # "unmapped"
\* the engine lists dimensions first, then measures, then attributes (each in declaration order)
Ordered(comps) == SelectSeq(comps, LAMBDA c : c.role = "DIMENSION") \o SelectSeq(comps, LAMBDA c : c.role = "MEASURE")
                  \o SelectSeq(comps, LAMBDA c : c.role = "ATTRIBUTE")
MapComp(c) == [name |-> c.id, role |-> DocRole(c.role), type |-> DocType(c.dtype), nullable |-> DocNullable(c.role)]
MapStructure(name, comps) ==
    IF ~Mappable(comps) THEN [err |-> "input-validation"]
    ELSE [name |-> name, comps |-> { MapComp(comps[i]) : i \in DOMAIN comps }, n |-> Len(comps)]

OnlyDimensionsNonNullable(comps) == Mappable(comps) =>
    \A c \in MapStructure("x", comps).comps : (~c.nullable) <=> c.role = "Identifier"
=============================================================================
