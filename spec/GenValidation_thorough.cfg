CONSTANT Deep = TRUE
INIT Init
NEXT Next
INVARIANT InvalidSubsetOfAll
INVARIANT ErrorsOnlyWhereFalse
INVARIANT ImbalanceIsDifference
CHECK_DEADLOCK FALSE
