------------------------------ MODULE VTLApi ------------------------------
(***************************************************************************)
(* One public API call (run, run_sdmx, semantic_analysis, validate_dataset,*)
(* prettify, generate_sdmx) as a state machine over what a CALLER can      *)
(* observe: the arguments it passed, the outcome, the returned results and *)
(* the files in the output folder.  The steps are the stages API.run()     *)
(* really goes through, in its order:                                      *)
(*   Call -> Parse -> Analyse -> (Open -> Exec* -> (Fetch|Write)* -> Close)*)
(*        -> Return | Raise                                                *)
(* Any stage may fail (environment action Fail).  The obligations:         *)
(*   C22 ArgsUnchanged   : no step changes the caller's arguments          *)
(*   C32 OutcomeAlphabet : a call ends "ok" or with a VTL error            *)
(*   C26 Catalogued      : a coded VTL error has a catalogued code and     *)
(*                         every placeholder of its message filled         *)
(*   C14 FilesFaithful   : with an output folder, file set = returned      *)
(*                         dataset names (+ scalar file), file content =   *)
(*                         in-memory content, returned datasets carry none *)
(* The model is instantiated with tiny constants for TLC (B3) and reused   *)
(* by VTLApi_Trace, which replays recorded calls against the same          *)
(* obligations (B2).                                                       *)
(***************************************************************************)
EXTENDS Integers, Sequences, FiniteSets, TLC

CONSTANTS ArgNames,      \* names of the (mutable) arguments of the call
          ArgVals,       \* abstract argument contents (digests)
          Results,       \* names the script assigns
          Persistent,    \* subset of Results assigned with <-
          Scalars,       \* subset of Results that are scalars
          Codes,         \* catalogue: set of error codes
          Contents       \* abstract contents of a result (digests)

VARIABLES stage,         \* "idle" "called" "parsed" "analysed" "open" "closed" "returned" "raised"
          given,         \* arguments as the caller passed them
          args,          \* arguments as they are now
          toFolder, onlyPers,
          value,         \* name -> content computed so far (DOMAIN = executed statements)
          returned,      \* name -> [data: content or "none"]
          files,         \* file name -> content
          outcome        \* [cls: "none" | "ok" | "VTL", code]
vars == <<stage, given, args, toFolder, onlyPers, value, returned, files, outcome>>

Selected == IF onlyPers THEN Persistent ELSE Results
FileOf(n) == n
ScalarFile == "_scalars"

Init == /\ stage = "idle" /\ given \in [ArgNames -> ArgVals] /\ args = given
        /\ toFolder \in BOOLEAN /\ onlyPers \in BOOLEAN
        /\ value = <<>> /\ returned = <<>> /\ files = <<>> /\ outcome = [cls |-> "none", code |-> ""]

Step(from, to) == stage = from /\ stage' = to /\ UNCHANGED <<given, args, toFolder, onlyPers, value, returned, files, outcome>>
Call == Step("idle", "called")
Parse == Step("called", "parsed")
Analyse == Step("parsed", "analysed")
Open == Step("analysed", "open")

Ext(f, k, v) == [x \in DOMAIN f \cup {k} |-> IF x = k THEN v ELSE f[x]]

Exec(n, c) == /\ stage = "open" /\ n \in Results \ DOMAIN value
              /\ value' = Ext(value, n, c)
              /\ UNCHANGED <<stage, given, args, toFolder, onlyPers, returned, files, outcome>>

\* a selected result is delivered: in memory, or to a file (datasets) / the scalar file (scalars)
Deliver(n) == /\ stage = "open" /\ n \in DOMAIN value /\ n \in Selected /\ n \notin DOMAIN returned
              /\ IF toFolder /\ n \notin Scalars
                 THEN /\ files' = Ext(files, FileOf(n), value[n])
                      /\ returned' = Ext(returned, n, [data |-> "none"])
                 ELSE /\ returned' = Ext(returned, n, [data |-> value[n]])
                      /\ UNCHANGED files
              /\ UNCHANGED <<stage, given, args, toFolder, onlyPers, value, outcome>>

\* the scalar file holds exactly the returned scalar values (written once, after the last delivery)
Close == /\ stage = "open" /\ DOMAIN value = Results /\ DOMAIN returned = Selected
         /\ files' = IF toFolder /\ (Selected \cap Scalars) # {}
                     THEN Ext(files, ScalarFile, [n \in Selected \cap Scalars |-> value[n]]) ELSE files
         /\ stage' = "closed"
         /\ UNCHANGED <<given, args, toFolder, onlyPers, value, returned, outcome>>

Return == /\ stage = "closed" /\ stage' = "returned" /\ outcome' = [cls |-> "ok", code |-> ""]
          /\ UNCHANGED <<given, args, toFolder, onlyPers, value, returned, files>>

\* environment: any stage may fail; what escapes is a VTL error with a catalogued code
Fail(code) == /\ stage \in {"called", "parsed", "analysed", "open", "closed"}
              /\ stage' = "raised" /\ outcome' = [cls |-> "VTL", code |-> code]
              /\ UNCHANGED <<given, args, toFolder, onlyPers, value, returned, files>>

Next == Call \/ Parse \/ Analyse \/ Open \/ Close \/ Return
        \/ (\E n \in Results, c \in Contents : Exec(n, c))
        \/ (\E n \in Results : Deliver(n))
        \/ (\E code \in Codes : Fail(code))
Spec == Init /\ [][Next]_vars

-----------------------------------------------------------------------------
ArgsUnchanged == args = given                                             \* C22
OutcomeAlphabet == stage \in {"returned", "raised"} =>                       \* C32, C26
                     (outcome.cls = "ok" \/ (outcome.cls = "VTL" /\ outcome.code \in Codes))
FilesFaithful == stage = "returned" =>                                     \* C14
    /\ DOMAIN returned = Selected
    /\ IF toFolder
       THEN /\ DOMAIN files = { FileOf(n) : n \in Selected \ Scalars }
                              \cup (IF Selected \cap Scalars # {} THEN {ScalarFile} ELSE {})
            /\ \A n \in Selected \ Scalars : files[FileOf(n)] = value[n] /\ returned[n].data = "none"
            /\ (Selected \cap Scalars # {}) => files[ScalarFile] = [n \in Selected \cap Scalars |-> value[n]]
            /\ \A n \in Selected \cap Scalars : returned[n].data = value[n]
       ELSE files = <<>> /\ \A n \in Selected : returned[n].data = value[n]
=============================================================================
