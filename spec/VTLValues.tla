---------------------------- MODULE VTLValues ----------------------------
(***************************************************************************)
(* Scalar values of VTL and the scalar-level meaning of its operators.     *)
(*                                                                         *)
(* Every value is a tagged pair <<tag, payload>> (tag first, so equality   *)
(* never compares payloads of different kinds):                            *)
(*   <<0,0>> null            <<1,n>> Integer       <<2,<<num,den>>>> Number*)
(*   <<3,b>> Boolean         <<4,cps>> String (sequence of code points)    *)
(*   <<5,<<d,s>>>> Date (day ordinal, second of day)  <<6,<<y,i,n>>>> period *)
(*   <<7,<<d1,d2>>>> Time    <<8,k>> Duration (1..6: D W M Q S A)          *)
(*   <<9,code>> error marker (an operation VTL defines as an error)        *)
(*   <<11,0>>  "some non-null Number" (uninterpreted transcendental result)*)
(*   <<12,q>>  "the square root of q"      <<14,0>> undetermined by VTL     *)
(* Numbers are normalised rationals (den > 0, gcd = 1).  TLC integers are  *)
(* 32 bit: generators keep magnitudes small, overflow aborts TLC (never a  *)
(* silent wrong verdict).                                                  *)
(***************************************************************************)
EXTENDS Integers, Sequences, FiniteSets, TLC

Null == <<0, 0>>
IsNull(v) == v[1] = 0
I(n) == <<1, n>>
B(b) == <<3, b>>
S(s) == <<4, s>>
Err(code) == <<9, code>>
IsErr(v) == v[1] = 9
AnyNum == <<11, 0>>
IsAny(v) == v[1] = 11
\* <<14,0>>: VTL (as read in READINGS.md) does not determine the value; matches any observation
Undet == <<14, 0>>
IsUndet(v) == v[1] = 14

Abs(n) == IF n < 0 THEN -n ELSE n
Sgn(n) == IF n < 0 THEN -1 ELSE IF n = 0 THEN 0 ELSE 1
RECURSIVE Gcd(_, _)
Gcd(a, b) == IF b = 0 THEN a ELSE Gcd(b, a % b)
Norm(n, d) == IF n = 0 THEN <<0, 1>>
              ELSE LET s == IF d < 0 THEN -1 ELSE 1
                       g == Gcd(Abs(n), Abs(d))
                   IN  <<(s * n) \div g, (s * d) \div g>>
R(n, d) == <<2, Norm(n, d)>>

IsInt(v) == v[1] = 1
IsNumTag(v) == v[1] = 1 \/ v[1] = 2
\* numerator / denominator of an Integer or Number value
Nu(v) == IF v[1] = 1 THEN v[2] ELSE v[2][1]
De(v) == IF v[1] = 1 THEN 1 ELSE v[2][2]

RECURSIVE Pow10(_)
Pow10(k) == IF k <= 0 THEN 1 ELSE 10 * Pow10(k - 1)

\* floor of a rational n/d (d > 0)
FloorQ(n, d) == n \div d
CeilQ(n, d) == -((-n) \div d)
TruncQ(n, d) == IF n >= 0 THEN n \div d ELSE -((-n) \div d)
\* round half away from zero
RoundQ(n, d) == IF n >= 0 THEN (2 * n + d) \div (2 * d) ELSE -((2 * (-n) + d) \div (2 * d))

\* cross-multiplied comparison of two numeric values (gcd of denominators removed first)
CmpNum(a, b) == LET g == Gcd(De(a), De(b))
                    l == Nu(a) * (De(b) \div g)
                    r == Nu(b) * (De(a) \div g)
                IN  IF l < r THEN -1 ELSE IF l = r THEN 0 ELSE 1

AddQ(a, b) == LET g == Gcd(De(a), De(b))
              IN  Norm(Nu(a) * (De(b) \div g) + Nu(b) * (De(a) \div g), (De(a) \div g) * De(b))
NegV(a) == IF a[1] = 1 THEN I(-a[2]) ELSE <<2, <<-a[2][1], a[2][2]>>>>
MulQ(a, b) == LET g1 == Gcd(Abs(Nu(a)), De(b))
                  g2 == Gcd(Abs(Nu(b)), De(a))
              IN  Norm((Nu(a) \div g1) * (Nu(b) \div g2), (De(a) \div g2) * (De(b) \div g1))

-----------------------------------------------------------------------------
(* Generic null / error / wildcard propagation for strict operators *)
Strict1(a, f(_)) == IF IsErr(a) THEN a ELSE IF IsUndet(a) THEN Undet ELSE IF IsNull(a) THEN Null ELSE f(a)
Strict2(a, b, f(_, _)) == IF IsErr(a) THEN a ELSE IF IsErr(b) THEN b
                          ELSE IF IsUndet(a) \/ IsUndet(b) THEN Undet
                          ELSE IF IsNull(a) \/ IsNull(b) THEN Null ELSE f(a, b)

-----------------------------------------------------------------------------
(* Arithmetic *)
AddV(a, b) == Strict2(a, b, LAMBDA x, y :
                 IF IsAny(x) \/ IsAny(y) THEN AnyNum
                 ELSE IF IsInt(x) /\ IsInt(y) THEN I(x[2] + y[2]) ELSE <<2, AddQ(x, y)>>)
SubV(a, b) == Strict2(a, b, LAMBDA x, y :
                 IF IsAny(x) \/ IsAny(y) THEN AnyNum
                 ELSE IF IsInt(x) /\ IsInt(y) THEN I(x[2] - y[2]) ELSE <<2, AddQ(x, NegV(y))>>)
MulV(a, b) == Strict2(a, b, LAMBDA x, y :
                 IF IsAny(x) \/ IsAny(y) THEN AnyNum
                 ELSE IF IsInt(x) /\ IsInt(y) THEN I(x[2] * y[2]) ELSE <<2, MulQ(x, y)>>)
\* division always yields a Number; a zero divisor is a VTL runtime error
DivV(a, b) == IF (~IsErr(a)) /\ IsNumTag(b) /\ Nu(b) = 0 THEN Err("div0")      \* READINGS.md: null / 0 is an error too
              ELSE Strict2(a, b, LAMBDA x, y :
                 IF IsAny(x) \/ IsAny(y) THEN AnyNum
                 ELSE <<2, MulQ(x, <<2, IF Nu(y) < 0 THEN <<-De(y), -Nu(y)>> ELSE <<De(y), Nu(y)>>>>)>>)
UPlusV(a) == a
UMinusV(a) == Strict1(a, LAMBDA x : IF IsAny(x) THEN AnyNum ELSE NegV(x))
AbsV(a) == Strict1(a, LAMBDA x : IF IsAny(x) THEN AnyNum ELSE IF Nu(x) < 0 THEN NegV(x) ELSE x)
CeilV(a) == Strict1(a, LAMBDA x : I(CeilQ(Nu(x), De(x))))
FloorV(a) == Strict1(a, LAMBDA x : I(FloorQ(Nu(x), De(x))))
\* round / trunc with an optional number of decimals (Null = absent => Integer result)
RoundTo(x, k, f(_, _)) ==
    IF k >= 0 THEN R(f(Nu(x) * Pow10(k), De(x)), Pow10(k))
    ELSE R(f(Nu(x), De(x) * Pow10(-k)) * Pow10(-k), 1)
\* A Number that is not a dyadic rational (1.1, 0.3) has no exact binary representation: when it lies EXACTLY on a rounding
\* boundary of the requested precision (trunc(1.1, 1), round(0.125 ... is dyadic and fine)) the result depends on which side the
\* stored approximation falls - not determined here (READINGS.md 26)
RECURSIVE IsPow2(_)
IsPow2(n) == n = 1 \/ (n % 2 = 0 /\ IsPow2(n \div 2))
OnBoundary(x, k, half) ==
    LET kk == IF k >= 0 THEN k ELSE 0
        num == Nu(x) * Pow10(kk) * (IF half THEN 2 ELSE 1)
    IN  x[1] = 2 /\ ~IsPow2(De(x)) /\ k >= 0 /\ num % De(x) = 0 /\ (half => (num \div De(x)) % 2 # 0)
RoundV(a, k) == IF IsErr(a) THEN a ELSE IF IsNull(a) THEN Null
                ELSE IF IsNull(k) THEN I(RoundQ(Nu(a), De(a)))
                ELSE IF OnBoundary(a, k[2], TRUE) THEN Undet ELSE RoundTo(a, k[2], RoundQ)
TruncV(a, k) == IF IsErr(a) THEN a ELSE IF IsNull(a) THEN Null
                ELSE IF IsNull(k) THEN I(TruncQ(Nu(a), De(a)))
                ELSE IF OnBoundary(a, k[2], FALSE) THEN Undet ELSE RoundTo(a, k[2], TruncQ)
\* mod: generators keep both operands' signs equal-or-zero cases documented in READINGS.md;
\* truncated remainder (sign of the dividend), mod(x, 0) = x
ModV(a, b) == Strict2(a, b, LAMBDA x, y :
                 IF IsAny(x) \/ IsAny(y) THEN AnyNum
                 ELSE IF Nu(y) <= 0 \/ Nu(x) < 0 THEN Undet      \* READINGS.md: sign convention / zero divisor
                 ELSE LET q == <<2, MulQ(x, <<2, IF Nu(y) < 0 THEN <<-De(y), -Nu(y)>> ELSE <<De(y), Nu(y)>>>>)>>
                          t == TruncQ(Nu(q), De(q))
                          r == <<2, AddQ(x, NegV(<<2, MulQ(I(t), y)>>))>>
                      IN  IF IsInt(x) /\ IsInt(y) THEN I(Nu(r)) ELSE r)
RECURSIVE PowQ(_, _)
PowQ(x, n) == IF n = 0 THEN R(1, 1) ELSE <<2, MulQ(x, PowQ(x, n - 1))>>
\* power: exact for small non-negative Integer exponents, otherwise uninterpreted
PowerV(a, b) == Strict2(a, b, LAMBDA x, y :
                   IF IsAny(x) \/ IsAny(y) THEN AnyNum
                   ELSE IF IsInt(y) /\ y[2] >= 0 /\ y[2] <= 4 THEN PowQ(x, y[2])
                   ELSE IF Nu(x) > 0 THEN AnyNum ELSE Undet)
\* transcendental functions: domain, null behaviour only
LnV(a) == Strict1(a, LAMBDA x : IF (~IsAny(x)) /\ Nu(x) <= 0 THEN Err("ln") ELSE AnyNum)
ExpV(a) == Strict1(a, LAMBDA x : AnyNum)
SqrtV(a) == Strict1(a, LAMBDA x : IF (~IsAny(x)) /\ Nu(x) < 0 THEN Err("sqrt")
                                   ELSE IF (~IsAny(x)) /\ Nu(x) = 0 THEN R(0, 1) ELSE AnyNum)
LogV(a, b) == Strict2(a, b, LAMBDA x, y :
                 IF (~IsAny(x)) /\ Nu(x) <= 0 THEN Err("log")
                 ELSE IF (~IsAny(y)) /\ (Nu(y) <= 0 \/ (Nu(y) = De(y))) THEN Err("logbase") ELSE AnyNum)

-----------------------------------------------------------------------------
(* Comparison (same basic scalar type on both sides; Integer and Number mix) *)
RECURSIVE CmpSeq(_, _)
CmpSeq(s, t) == IF s = <<>> THEN (IF t = <<>> THEN 0 ELSE -1)
                ELSE IF t = <<>> THEN 1
                ELSE IF Head(s) < Head(t) THEN -1
                ELSE IF Head(s) > Head(t) THEN 1
                ELSE CmpSeq(Tail(s), Tail(t))
Cmp(a, b) == IF IsNumTag(a) /\ IsNumTag(b) THEN CmpNum(a, b)
             ELSE IF a[1] = 4 THEN CmpSeq(a[2], b[2])
             ELSE IF a[1] = 3 THEN (IF a[2] = b[2] THEN 0 ELSE IF b[2] THEN -1 ELSE 1)
             ELSE IF a[1] = 5 THEN      \* Date: <<day ordinal, second of day>>, lexicographic
                 (IF a[2][1] < b[2][1] THEN -1 ELSE IF a[2][1] > b[2][1] THEN 1
                  ELSE IF a[2][2] < b[2][2] THEN -1 ELSE IF a[2][2] = b[2][2] THEN 0 ELSE 1)
             ELSE IF a[1] = 8 THEN (IF a[2] < b[2] THEN -1 ELSE IF a[2] = b[2] THEN 0 ELSE 1)
             ELSE IF a = b THEN 0 ELSE 2      \* other kinds: only (in)equality is meaningful
EqV(a, b) == Strict2(a, b, LAMBDA x, y : B(Cmp(x, y) = 0))
NeV(a, b) == Strict2(a, b, LAMBDA x, y : B(Cmp(x, y) # 0))
LtV(a, b) == Strict2(a, b, LAMBDA x, y : B(Cmp(x, y) = -1))
LeV(a, b) == Strict2(a, b, LAMBDA x, y : B(Cmp(x, y) \in {-1, 0}))
GtV(a, b) == Strict2(a, b, LAMBDA x, y : B(Cmp(x, y) = 1))
GeV(a, b) == Strict2(a, b, LAMBDA x, y : B(Cmp(x, y) \in {0, 1}))
BetweenV(a, lo, hi) == IF IsErr(a) THEN a ELSE IF IsErr(lo) THEN lo ELSE IF IsErr(hi) THEN hi
                       ELSE IF IsNull(a) \/ IsNull(lo) \/ IsNull(hi) THEN Null
                       ELSE B(Cmp(a, lo) \in {0, 1} /\ Cmp(a, hi) \in {-1, 0})
\* membership in a collection of constants; null operand => null
InV(a, set) == Strict1(a, LAMBDA x : B(\E e \in set : (~IsNull(e)) /\ Cmp(x, e) = 0))
NotInV(a, set) == Strict1(a, LAMBDA x : B(~\E e \in set : (~IsNull(e)) /\ Cmp(x, e) = 0))

-----------------------------------------------------------------------------
(* Three-valued (Kleene) logic *)
T == B(TRUE)
F == B(FALSE)
AndV(a, b) == IF IsErr(a) THEN a ELSE IF IsErr(b) THEN b
              ELSE IF IsUndet(a) \/ IsUndet(b) THEN Undet
              ELSE IF a = F \/ b = F THEN F ELSE IF IsNull(a) \/ IsNull(b) THEN Null ELSE T
OrV(a, b) == IF IsErr(a) THEN a ELSE IF IsErr(b) THEN b
             ELSE IF IsUndet(a) \/ IsUndet(b) THEN Undet
             ELSE IF a = T \/ b = T THEN T ELSE IF IsNull(a) \/ IsNull(b) THEN Null ELSE F
XorV(a, b) == Strict2(a, b, LAMBDA x, y : B(x[2] # y[2]))
NotV(a) == Strict1(a, LAMBDA x : B(~x[2]))
\* the 27 literal rows of the truth tables, for the self-check
KleeneRows ==
  { <<"and", T, T, T>>, <<"and", T, F, F>>, <<"and", T, Null, Null>>,
    <<"and", F, T, F>>, <<"and", F, F, F>>, <<"and", F, Null, F>>,
    <<"and", Null, T, Null>>, <<"and", Null, F, F>>, <<"and", Null, Null, Null>>,
    <<"or", T, T, T>>, <<"or", T, F, T>>, <<"or", T, Null, T>>,
    <<"or", F, T, T>>, <<"or", F, F, F>>, <<"or", F, Null, Null>>,
    <<"or", Null, T, T>>, <<"or", Null, F, Null>>, <<"or", Null, Null, Null>>,
    <<"xor", T, T, F>>, <<"xor", T, F, T>>, <<"xor", T, Null, Null>>,
    <<"xor", F, T, T>>, <<"xor", F, F, F>>, <<"xor", F, Null, Null>>,
    <<"xor", Null, T, Null>>, <<"xor", Null, F, Null>>, <<"xor", Null, Null, Null>> }

-----------------------------------------------------------------------------
(* Conditionals *)
IsNullV(a) == IF IsErr(a) THEN a ELSE B(IsNull(a))
NvlV(a, b) == IF IsErr(a) THEN a ELSE IF IsNull(a) THEN b ELSE a
\* a null condition selects the else branch (READINGS.md: if/case)
IfV(c, t, e) == IF IsErr(c) THEN c ELSE IF c = T THEN t ELSE e

-----------------------------------------------------------------------------
(* Strings as sequences of code points *)
IsSpace(c) == c = 32
RECURSIVE LTrim(_)
LTrim(s) == IF s # <<>> /\ IsSpace(Head(s)) THEN LTrim(Tail(s)) ELSE s
RECURSIVE RTrim(_)
RTrim(s) == IF s # <<>> /\ IsSpace(s[Len(s)]) THEN RTrim(SubSeq(s, 1, Len(s) - 1)) ELSE s
UpC(c) == IF c >= 97 /\ c <= 122 THEN c - 32 ELSE c
LoC(c) == IF c >= 65 /\ c <= 90 THEN c + 32 ELSE c
StartsAt(s, p, i) == i + Len(p) - 1 <= Len(s) /\ SubSeq(s, i, i + Len(p) - 1) = p
\* first position >= from of the occ-th occurrence of p in s, 0 if none
RECURSIVE FindFrom(_, _, _, _)
FindFrom(s, p, from, occ) ==
    IF from > Len(s) - Len(p) + 1 \/ from < 1 THEN 0
    ELSE IF StartsAt(s, p, from) THEN (IF occ <= 1 THEN from ELSE FindFrom(s, p, from + 1, occ - 1))
    ELSE FindFrom(s, p, from + 1, occ)
RECURSIVE ReplaceAll(_, _, _)
ReplaceAll(s, p, w) == IF p = <<>> THEN s
                       ELSE IF s = <<>> THEN <<>>
                       ELSE IF StartsAt(s, p, 1) THEN w \o ReplaceAll(SubSeq(s, Len(p) + 1, Len(s)), p, w)
                       ELSE <<Head(s)>> \o ReplaceAll(Tail(s), p, w)
ConcatV(a, b) == Strict2(a, b, LAMBDA x, y : S(x[2] \o y[2]))
LengthV(a) == Strict1(a, LAMBDA x : I(Len(x[2])))
TrimV(a) == Strict1(a, LAMBDA x : S(LTrim(RTrim(x[2]))))
LTrimV(a) == Strict1(a, LAMBDA x : S(LTrim(x[2])))
RTrimV(a) == Strict1(a, LAMBDA x : S(RTrim(x[2])))
UpperV(a) == Strict1(a, LAMBDA x : S([i \in 1..Len(x[2]) |-> UpC(x[2][i])]))
LowerV(a) == Strict1(a, LAMBDA x : S([i \in 1..Len(x[2]) |-> LoC(x[2][i])]))
\* substr(s, start, length): absent (Null) start = 1, absent length = to the end
SubstrV(a, st, ln) == IF IsErr(a) THEN a ELSE IF IsNull(a) THEN Null
    ELSE LET b == IF IsNull(st) THEN 1 ELSE st[2]
             e == IF IsNull(ln) THEN Len(a[2]) ELSE IF b + ln[2] - 1 > Len(a[2]) THEN Len(a[2]) ELSE b + ln[2] - 1
         IN  IF b > Len(a[2]) THEN S(<<>>) ELSE S(SubSeq(a[2], b, e))
ReplaceV(a, p, w) == IF IsErr(a) THEN a ELSE IF IsNull(a) THEN Null
    ELSE IF IsNull(p) THEN Null
    ELSE S(ReplaceAll(a[2], p[2], IF IsNull(w) THEN <<>> ELSE w[2]))
\* instr(s, pattern, start, occurrence)
InstrV(a, p, st, oc) == IF IsErr(a) THEN a ELSE IF IsNull(a) THEN Null
    ELSE IF IsNull(p) THEN Null
    ELSE I(FindFrom(a[2], p[2], IF IsNull(st) THEN 1 ELSE st[2], IF IsNull(oc) THEN 1 ELSE oc[2]))

-----------------------------------------------------------------------------
(* Dispatch by operator name (terms carry operator names as strings) *)
Un(op, a) ==
    CASE op = "+" -> UPlusV(a)      [] op = "-" -> UMinusV(a)
      [] op = "not" -> NotV(a)      [] op = "isnull" -> IsNullV(a)
      [] op = "abs" -> AbsV(a)      [] op = "ceil" -> CeilV(a)    [] op = "floor" -> FloorV(a)
      [] op = "ln" -> LnV(a)        [] op = "exp" -> ExpV(a)      [] op = "sqrt" -> SqrtV(a)
      [] op = "length" -> LengthV(a) [] op = "trim" -> TrimV(a)   [] op = "ltrim" -> LTrimV(a)
      [] op = "rtrim" -> RTrimV(a)  [] op = "upper" -> UpperV(a)  [] op = "lower" -> LowerV(a)
Bin(op, a, b) ==
    CASE op = "+" -> AddV(a, b)   [] op = "-" -> SubV(a, b)   [] op = "*" -> MulV(a, b)
      [] op = "/" -> DivV(a, b)   [] op = "mod" -> ModV(a, b) [] op = "power" -> PowerV(a, b)
      [] op = "log" -> LogV(a, b)
      [] op = "=" -> EqV(a, b)    [] op = "<>" -> NeV(a, b)   [] op = "<" -> LtV(a, b)
      [] op = "<=" -> LeV(a, b)   [] op = ">" -> GtV(a, b)    [] op = ">=" -> GeV(a, b)
      [] op = "and" -> AndV(a, b) [] op = "or" -> OrV(a, b)   [] op = "xor" -> XorV(a, b)
      [] op = "||" -> ConcatV(a, b) [] op = "nvl" -> NvlV(a, b)
\* functions with optional parameters: args is a sequence, absent parameters are Null
Fn(op, args) ==
    CASE op = "round" -> RoundV(args[1], args[2])
      [] op = "trunc" -> TruncV(args[1], args[2])
      [] op = "substr" -> SubstrV(args[1], args[2], args[3])
      [] op = "replace" -> ReplaceV(args[1], args[2], args[3])
      [] op = "instr" -> InstrV(args[1], args[2], args[3], args[4])
      [] op = "between" -> BetweenV(args[1], args[2], args[3])

BoolResult == {"=", "<>", "<", "<=", ">", ">=", "and", "or", "xor"}
=============================================================================
