SPECIFICATION Spec
CONSTANTS
  Good = {"g1", "g2"}
  Bad = {"b1", "b2"}
  Overwrites = TRUE
INVARIANT HistoryFree
INVARIANT OutcomeAlphabet
CHECK_DEADLOCK FALSE
