---------------------------- MODULE VTLMachine ----------------------------
(***************************************************************************)
(* The abstract statement machine.  A script is a behaviour: the state is  *)
(* the environment (name -> dataset | scalar); one step executes one       *)
(* assignment  name := term  and extends the environment with the value    *)
(* VTL gives to the term (EvalD), or ends the behaviour in a VTL runtime    *)
(* error.  Generation models instantiate it with a set of input            *)
(* environments and the set of terms offered in each state; every          *)
(* transition TLC explores is emitted as one JSON line and becomes one     *)
(* test of the implementation (binding B1).                                *)
(***************************************************************************)
EXTENDS VTLOperators, Json

CONSTANTS InputEnvs,        \* set of initial environments
          TermsOf(_, _),    \* TermsOf(env, depth): terms offered in a state
          MaxDepth          \* number of statements per behaviour

VARIABLES env, depth, outcome
vars == <<env, depth, outcome>>

ResName(d) == CASE d = 0 -> "R1" [] d = 1 -> "R2" [] d = 2 -> "R3" [] OTHER -> "R4"

Init == env \in InputEnvs /\ depth = 0 /\ outcome = "running"

Emit(e, t, v) == PrintT("@@" \o ToJson([env |-> e, term |-> t, exp |-> v, depth |-> depth]))

Exec(t) ==
    /\ outcome = "running"
    /\ depth < MaxDepth
    /\ LET v == EvalD(t, env)
       IN  /\ Emit(env, t, v)
           /\ IF IsE(v)
              THEN outcome' = "VTLError" /\ UNCHANGED env
              ELSE outcome' = "running" /\ env' = [n \in DOMAIN env \cup {ResName(depth)} |->
                                                      IF n = ResName(depth) THEN v ELSE env[n]]
    /\ depth' = depth + 1

Next == \E t \in TermsOf(env, depth) : Exec(t)
Spec == Init /\ [][Next]_vars

(* Closure (C10 at model level): everything the machine ever stores is a well-formed dataset *)
Closure == \A n \in DOMAIN env : IsDS(env[n]) => WellFormed(env[n])
OutcomeAlphabet == outcome \in {"running", "VTLError"}
=============================================================================
