CONSTANTS
  ChainLen = 2
INIT Init
NEXT Next
INVARIANT Closure
INVARIANT FilterTrueIsId
CHECK_DEADLOCK FALSE
