INIT MCInit
NEXT MCNext
INVARIANT Agree
INVARIANT Accepted
CHECK_DEADLOCK FALSE
