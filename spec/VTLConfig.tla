----------------------------- MODULE VTLConfig -----------------------------
(***************************************************************************)
(* The documented numeric precision settings (docs/environment_variables   *)
(* .rst): OUTPUT_NUMBER_SIGNIFICANT_DIGITS = the decimal SCALE of Number   *)
(* storage in the DuckDB engine (6..15, -1 = maximum 15, default 10) and   *)
(* VTL_DUCKDB_DECIMAL_WIDTH = its precision (6..38, -1 = maximum 38,       *)
(* default 28).  Outside these ranges run() must raise the configuration   *)
(* error.  Under an accepted setting a Number input is stored rounded to   *)
(* the scale (half away from zero) and rejected if it needs more than      *)
(* width - scale integer digits; sums and differences are exact.           *)
(*                                                                         *)
(* Decimals are schoolbook digit sequences (TLC integers are 32 bit):      *)
(* a decimal is [neg, int: Seq(0..9), frac: Seq(0..9)].                    *)
(***************************************************************************)
EXTENDS Integers, Sequences, TLC

Unset == -99
ScaleOk(s) == s = Unset \/ s = -1 \/ (s >= 6 /\ s <= 15)
WidthOk(w) == w = Unset \/ w = -1 \/ (w >= 6 /\ w <= 38)
EffScale(s) == IF s = Unset THEN 10 ELSE IF s = -1 THEN 15 ELSE s
EffWidth(w) == IF w = Unset THEN 28 ELSE IF w = -1 THEN 38 ELSE w
\* "config-error", "ok", or "undetermined" (documented ranges allow scale > width, which no DECIMAL type has)
Setting(w, s) == IF ~(ScaleOk(s) /\ WidthOk(w)) THEN "config-error"
                 ELSE IF EffScale(s) > EffWidth(w) THEN "undetermined" ELSE "ok"

-----------------------------------------------------------------------------
Zeros(n) == [i \in 1..n |-> 0]
Nines(n) == [i \in 1..n |-> 9]
RECURSIVE StripLead(_)
StripLead(d) == IF Len(d) > 0 /\ d[1] = 0 THEN StripLead(Tail(d)) ELSE d
\* add one unit in the last place of a digit sequence (result may be one digit longer)
RECURSIVE Inc(_)
Inc(d) == IF d = <<>> THEN <<1>>
          ELSE IF d[Len(d)] < 9 THEN SubSeq(d, 1, Len(d) - 1) \o <<d[Len(d)] + 1>>
          ELSE Inc(SubSeq(d, 1, Len(d) - 1)) \o <<0>>
\* digits of a decimal scaled by 10^s, rounded half away from zero: sequence int \o first s fractional digits
Scaled(x, s) ==
    LET f == IF Len(x.frac) >= s THEN SubSeq(x.frac, 1, s) ELSE x.frac \o Zeros(s - Len(x.frac))
        up == Len(x.frac) > s /\ x.frac[s + 1] >= 5
        d == x.int \o f
    IN  IF up THEN (IF Len(Inc(d)) > Len(d) THEN Inc(d) ELSE Inc(d)) ELSE d
Reject == [neg |-> FALSE, digits |-> <<-1>>]
\* stored value under DECIMAL(w, s): [neg, digits (scaled by 10^s, leading zeros stripped)] or Reject
Store(x, w, s) ==
    LET d == StripLead(Scaled(x, s))
    IN  IF Len(d) > w THEN Reject ELSE [neg |-> x.neg /\ d # <<>>, digits |-> d]

\* magnitude arithmetic on scaled digit sequences (most significant digit first)
PadTo(d, n) == Zeros(n - Len(d)) \o d
MaxI(a, b) == IF a > b THEN a ELSE b
RECURSIVE AddMagR(_, _, _)
AddMagR(a, b, carry) ==     \* a, b of equal length
    IF a = <<>> THEN (IF carry = 0 THEN <<>> ELSE <<carry>>)
    ELSE LET t == a[Len(a)] + b[Len(b)] + carry
         IN  AddMagR(SubSeq(a, 1, Len(a) - 1), SubSeq(b, 1, Len(b) - 1), t \div 10) \o <<t % 10>>
AddMag(a, b) == LET n == MaxI(Len(a), Len(b)) IN StripLead(AddMagR(PadTo(a, n), PadTo(b, n), 0))
RECURSIVE SubMagR(_, _, _)
SubMagR(a, b, borrow) ==    \* a >= b, equal length
    IF a = <<>> THEN <<>>
    ELSE LET t == a[Len(a)] - b[Len(b)] - borrow
         IN  SubMagR(SubSeq(a, 1, Len(a) - 1), SubSeq(b, 1, Len(b) - 1), IF t < 0 THEN 1 ELSE 0) \o <<IF t < 0 THEN t + 10 ELSE t>>
RECURSIVE GeMag(_, _)
GeMag(a, b) == IF a = <<>> THEN TRUE ELSE IF a[1] # b[1] THEN a[1] > b[1] ELSE GeMag(Tail(a), Tail(b))
SubMag(a, b) == LET n == MaxI(Len(a), Len(b)) IN StripLead(SubMagR(PadTo(a, n), PadTo(b, n), 0))
Ge(a, b) == LET n == MaxI(Len(a), Len(b)) IN GeMag(PadTo(a, n), PadTo(b, n))
\* exact signed sum of two stored values
Sum(p, q) == IF p.neg = q.neg THEN [neg |-> p.neg, digits |-> AddMag(p.digits, q.digits)]
             ELSE IF Ge(p.digits, q.digits) THEN [neg |-> p.neg /\ SubMag(p.digits, q.digits) # <<>>, digits |-> SubMag(p.digits, q.digits)]
             ELSE [neg |-> q.neg, digits |-> SubMag(q.digits, p.digits)]
Neg(p) == [neg |-> (~p.neg) /\ p.digits # <<>>, digits |-> p.digits]
Diff(p, q) == Sum(p, Neg(q))

\* probe values of an accepted setting (w, s effective): what must be stored / rejected
Dec(neg, i, f) == [neg |-> neg, int |-> i, frac |-> f]
Probes(w, s) == <<
    [id |-> "max", x |-> Dec(FALSE, Nines(w - s), Nines(s))],                          \* needs all configured digits
    [id |-> "max-neg", x |-> Dec(TRUE, Nines(w - s), Nines(s))],
    [id |-> "too-wide", x |-> Dec(FALSE, <<1>> \o Zeros(w - s), <<>>)],                \* one integer digit too many
    [id |-> "half-up", x |-> Dec(FALSE, <<0>>, Zeros(s) \o <<5>>)],                    \* rounds away from zero
    [id |-> "half-up-neg", x |-> Dec(TRUE, <<0>>, Zeros(s) \o <<5>>)],
    [id |-> "below-half", x |-> Dec(FALSE, <<0>>, Zeros(s) \o <<4, 9>>)],              \* rounds to zero
    [id |-> "carry-out", x |-> Dec(FALSE, Nines(w - s), Nines(s) \o <<5>>)],           \* rounding overflows the width
    [id |-> "plain", x |-> Dec(FALSE, <<1, 2>>, <<5>>)],
    [id |-> "plain-neg", x |-> Dec(TRUE, <<2>>, <<2, 5>>)],
    [id |-> "near-carry", x |-> Dec(FALSE, IF w - s > 1 THEN Nines(w - s - 1) ELSE <<0>>, Nines(s))],
    [id |-> "ulp", x |-> Dec(FALSE, <<0>>, Zeros(s - 1) \o <<1>>)],
    \* exact decimal ties one place beyond the scale, with significant digits in front: no binary double holds them exactly, so a
    \* loader that rounds the double instead of its decimal text goes the wrong way (0.0079835 at scale 6 is stored 0.007984)
    [id |-> "tie-mid", x |-> Dec(FALSE, <<0>>, (IF s >= 4 THEN Zeros(s - 4) \o <<7, 9, 8, 3>> ELSE Zeros(s)) \o <<5>>)],
    [id |-> "tie-big", x |-> Dec(TRUE, <<1, 9>>, (IF s >= 3 THEN Zeros(s - 3) \o <<8, 4, 0>> ELSE Zeros(s)) \o <<5>>)] >>
=============================================================================
