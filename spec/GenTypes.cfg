INIT Init
NEXT Next
INVARIANT Theorems
CHECK_DEADLOCK FALSE
