---------------------------- MODULE VTLCalendar ----------------------------
(***************************************************************************)
(* The proleptic Gregorian calendar, ISO-8601 week numbering and the VTL   *)
(* time periods, in integer arithmetic.                                    *)
(*   date     : day ordinal, 0001-01-01 = 1 (as Python's date.toordinal)   *)
(*   period   : <<year, ind, n>>, ind in "A" "S" "Q" "M" "W" "D"            *)
(*   interval : <<first ordinal, last ordinal>>                            *)
(* Weeks are ISO weeks (Monday start; week 1 holds the first Thursday);    *)
(* a W period <<y, "W", n>> is week n of ISO year y.  Day periods count     *)
(* days of the calendar year.                                              *)
(***************************************************************************)
EXTENDS Integers, Sequences, FiniteSets, TLC

IsLeap(y) == (y % 4 = 0 /\ y % 100 # 0) \/ y % 400 = 0
DaysInYear(y) == IF IsLeap(y) THEN 366 ELSE 365
DaysInMonth(y, m) == IF m = 2 THEN (IF IsLeap(y) THEN 29 ELSE 28)
                     ELSE IF m \in {4, 6, 9, 11} THEN 30 ELSE 31
\* days before January 1st of year y
DaysBeforeYear(y) == LET z == y - 1 IN z * 365 + z \div 4 - z \div 100 + z \div 400
RECURSIVE DaysBeforeMonth(_, _)
DaysBeforeMonth(y, m) == IF m <= 1 THEN 0 ELSE DaysBeforeMonth(y, m - 1) + DaysInMonth(y, m - 1)
Ord(y, m, d) == DaysBeforeYear(y) + DaysBeforeMonth(y, m) + d
ValidYMD(y, m, d) == y >= 1 /\ y <= 9999 /\ m \in 1..12 /\ d >= 1 /\ d <= DaysInMonth(y, m)

YearOf(o) == LET g == (o - 1) \div 365 + 1      \* never below the true year, at most a few above
             IN  CHOOSE y \in (g - 8)..g : y >= 1 /\ DaysBeforeYear(y) < o /\ o <= DaysBeforeYear(y + 1)
DayOfYear(o) == o - DaysBeforeYear(YearOf(o))
MonthOf(o) == LET y == YearOf(o) d == DayOfYear(o)
              IN  CHOOSE m \in 1..12 : DaysBeforeMonth(y, m) < d /\ d <= DaysBeforeMonth(y, m) + DaysInMonth(y, m)
DayOfMonth(o) == DayOfYear(o) - DaysBeforeMonth(YearOf(o), MonthOf(o))
\* ISO weekday: Monday = 1 ... Sunday = 7   (0001-01-01 is a Monday)
Weekday(o) == ((o - 1) % 7) + 1

\* ordinal of the Monday of ISO week 1 of ISO year y
IsoWeek1Monday(y) == LET jan4 == Ord(y, 1, 4) IN jan4 - (Weekday(jan4) - 1)
IsoWeeksInYear(y) == (IsoWeek1Monday(y + 1) - IsoWeek1Monday(y)) \div 7
IsoYearOf(o) == LET y == YearOf(o)
                IN  IF o >= IsoWeek1Monday(y + 1) THEN y + 1 ELSE IF o < IsoWeek1Monday(y) THEN y - 1 ELSE y
IsoWeekOf(o) == (o - IsoWeek1Monday(IsoYearOf(o))) \div 7 + 1

Inds == {"A", "S", "Q", "M", "W", "D"}
IndRank(i) == CASE i = "D" -> 1 [] i = "W" -> 2 [] i = "M" -> 3 [] i = "Q" -> 4 [] i = "S" -> 5 [] i = "A" -> 6
PeriodsInYear(i, y) == CASE i = "A" -> 1 [] i = "S" -> 2 [] i = "Q" -> 4 [] i = "M" -> 12
                         [] i = "W" -> IsoWeeksInYear(y) [] i = "D" -> DaysInYear(y)
ValidPeriod(p) == p[1] >= 1 /\ p[1] <= 9999 /\ p[2] \in Inds /\ p[3] >= 1 /\ p[3] <= PeriodsInYear(p[2], p[1])

MonthsPer(i) == CASE i = "A" -> 12 [] i = "S" -> 6 [] i = "Q" -> 3 [] i = "M" -> 1
PeriodStart(p) == LET y == p[1] i == p[2] n == p[3]
                  IN  CASE i = "D" -> DaysBeforeYear(y) + n
                        [] i = "W" -> IsoWeek1Monday(y) + 7 * (n - 1)
                        [] OTHER -> Ord(y, (n - 1) * MonthsPer(i) + 1, 1)
PeriodEnd(p) == LET y == p[1] i == p[2] n == p[3]
                IN  CASE i = "D" -> DaysBeforeYear(y) + n
                      [] i = "W" -> IsoWeek1Monday(y) + 7 * (n - 1) + 6
                      [] OTHER -> LET m == n * MonthsPer(i) IN Ord(y, m, DaysInMonth(y, m))
IntervalOf(p) == <<PeriodStart(p), PeriodEnd(p)>>

\* the period of indicator i that contains the date o
PeriodOfDate(o, i) ==
    CASE i = "D" -> <<YearOf(o), "D", DayOfYear(o)>>
      [] i = "W" -> <<IsoYearOf(o), "W", IsoWeekOf(o)>>
      [] OTHER -> <<YearOf(o), i, (MonthOf(o) - 1) \div MonthsPer(i) + 1>>

\* shifting by k periods of the same indicator (calendar-correct: W53 and D366 exist when the year has them)
RECURSIVE ShiftPeriod(_, _)
ShiftPeriod(p, k) ==
    LET y == p[1] i == p[2] n == p[3] IN
    IF i \in {"A", "S", "Q", "M"}
    THEN LET per == PeriodsInYear(i, y)
             lin == (y * per + (n - 1)) + k
         IN  <<lin \div per, i, (lin % per) + 1>>
    ELSE IF k = 0 THEN p
    ELSE IF k > 0 THEN (IF n + k <= PeriodsInYear(i, y) THEN <<y, i, n + k>>
                        ELSE ShiftPeriod(<<y + 1, i, 1>>, k - (PeriodsInYear(i, y) - n) - 1))
    ELSE (IF n + k >= 1 THEN <<y, i, n + k>>
          ELSE ShiftPeriod(<<y - 1, i, PeriodsInYear(i, y - 1)>>, k + n))

\* time_agg of a period to a strictly coarser indicator: the target period that contains it.
\* A finer target is an error.  Not determined by VTL (READINGS.md): an equal target, and a week that
\* straddles two target periods (the engine assigns it by its last day).
TimeAggPeriod(p, i) ==
    IF IndRank(i) < IndRank(p[2]) THEN <<0, "error", 0>>
    ELSE IF i = p[2] THEN <<0, "undetermined", 0>>
    ELSE IF PeriodOfDate(PeriodStart(p), i) = PeriodOfDate(PeriodEnd(p), i) THEN PeriodOfDate(PeriodStart(p), i)
    ELSE <<0, "undetermined", 0>>

\* date arithmetic
AddMonths(o, k) == LET y == YearOf(o) m == MonthOf(o) d == DayOfMonth(o)
                       lin == y * 12 + (m - 1) + k
                       ny == lin \div 12 nm == (lin % 12) + 1
                       nd == IF d > DaysInMonth(ny, nm) THEN DaysInMonth(ny, nm) ELSE d
                   IN  Ord(ny, nm, nd)
DateAdd(o, k, i) == CASE i = "D" -> o + k [] i = "W" -> o + 7 * k [] i = "M" -> AddMonths(o, k)
                      [] i = "Q" -> AddMonths(o, 3 * k) [] i = "S" -> AddMonths(o, 6 * k) [] i = "A" -> AddMonths(o, 12 * k)
AbsI(x) == IF x < 0 THEN -x ELSE x
DateDiff(a, b) == AbsI(a - b)

\* duration conversions (VTL 2.1: a year of a duration is 365 days, a month 30 days): daytoyear(n) = PyYdD,
\* daytomonth(n) = PmMdD as <<whole, rest>>; yeartoday / monthtoday are their inverses
DayToYear(n) == <<n \div 365, n % 365>>
DayToMonth(n) == <<n \div 30, n % 30>>
YearToDay(d) == d[1] * 365 + d[2]
MonthToDay(d) == d[1] * 30 + d[2]
DurationRoundTrip(n) == YearToDay(DayToYear(n)) = n /\ MonthToDay(DayToMonth(n)) = n
                        /\ DayToYear(n)[2] < 365 /\ DayToMonth(n)[2] < 30

(* Theorems checked by TLC in GenCalendar for every year of the configured range *)
W53Iff(y) == ValidPeriod(<<y, "W", 53>>) <=> IsoWeeksInYear(y) = 53
D366Iff(y) == ValidPeriod(<<y, "D", 366>>) <=> IsLeap(y)
IsoWeeksRange(y) == IsoWeeksInYear(y) \in {52, 53}
=============================================================================
