INIT TInit
NEXT TNext
CHECK_DEADLOCK FALSE
