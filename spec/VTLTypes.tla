----------------------------- MODULE VTLTypes -----------------------------
(***************************************************************************)
(* The scalar types of VTL and the DOCUMENTED casting tables of vtlengine   *)
(* (transcribed from docs/data_types.rst, sections "Implicit Casting" and   *)
(* "Explicit Casting (cast operator)"; never from the code).                *)
(*                                                                         *)
(* An operator class is [name, arity, ttc, rt]: ttc = the type the operator *)
(* checks its operands against ("none" if it has none), rt = its fixed      *)
(* result type ("none" if the result follows the operands).  C11:           *)
(*   accepted  <=>  the operands have a common type (documented implicit    *)
(*                  table) admitted by the operator                         *)
(*   result    =   rt if fixed, else the least common type of the operands  *)
(*                 (the checked type if the operands do not determine one)  *)
(***************************************************************************)
EXTENDS Integers, Sequences, FiniteSets, TLC

Types == {"String", "Number", "Integer", "Boolean", "Time", "Date", "Time_Period", "Duration", "Null"}
Basic == Types \ {"Null"}

\* documented implicit table: Imp[from] = set of types `from` is implicitly converted to
Imp == [t \in Types |->
          CASE t = "String" -> {"String"}
            [] t = "Number" -> {"Number", "Integer"}
            [] t = "Integer" -> {"Number", "Integer"}
            [] t = "Boolean" -> {"String", "Boolean"}
            [] t = "Time" -> {"Time"}
            [] t = "Date" -> {"Time", "Date"}
            [] t = "Time_Period" -> {"Time", "Time_Period"}
            [] t = "Duration" -> {"Duration"}
            [] t = "Null" -> Types]

\* documented explicit table (cast without mask): Exp[from] = admitted targets
Exp == [t \in Types |->
          CASE t = "String" -> {"String", "Number", "Integer", "Time", "Date", "Time_Period", "Duration"}
            [] t = "Number" -> {"String", "Number", "Integer", "Boolean"}
            [] t = "Integer" -> {"String", "Number", "Integer", "Boolean"}
            [] t = "Boolean" -> {"String", "Number", "Integer", "Boolean"}
            [] t = "Time" -> {"String", "Time"}
            [] t = "Date" -> {"String", "Date", "Time_Period"}
            [] t = "Time_Period" -> {"String", "Time_Period"}
            [] t = "Duration" -> {"String", "Duration"}
            [] t = "Null" -> Types]

Common(l, r) == Imp[l] \cap Imp[r]

\* least common type of two operand types (symmetric by construction)
Lub(l, r) ==
    IF l = "Null" THEN r ELSE IF r = "Null" THEN l
    ELSE IF l = r THEN l
    ELSE IF l \in Imp[r] /\ r \in Imp[l] THEN "Number"          \* Integer / Number: Integer is the subtype
    ELSE IF r \in Imp[l] THEN r
    ELSE IF l \in Imp[r] THEN l
    ELSE LET c == Common(l, r) \ {"Null"}
         IN  IF Cardinality(c) = 1 THEN CHOOSE x \in c : TRUE ELSE "undefined"

Accept2(l, r, ttc) == IF ttc = "none" THEN Common(l, r) # {} ELSE ttc \in Common(l, r)
Accept1(x, ttc) == ttc = "none" \/ ttc \in Imp[x]

\* does type t count as "a" ttc without conversion (Integer is a Number)
IsA(t, ttc) == t = ttc \/ (t = "Integer" /\ ttc = "Number") \/ t = "Null"
\* "any": not determined by the documentation (all operands Null and nothing fixed)
Result2(l, r, ttc, rt) ==
    IF rt # "none" THEN rt
    ELSE IF l = "Null" /\ r = "Null" THEN "any"
    ELSE IF ttc = "none" THEN Lub(l, r)
    ELSE LET u == Lub(l, r) IN IF u # "undefined" /\ IsA(u, ttc) /\ u # "Null" THEN u
                               ELSE IF u = "Null" THEN "Null" ELSE ttc
Result1(x, ttc, rt) ==
    IF rt # "none" THEN rt
    ELSE IF ttc = "none" THEN x
    ELSE IF x = "Null" THEN ttc              \* a Null operand is promoted to the checked type
    ELSE IF IsA(x, ttc) THEN x ELSE ttc

(* Theorems of the documented tables, checked by TLC (GenTypes) *)
SymmetricAccept == \A l, r \in Types : \A ttc \in Types \cup {"none"} : Accept2(l, r, ttc) = Accept2(r, l, ttc)
SymmetricResult == \A l, r \in Types : \A ttc \in Types \cup {"none"} :
                      Accept2(l, r, ttc) => Result2(l, r, ttc, "none") = Result2(r, l, ttc, "none")
AcceptedHasResult == \A l, r \in Types : \A ttc \in Types \cup {"none"} :
                      Accept2(l, r, ttc) => Result2(l, r, ttc, "none") # "undefined"
ReflexiveImp == \A t \in Types : t \in Imp[t] /\ t \in Exp[t]
ImplicitIsExplicit == \A t \in Basic : \A u \in Imp[t] \cap Basic : u \in Exp[t] \/ <<t, u>> \in {<<"Date", "Time">>, <<"Time_Period", "Time">>}
=============================================================================
