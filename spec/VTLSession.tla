----------------------------- MODULE VTLSession -----------------------------
(***************************************************************************)
(* C16: session resources of run() under failures.                         *)
(*                                                                         *)
(* Resources of one run: the session temporary directory, the database     *)
(* connection, the database file (file-backed mode), the tables.           *)
(* The life cycle of configured_connection / execute_queries is modelled   *)
(* step by step; the environment action Fail may strike at ANY step.  A    *)
(* behaviour is a sequence of up to MaxRuns runs in one process, each of   *)
(* which ends "ok" or "error".                                             *)
(*   NoLeak           - whenever a run has ended, nothing of it is left.   *)
(*   FailureIsolation - a run that follows failed runs starts from the     *)
(*                      same process state as the very first one.          *)
(* The steps inside `protected` are the ones covered by the try/finally of *)
(* the context manager; CONSTANT Protect says from which step on that is   *)
(* (the shipped code: from "body" on; see DESIGN.md for the finding about  *)
(* the steps before it).                                                   *)
(***************************************************************************)
EXTENDS Integers, Sequences, FiniteSets, TLC

CONSTANTS MaxRuns,      \* runs per behaviour
          BodySteps,    \* load / exec / fetch / write events in a run
          FileBacked,   \* VTL_USE_IN_MEMORY_DB = 0
          ProtectedFrom \* first life-cycle step covered by try/finally: "mkdir" | "connect" | "configure" | "body"

Steps == <<"mkdir", "connect", "configure", "body">>
StepNo(s) == CHOOSE i \in 1..4 : Steps[i] = s

VARIABLES run,        \* index of the current run
          pc,         \* "idle" | a life-cycle step | "closing" | "rmtree" | "ended"
          body,       \* body events executed in this run
          failed,     \* the current run has been hit by a fault
          dir, conn, dbfile, tables,   \* resources currently held by the process
          dirty,      \* process-global state modified and not restored
          outcome     \* sequence of outcomes of the finished runs
vars == <<run, pc, body, failed, dir, conn, dbfile, tables, dirty, outcome>>

Init == /\ run = 1 /\ pc = "mkdir" /\ body = 0 /\ failed = FALSE
        /\ dir = FALSE /\ conn = FALSE /\ dbfile = FALSE /\ tables = 0 /\ dirty = FALSE /\ outcome = <<>>

\* after a fault at life-cycle step s: the finally-path runs only when s is protected
AfterFault(s) == IF StepNo(s) >= StepNo(ProtectedFrom) THEN "closing" ELSE "ended"

MkDir == /\ pc = "mkdir" /\ dir' = TRUE /\ pc' = "connect"
         /\ UNCHANGED <<run, body, failed, conn, dbfile, tables, dirty, outcome>>
Connect == /\ pc = "connect" /\ conn' = TRUE /\ dbfile' = FileBacked /\ pc' = "configure"
           /\ UNCHANGED <<run, body, failed, dir, tables, dirty, outcome>>
Configure == /\ pc = "configure" /\ pc' = "body"
             /\ UNCHANGED <<run, body, failed, dir, conn, dbfile, tables, dirty, outcome>>
Body == /\ pc = "body" /\ body < BodySteps /\ body' = body + 1 /\ tables' = tables + 1
        /\ UNCHANGED <<run, pc, failed, dir, conn, dbfile, dirty, outcome>>
\* a script may have any number (<= BodySteps) of body events
BodyDone == /\ pc = "body" /\ pc' = "closing"
            /\ UNCHANGED <<run, body, failed, dir, conn, dbfile, tables, dirty, outcome>>
\* environment: a fault at the current step (before its effect)
Fail == /\ pc \in {"mkdir", "connect", "configure", "body"} /\ ~failed
        /\ failed' = TRUE /\ pc' = AfterFault(pc)
        /\ UNCHANGED <<run, body, dir, conn, dbfile, tables, dirty, outcome>>
\* finally: conn.close() then rmtree(session_dir)
Close == /\ pc = "closing" /\ conn' = FALSE /\ tables' = 0 /\ pc' = "rmtree"
         /\ UNCHANGED <<run, body, failed, dir, dbfile, dirty, outcome>>
RmTree == /\ pc = "rmtree" /\ dir' = FALSE /\ dbfile' = FALSE /\ pc' = "ended"
          /\ UNCHANGED <<run, body, failed, conn, tables, dirty, outcome>>
\* the API call returns or raises; the next run (if any) starts
End == /\ pc = "ended"
       /\ outcome' = Append(outcome, IF failed THEN "error" ELSE "ok")
       /\ IF run < MaxRuns THEN run' = run + 1 /\ pc' = "mkdir" /\ body' = 0 /\ failed' = FALSE
          ELSE run' = run /\ pc' = "idle" /\ UNCHANGED <<body, failed>>
       /\ UNCHANGED <<dir, conn, dbfile, tables, dirty>>

Next == MkDir \/ Connect \/ Configure \/ Body \/ BodyDone \/ Fail \/ Close \/ RmTree \/ End
Spec == Init /\ [][Next]_vars

Held == dir \/ conn \/ dbfile \/ tables > 0
NoLeak == pc \in {"ended", "idle"} => ~Held
FailureIsolation == pc = "mkdir" => (~Held /\ ~dirty)
OutcomeMatches == \A i \in DOMAIN outcome : outcome[i] \in {"ok", "error"}
=============================================================================
