--------------------------- MODULE VTLApi_Trace ---------------------------
(***************************************************************************)
(* Trace validation of recorded public API calls against the obligations   *)
(* of VTLApi (B2 for C14, C22, C26, C32).  The trace (IOEnv.TRACE_FILE) is *)
(* a JSON array of independent units, one per observed call or static fact:*)
(*  kind "call": [id, api, before, after (argument name -> canonical        *)
(*     projection), outcome [kind ok|vtl|raw, cls, code, rendered],        *)
(*     tofolder, expected (names the call must return), scalars,           *)
(*     returned (name -> [hasdata, cols, rows]), files (file -> [cols,     *)
(*     rows]), mem (name -> [cols, rows]: the same call without an output  *)
(*     folder), scalarfile (name -> text) ]                                *)
(*  kind "site": a raise site [id, code, kwargs, star] (static fact)       *)
(* IOEnv.CATALOGUE_FILE is the message catalogue: code -> placeholders.    *)
(* One step consumes one unit and prints a verdict naming, per obligation, *)
(* the first failing conjunct ("" = holds / not applicable).               *)
(***************************************************************************)
EXTENDS Integers, Sequences, FiniteSets, TLC, Json, IOUtils

Units == JsonDeserialize(IOEnv.TRACE_FILE)
Catalogue == JsonDeserialize(IOEnv.CATALOGUE_FILE)
Rng(s) == { s[i] : i \in DOMAIN s }
Has(u, f) == f \in DOMAIN u

\* C22: ArgsUnchanged, evaluated on the before/after projections of every argument
ArgsWhy(u) ==
    IF ~Has(u, "before") THEN ""
    ELSE IF DOMAIN u.before # DOMAIN u.after THEN "argument set changed"
    ELSE LET bad == { a \in DOMAIN u.before : u.before[a] # u.after[a] }
         IN  IF bad = {} THEN "" ELSE "argument modified: " \o (CHOOSE a \in bad : TRUE)

\* C32: OutcomeAlphabet
OutcomeWhy(u) ==
    IF ~Has(u, "outcome") THEN ""
    ELSE IF u.outcome.kind = "raw" THEN "raw (non-VTL) exception escaped: " \o u.outcome.cls
    ELSE ""

\* C26: Catalogued (dynamic: an error that was raised; static: a raise site)
CatWhy(u) ==
    IF u.kind = "site"
    THEN IF u.code \notin DOMAIN Catalogue THEN "code not in the catalogue: " \o u.code
         ELSE LET missing == Rng(Catalogue[u.code]) \ Rng(u.kwargs)
              IN  IF missing # {} /\ ~u.star THEN "placeholder not supplied: " \o (CHOOSE m \in missing : TRUE) ELSE ""
    ELSE IF ~Has(u, "outcome") \/ u.outcome.kind # "vtl" THEN ""
    ELSE IF u.outcome.code # "" /\ u.outcome.code \notin DOMAIN Catalogue THEN "raised code not in the catalogue: " \o u.outcome.code
    ELSE IF ~u.outcome.rendered THEN "message left a placeholder unfilled"
    ELSE ""

\* C14: FilesFaithful
SameTable(a, b) == a.cols = b.cols /\ Len(a.rows) = Len(b.rows) /\ Rng(a.rows) = Rng(b.rows)
FilesWhy(u) ==
    IF ~Has(u, "files") \/ u.outcome.kind # "ok" THEN ""
    ELSE LET ds == Rng(u.expected) \ Rng(u.scalars)
             sc == Rng(u.expected) \cap Rng(u.scalars)
             wantFiles == { n \o "." \o u.ext : n \in ds } \cup (IF sc # {} THEN {"_scalars.csv"} ELSE {})
         IN  IF DOMAIN u.returned # Rng(u.expected) THEN "returned names differ from the selected assignments"
             ELSE IF DOMAIN u.mem # Rng(u.expected) THEN "in-memory run returned different names"
             ELSE IF DOMAIN u.files # wantFiles THEN "file set differs from one file per returned dataset (+ scalar file)"
             ELSE IF \E n \in ds : u.returned[n].hasdata THEN "a returned dataset still carries in-memory data"
             ELSE IF \E n \in ds : ~SameTable(u.files[n \o "." \o u.ext], u.mem[n])
                  THEN "file content differs from the in-memory result: " \o (CHOOSE n \in ds : ~SameTable(u.files[n \o "." \o u.ext], u.mem[n]))
             ELSE IF sc # {} /\ DOMAIN u.scalarfile # sc THEN "scalar file does not hold exactly the returned scalars"
             ELSE IF \E n \in sc : u.scalarfile[n] # u.memscalars[n] THEN "scalar file value differs from the returned scalar"
             ELSE IF \E n \in sc : u.retscalars[n] # u.memscalars[n] THEN "returned scalar differs between the two modes"
             ELSE ""

Verdict(u) == [id |-> u.id, c22 |-> ArgsWhy(u), c32 |-> OutcomeWhy(u), c26 |-> CatWhy(u), c14 |-> FilesWhy(u)]

ChunkSize == 25
VARIABLE l
Init == l \in { i \in 1..Len(Units) : i % ChunkSize = 1 \/ ChunkSize = 1 }
Next == /\ l <= Len(Units)
        /\ PrintT("@@" \o ToJson(Verdict(Units[l])))
        /\ l' = IF l % ChunkSize = 0 THEN Len(Units) + 1 + l ELSE l + 1
=============================================================================
