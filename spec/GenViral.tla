------------------------------ MODULE GenViral ------------------------------
(***************************************************************************)
(* Generation model for viral propagation (C28): a family of enumerated    *)
(* rules (with / without a pair clause, unary clauses in both orders, with *)
(* / without default) and the four aggregate rules, each evaluated         *)
(*   - over EVERY pair of values (dataset + dataset: one key per pair),    *)
(*   - on every single value (unary and dataset-scalar operators),         *)
(*   - over EVERY multiset of one to three values (aggregation: one group   *)
(*     per multiset),                                                      *)
(*   - through a nested expression, a clause, a set operator, a join and a  *)
(*     dataset-level analytic invocation (whole partition).                *)
(* Values: A, B, C, null for enumerated rules; 1, 5, -2, null for          *)
(* aggregate rules.                                                        *)
(***************************************************************************)
EXTENDS VTLViral, Json

Sv(c) == S(<<c>>)
EnumVals == <<Sv(65), Sv(66), Sv(67), Null>>
NumVals == <<I(1), I(5), I(-2), Null>>
Cl1(a, r) == [vals |-> <<a>>, res |-> r]
Cl2(a, b, r) == [vals |-> <<a, b>>, res |-> r]
Enum(cs, d) == [kind |-> "enum", clauses |-> cs, default |-> d]
EnumRules ==
    { Enum(<<Cl1(Sv(65), Sv(65))>>, Null),
      Enum(<<Cl1(Sv(65), Sv(65)), Cl1(Sv(66), Sv(90))>>, Sv(68)),
      Enum(<<Cl1(Sv(66), Sv(90)), Cl1(Sv(65), Sv(65))>>, Sv(68)),
      Enum(<<Cl2(Sv(65), Sv(66), Sv(88))>>, Sv(68)),
      Enum(<<Cl2(Sv(65), Sv(66), Sv(88)), Cl1(Sv(65), Sv(65)), Cl1(Sv(67), Sv(67))>>, Sv(68)),
      Enum(<<Cl1(Sv(67), Sv(67)), Cl2(Sv(66), Sv(65), Sv(88)), Cl1(Sv(65), Sv(66))>>, Null),
      \* a confidentiality-style rule: C dominates, then N (here B), else free
      Enum(<<Cl1(Sv(67), Sv(67)), Cl1(Sv(66), Sv(66))>>, Sv(70)) }
AggRules == { [kind |-> "agg", fn |-> f] : f \in {"min", "max", "sum", "avg"} }

V(n) == [k |-> "var", name |-> n]
Row1(i, m, v) == [x \in {"Id_1", "Me_1", "VAt_1"} |-> CASE x = "Id_1" -> I(i) [] x = "Me_1" -> I(m) [] OTHER -> v]
Row2(i, j, m, v) == [x \in {"Id_1", "Id_2", "Me_1", "VAt_1"} |-> CASE x = "Id_1" -> I(i) [] x = "Id_2" -> I(j) [] x = "Me_1" -> I(m) [] OTHER -> v]
C1(t) == { Comp("Id_1", "I", "Integer"), Comp("Me_1", "M", "Integer"), Comp("VAt_1", "V", t) }
C2(t) == C1(t) \cup { Comp("Id_2", "I", "Integer") }
\* pairs: key 4*(a-1)+b holds value a in DS_1 and value b in DS_2
PairEnv(vals, t) ==
    [n \in {"DS_1", "DS_2"} |->
        [comps |-> C1(t), rows |-> { Row1(4 * (a - 1) + b, a + b, IF n = "DS_1" THEN vals[a] ELSE vals[b]) : a \in 1..4, b \in 1..4 }]]
\* multisets of size 1..3 as non-decreasing index triples (0 = no element); group g = 25 a + 5 b + c
Multi == { m \in (0..4) \X (0..4) \X (1..4) : (m[1] = 0 \/ m[1] <= m[2]) /\ (m[2] = 0 => m[1] = 0) /\ (m[2] = 0 \/ m[2] <= m[3]) }
GroupEnv(vals, t) ==
    [n \in {"DS_1"} |->
        [comps |-> C2(t),
         rows |-> UNION { { Row2(25 * m[1] + 5 * m[2] + m[3], p, p, vals[m[p]]) : p \in { q \in 1..3 : m[q] # 0 } } : m \in Multi }]]
BinT(op, l, r) == [k |-> "bin", op |-> op, l |-> l, r |-> r]
Con(v) == [k |-> "const", v |-> v]
UnT(op, x) == [k |-> "un", op |-> op, x |-> x]
Agg(op, x, mode, grp) == [k |-> "agg", op |-> op, x |-> x, mode |-> mode, group |-> grp, having |-> <<>>]
PairTerms == { BinT("+", V("DS_1"), V("DS_2")), UnT("abs", V("DS_1")), BinT("*", V("DS_1"), Con(I(2))), BinT("-", Con(I(1)), V("DS_2")),
               UnT("-", BinT("+", V("DS_1"), V("DS_2"))), BinT("+", BinT("-", V("DS_1"), V("DS_2")), V("DS_1")),
               [k |-> "set", op |-> "union", ops |-> <<BinT("+", V("DS_1"), V("DS_2")), V("DS_1")>>],
               [k |-> "clause", op |-> "filter", ds |-> V("DS_1"), items |-> <<BinT(">", V("Me_1"), Con(I(4)))>>],
               [k |-> "clause", op |-> "calc", ds |-> BinT("+", V("DS_1"), V("DS_2")), items |-> <<[name |-> "Me_2", role |-> "M", expr |-> BinT("*", V("Me_1"), Con(I(2)))]>>],
               [k |-> "join", how |-> "inner", ops |-> <<[t |-> V("DS_1"), a |-> "d1"], [t |-> V("DS_2"), a |-> "d2"]>>, using |-> <<>>,
                body |-> <<[op |-> "rename", items |-> <<<<"d1#Me_1", "Me_a">>, <<"d2#Me_1", "Me_b">>>>]>>],
               V("DS_1") }
GroupTerms == { Agg("sum", V("DS_1"), "by", <<"Id_1">>), Agg("count", V("DS_1"), "except", <<"Id_2">>), Agg("max", V("DS_1"), "none", <<>>),
                UnT("abs", Agg("min", V("DS_1"), "by", <<"Id_1">>)),
                [k |-> "an", op |-> "sum", x |-> V("DS_1"), part |-> <<"Id_1">>, order |-> <<<<"Id_2", "asc">>>>,
                 frame |-> <<[kind |-> "rows", lo |-> [n |-> -1, d |-> "preceding"], hi |-> [n |-> 0, d |-> "current"]]>>, params |-> <<>>],
                [k |-> "an", op |-> "first_value", x |-> V("DS_1"), part |-> <<"Id_1">>, order |-> <<<<"Id_2", "desc">>>>,
                 frame |-> <<[kind |-> "rows", lo |-> [n |-> 1, d |-> "preceding"], hi |-> [n |-> 0, d |-> "current"]]>>, params |-> <<>>],
                [k |-> "clause", op |-> "aggr", ds |-> V("DS_1"), items |-> <<[name |-> "Me_9", role |-> "M", agg |-> [k |-> "agg", op |-> "sum", x |-> V("Me_1")]]>>,
                 mode |-> "by", group |-> <<"Id_1">>, having |-> <<>>] }
RuleSets == { [kindOf |-> "enum", rule |-> r] : r \in EnumRules } \cup { [kindOf |-> "agg", rule |-> r] : r \in AggRules }
EnvFor(rs, grp) == IF rs.kindOf = "enum" THEN (IF grp THEN GroupEnv(EnumVals, "String") ELSE PairEnv(EnumVals, "String"))
                   ELSE (IF grp THEN GroupEnv(NumVals, IF rs.rule.fn = "avg" THEN "Number" ELSE "Integer") ELSE PairEnv(NumVals, IF rs.rule.fn = "avg" THEN "Number" ELSE "Integer"))
RulesOf(rs) == [v \in {"VAt_1"} |-> rs.rule]

VARIABLES done, part
Init == done = {} /\ part \in RuleSets
Emit(env, t, rules, v) == PrintT("@@" \o ToJson([env |-> env, term |-> t, rules |-> rules, exp |-> v]))
Exec(t, grp) ==
    LET env == EnvFor(part, grp) IN
    /\ Emit(env, t, RulesOf(part), EvalVP(t, env, RulesOf(part)))
    /\ done' = {<<t, grp>>}
    /\ UNCHANGED part
Next == done = {} /\ ((\E t \in PairTerms : Exec(t, FALSE)) \/ (\E t \in GroupTerms : Exec(t, TRUE)))

(* model-level facts *)
\* aggregate rules do not depend on the order of the datapoints; min / max over a pair agree with the group form
AggConsistent == \A f \in {"min", "max"} : \A a, b \in Rng(NumVals) :
                    LET rows == { [i |-> 1, v |-> a], [i |-> 2, v |-> b] }
                    IN  AggPair(f, a, b) = AggGroup(f, rows, "v", "Integer")
\* a viral attribute without a rule is rejected
NoRuleRejected == IsE(EvalVP(V("DS_1"), PairEnv(EnumVals, "String"), [v \in {} |-> 0]))
\* the pair form of an enumerated rule is symmetric
PairSymmetric == \A r \in EnumRules : \A a, b \in Rng(EnumVals) : EnumPair(r, a, b) = EnumPair(r, b, a)
=============================================================================
