--------------------------- MODULE VTLOperators ---------------------------
(***************************************************************************)
(* Dataset-level meaning of the VTL operators (executable reference        *)
(* semantics).  EvalD(term, env) is the value of a term in an environment  *)
(* name -> dataset | scalar.  Results: dataset, scalar [v, t] or [err].    *)
(*                                                                         *)
(* Readings borrowed from the project's semantic layer are listed in       *)
(* READINGS.md (kept components, mono-measure renaming, result id set).    *)
(***************************************************************************)
EXTENDS VTLDatasets

\* a dataset whose datapoints contain an error marker is a runtime error of the statement
RaiseDS(ds) == IF \E r \in ds.rows : \E c \in DOMAIN r : IsErr(r[c])
               THEN E("runtime") ELSE ds
RaiseSc(s) == IF IsErr(s.v) THEN E("runtime") ELSE s

Key(ds, r) == Rst(r, IdsOf(ds))
KeptUnderOp(ds) == { c \in ds.comps : c.r \in {"I", "M", "V"} }

(***************************************************************************)
(* Measure-wise application of a scalar function f(measure component, row) *)
(* with the result type newT(c): identifiers and viral attributes are      *)
(* kept, attributes dropped, a mono-measure result whose type changed is   *)
(* renamed (bool_var, int_var, ...).                                       *)
(***************************************************************************)
\* comparison operators (=, <>, <, <=, >, >=, in, not_in, between) always rename a mono-measure to bool_var
CmpOps == {"=", "<>", "<", "<=", ">", ">=", "in", "between"}
MapMeasuresF(ds, newT(_), f(_, _), force) ==
    LET keep == KeptUnderOp(ds)
        mono == Cardinality(MeasOf(ds)) = 1
        nm(c) == IF c.r = "M" /\ mono /\ (force \/ TypeChanged(c.t, newT(c))) THEN VarNameOf(newT(c)) ELSE c.n
        src(x) == CHOOSE c \in keep : nm(c) = x
    IN  [comps |-> { IF c.r = "M" THEN Comp(nm(c), "M", newT(c)) ELSE c : c \in keep },
         rows |-> { [x \in { nm(c) : c \in keep } |->
                        IF src(x).r = "M" THEN f(src(x), r) ELSE r[src(x).n]] : r \in ds.rows }]

MapMeasures(ds, newT(_), f(_, _)) == MapMeasuresF(ds, newT, f, FALSE)

UnDS(op, ds) == RaiseDS(MapMeasures(ds, LAMBDA c : UnType(op, c.t), LAMBDA c, r : Un(op, r[c.n])))

\* dataset (op) scalar, left = TRUE when the dataset is the left operand
BinDSSc(op, ds, s, left) ==
    RaiseDS(MapMeasuresF(ds,
        LAMBDA c : IF left THEN BinType(op, c.t, s.t) ELSE BinType(op, s.t, c.t),
        LAMBDA c, r : IF left THEN Bin(op, r[c.n], s.v) ELSE Bin(op, s.v, r[c.n]), op \in CmpOps))

\* dataset (op) dataset: inner match on the common identifiers; one identifier set contains the
\* other and the result has the larger one
BinDSDS(op, a, b) ==
    LET useB == Cardinality(IdsOf(a)) < Cardinality(IdsOf(b))
        base == IF useB THEN b ELSE a
        common == IdsOf(a) \cap IdsOf(b)
        pairs == { p \in a.rows \X b.rows : Rst(p[1], common) = Rst(p[2], common) }
        \* a joined datapoint: identifiers of the base side, measures of both (left = a)
        joined == [comps |-> { c \in base.comps : c.r \in {"I", "M"} },
                   rows |-> pairs]
        keep == { c \in base.comps : c.r \in {"I", "M"} }
        mono == Cardinality(MeasOf(base)) = 1
        newT(c) == BinType(op, TypeOfComp(a, c.n), TypeOfComp(b, c.n))
        nm(c) == IF c.r = "M" /\ mono /\ (op \in CmpOps \/ TypeChanged(TypeOfComp(a, c.n), newT(c))) THEN VarNameOf(newT(c)) ELSE c.n
        src(x) == CHOOSE c \in keep : nm(c) = x
    IN  RaiseDS([comps |-> { IF c.r = "M" THEN Comp(nm(c), "M", newT(c)) ELSE c : c \in keep },
                 rows |-> { [x \in { nm(c) : c \in keep } |->
                               IF src(x).r = "M" THEN Bin(op, p[1][src(x).n], p[2][src(x).n])
                               ELSE (IF useB THEN p[2] ELSE p[1])[src(x).n]] : p \in pairs }])

FnDS(op, ds, args, nargs) ==
    RaiseDS(MapMeasuresF(ds,
        LAMBDA c : FnType(op, <<c.t>>, nargs),
        LAMBDA c, r : Fn(op, [i \in DOMAIN args |-> IF i = 1 THEN r[c.n] ELSE args[i]]), op \in CmpOps))

InDS(neg, ds, set) ==
    MapMeasuresF(ds, LAMBDA c : "Boolean",
                 LAMBDA c, r : IF neg THEN NotInV(r[c.n], set) ELSE InV(r[c.n], set), TRUE)

\* DS#comp : identifiers plus the selected component (a selected identifier or attribute is
\* copied into a measure named after its type)
Memb(ds, n) ==
    LET c == CompOf(ds, n)
    IN  IF c.r = "M"
        THEN [comps |-> { x \in ds.comps : x.r = "I" \/ x.r = "V" \/ x.n = n },
              rows |-> { Rst(r, IdsOf(ds) \cup ViralOf(ds) \cup {n}) : r \in ds.rows }]
        ELSE [comps |-> { x \in ds.comps : x.r = "I" \/ x.r = "V" } \cup { Comp(VarNameOf(c.t), "M", c.t) },
              rows |-> { With(Rst(r, IdsOf(ds) \cup ViralOf(ds)), VarNameOf(c.t), r[n]) : r \in ds.rows }]

-----------------------------------------------------------------------------
(* Clauses *)
Filter(ds, cond, env) ==
    LET vals == [r \in ds.rows |-> EvalC(cond, r, env)]
    IN  IF \E r \in ds.rows : IsErr(vals[r]) THEN E("runtime")
        \* a condition VTL leaves undetermined (e.g. trunc of a value on a representation boundary): whether the
        \* datapoint is kept is undetermined, the statement is not judged
        ELSE IF \E r \in ds.rows : IsUndet(vals[r]) THEN E("undetermined")
        ELSE [comps |-> ds.comps, rows |-> { r \in ds.rows : vals[r] = T }]

Keep(ds, names) ==
    LET k == IdsOf(ds) \cup ViralOf(ds) \cup names
    IN  [comps |-> { c \in ds.comps : c.n \in k }, rows |-> { Rst(r, k) : r \in ds.rows }]
Drop(ds, names) ==
    LET k == AllNames(ds) \ names
    IN  [comps |-> { c \in ds.comps : c.n \in k }, rows |-> { Rst(r, k) : r \in ds.rows }]
\* pairs: sequence of <<from, to>>, applied simultaneously
Rename(ds, pairs) ==
    LET from == { pairs[i][1] : i \in DOMAIN pairs }
        to(n) == IF n \in from THEN (CHOOSE i \in DOMAIN pairs : pairs[i][1] = n) ELSE 0
        new(n) == IF n \in from THEN pairs[to(n)][2] ELSE n
        old(x) == CHOOSE n \in AllNames(ds) : new(n) = x
    IN  [comps |-> { Comp(new(c.n), c.r, c.t) : c \in ds.comps },
         rows |-> { [x \in { new(n) : n \in AllNames(ds) } |-> r[old(x)]] : r \in ds.rows }]
\* pairs: sequence of <<identifier, value>>
Sub(ds, pairs) ==
    LET fixed == { pairs[i][1] : i \in DOMAIN pairs }
        k == AllNames(ds) \ fixed
    IN  [comps |-> { c \in ds.comps : c.n \in k },
         rows |-> { Rst(r, k) : r \in { q \in ds.rows : \A i \in DOMAIN pairs : Cmp(q[pairs[i][1]], pairs[i][2]) = 0 } }]

\* unpivot idn, men: one datapoint per (datapoint, measure with a non-null value): the measure's NAME becomes the value of the new
\* identifier idn and its value the value of the new measure men; attributes are dropped.  names: measure name -> its code points.
Unpivot(ds, idn, men, names) ==
    LET ids == IdsOf(ds)
        meas == MeasOf(ds)
        ty == IF \E m \in meas : TypeOfComp(ds, m) = "Number" THEN "Number" ELSE TypeOfComp(ds, CHOOSE m \in meas : TRUE)
    IN  [comps |-> { c \in ds.comps : c.r = "I" \/ c.r = "V" } \cup { Comp(idn, "I", "String"), Comp(men, "M", ty) },
         rows |-> { [x \in ids \cup ViralOf(ds) \cup {idn, men} |->
                       IF x = idn THEN S(names[p[2]]) ELSE IF x = men THEN p[1][p[2]] ELSE p[1][x]]
                    : p \in { q \in ds.rows \X meas : ~IsNull(q[1][q[2]]) } }]

-----------------------------------------------------------------------------
(* Aggregates over a group (a set of datapoints; values form a bag, one per datapoint) *)
NonNullRows(rows, m) == { r \in rows : ~IsNull(r[m]) }
SumOver(rows, m) == FoldSet(LAMBDA r, acc : AddV(acc, r[m]), I(0), rows)
\* exact rational helpers
QDiv(a, n) == DivV(a, I(n))
SqV(a) == MulV(a, a)
AggValue(op, rows0, m, type) ==
    LET rows == NonNullRows(rows0, m)
        n == Cardinality(rows)
        sum == SumOver(rows, m)
        asNum(v) == IF v[1] = 1 THEN R(v[2], 1) ELSE v
        mean == QDiv(sum, n)
        ssd == FoldSet(LAMBDA r, acc : AddV(acc, SqV(SubV(r[m], mean))), R(0, 1), rows)
        le(a, b) == Cmp(a, b) \in {-1, 0}
        lower(r) == Cardinality({ q \in rows : Cmp(q[m], r[m]) = -1 })
        \* value at 0-based sorted position p (ties allowed)
        at(p) == (CHOOSE r \in rows : lower(r) <= p /\ p < lower(r) + Cardinality({ q \in rows : Cmp(q[m], r[m]) = 0 }))[m]
    IN  CASE op = "count" -> IF n = 0 THEN Undet ELSE I(n)      \* READINGS.md 15: count of nothing (0 vs null) is not judged
          [] op = "sum" -> IF n = 0 THEN Null ELSE IF type = "Integer" THEN sum ELSE asNum(sum)
          [] op = "avg" -> IF n = 0 THEN Null ELSE mean
          [] op = "min" -> IF n = 0 THEN Null ELSE (CHOOSE r \in rows : \A q \in rows : le(r[m], q[m]))[m]
          [] op = "max" -> IF n = 0 THEN Null ELSE (CHOOSE r \in rows : \A q \in rows : le(q[m], r[m]))[m]
          [] op = "median" -> IF n = 0 THEN Null
                              ELSE IF n % 2 = 1 THEN asNum(at(n \div 2))
                              ELSE QDiv(AddV(at(n \div 2 - 1), at(n \div 2)), 2)
          [] op = "var_pop" -> IF n = 0 THEN Null ELSE QDiv(ssd, n)
          [] op = "var_samp" -> IF n <= 1 THEN Null ELSE QDiv(ssd, n - 1)
          \* standard deviations: the harness checks obs^2 against the variance (tag 12 = sqrt-of)
          [] op = "stddev_pop" -> IF n = 0 THEN Null ELSE <<12, QDiv(ssd, n)>>
          [] op = "stddev_samp" -> IF n <= 1 THEN Null ELSE <<12, QDiv(ssd, n - 1)>>
AggType(op, t) == CASE op = "count" -> "Integer"
                    [] op \in {"sum", "min", "max"} -> t
                    [] OTHER -> "Number"

\* grouping identifiers
GroupIds(ds, mode, names) == CASE mode = "by" -> names
                               [] mode = "except" -> IdsOf(ds) \ names
                               [] OTHER -> {}
Groups(ds, gids) == { Rst(r, gids) : r \in ds.rows }
GroupRows(ds, gids, g) == { r \in ds.rows : Rst(r, gids) = g }

\* dataset-level aggregate: op(DS group by ...), applied to every measure; count -> int_var
\* counts the datapoints of the group (READINGS.md: count)
AggDS(op, ds, mode, names, having, env) ==
    LET gids == GroupIds(ds, mode, names)
        gs == IF gids = {} /\ ds.rows = {} THEN {} ELSE Groups(ds, gids)
        meas == MeasOf(ds)
        outM == IF op = "count" THEN {"int_var"} ELSE meas
        cnt(g) == Cardinality({ r \in GroupRows(ds, gids, g) : \A mm \in meas : ~IsNull(r[mm]) })
        val(g, m) == IF op = "count"
                     THEN (IF cnt(g) = 0 THEN Undet ELSE I(cnt(g)))
                     ELSE AggValue(op, GroupRows(ds, gids, g), m, TypeOfComp(ds, m))
        keepG(g) == IF having = <<>> THEN TRUE ELSE having[1][g] = T
    IN  [comps |-> { c \in ds.comps : c.n \in gids }
                   \cup (IF op = "count" THEN { Comp("int_var", "M", "Integer") }
                         ELSE { Comp(c.n, "M", AggType(op, c.t)) : c \in { x \in ds.comps : x.r = "M" } }),
         rows |-> { [x \in gids \cup outM |-> IF x \in gids THEN g[x] ELSE val(g, x)] : g \in { h \in gs : keepG(h) } }]


-----------------------------------------------------------------------------
(* Analytic (window) functions (C06).  t: [op, part: seq of names, order: seq of <<name, dir>>, frame, params]     *)
(* frame = <<>> (none) or <<[kind: "rows"|"range", lo: bound, hi: bound]>>, bound = [n, d] with d in               *)
(* "preceding" "following" "current", n = -1 for unbounded.  The ordering is total (no ties) by construction of     *)
(* the generators, as the property requires.                                                                        *)
PartitionOf(ds, t, r) == { q \in ds.rows : \A i \in DOMAIN t.part : q[t.part[i]] = r[t.part[i]] }
\* q strictly before r in the requested order
RECURSIVE Before(_, _, _, _)
Before(t, q, r, i) == IF i > Len(t.order) THEN FALSE
                      ELSE LET c == Cmp(q[t.order[i][1]], r[t.order[i][1]])
                               d == IF t.order[i][2] = "desc" THEN -c ELSE c
                           IN  IF d = -1 THEN TRUE ELSE IF d = 1 THEN FALSE ELSE Before(t, q, r, i + 1)
PosIn(t, part, r) == Cardinality({ q \in part : Before(t, q, r, 1) }) + 1
RowAt(t, part, p) == CHOOSE q \in part : PosIn(t, part, q) = p
Off(b, sign) == IF b.d = "current" THEN 0 ELSE IF b.d = "preceding" THEN -b.n ELSE b.n
FrameRows(t, part, r) ==
    IF t.frame = <<>> THEN part
    ELSE LET f == t.frame[1] p == PosIn(t, part, r) n == Cardinality(part)
         IN  IF f.kind = "rows"
             THEN LET lo == IF f.lo.n = -1 THEN 1 ELSE p + Off(f.lo, 1)
                      hi == IF f.hi.n = -1 THEN n ELSE p + Off(f.hi, 1)
                  IN  { q \in part : PosIn(t, part, q) >= lo /\ PosIn(t, part, q) <= hi }
             ELSE \* range: by the value of the (single, Integer) order key; descending order mirrors the offsets
                  LET k == t.order[1][1] desc == t.order[1][2] = "desc"
                      v(q) == IF desc THEN -(q[k][2]) ELSE q[k][2]
                      lo == IF f.lo.n = -1 THEN -1000000 ELSE v(r) + Off(f.lo, 1)
                      hi == IF f.hi.n = -1 THEN 1000000 ELSE v(r) + Off(f.hi, 1)
                  IN  { q \in part : v(q) >= lo /\ v(q) <= hi }
AnType(op, ty) == CASE op \in {"count", "rank"} -> "Integer"
                    [] op \in {"sum", "min", "max", "first_value", "last_value", "lag", "lead"} -> ty
                    [] OTHER -> "Number"
\* value of the analytic function for datapoint r and measure m of dataset ds
AnValue(ds, t, r, m) ==
    LET part == PartitionOf(ds, t, r)
        fr == FrameRows(t, part, r)
        p == PosIn(t, part, r)
        n == Cardinality(part)
    IN  CASE t.op \in {"sum", "avg", "count", "min", "max", "median", "stddev_pop", "stddev_samp", "var_pop", "var_samp"} ->
               (IF t.op = "count" THEN I(Cardinality(NonNullRows(fr, m))) ELSE AggValue(t.op, fr, m, TypeOfComp(ds, m)))
          [] t.op = "first_value" -> IF fr = {} THEN Null ELSE (CHOOSE q \in fr : \A z \in fr : PosIn(t, part, q) <= PosIn(t, part, z))[m]
          [] t.op = "last_value" -> IF fr = {} THEN Null ELSE (CHOOSE q \in fr : \A z \in fr : PosIn(t, part, q) >= PosIn(t, part, z))[m]
          [] t.op = "lag" -> IF p - t.params[1][2] >= 1 THEN RowAt(t, part, p - t.params[1][2])[m] ELSE (IF Len(t.params) > 1 THEN t.params[2] ELSE Null)
          [] t.op = "lead" -> IF p + t.params[1][2] <= n THEN RowAt(t, part, p + t.params[1][2])[m] ELSE (IF Len(t.params) > 1 THEN t.params[2] ELSE Null)
          [] t.op = "rank" -> I(p)
          [] t.op = "ratio_to_report" ->
               LET tot == AggValue("sum", part, m, "Number")
               IN  IF IsNull(r[m]) THEN Null ELSE IF IsNull(tot) THEN Null ELSE DivV(r[m], tot)
\* dataset level: the function is applied to every measure
AnDS(ds, t) ==
    LET keep == KeptUnderOp(ds)
    IN  RaiseDS([comps |-> { IF c.r = "M" THEN Comp(c.n, "M", AnType(t.op, c.t)) ELSE c : c \in keep },
                 rows |-> { [x \in { c.n : c \in keep } |-> IF CompOf(ds, x).r = "M" THEN AnValue(ds, t, r, x) ELSE r[x]] : r \in ds.rows }])

\* items: sequence of [name, role, expr]; every expression sees the components of the operand
Calc(ds, items, env) ==
    LET idx == DOMAIN items
        newNames == { items[i].name : i \in idx }
        tenv == TEnv(ds, env)
        isAn(i) == items[i].expr.k = "an"
        newComp(i) == Comp(items[i].name, items[i].role,
                           IF isAn(i) THEN AnType(items[i].expr.op, IF items[i].expr.op = "rank" THEN "Integer" ELSE tenv[items[i].expr.x.name])
                           ELSE TypeC(items[i].expr, tenv))
        item(n) == CHOOSE i \in idx : items[i].name = n
        val(i, r) == IF isAn(i) THEN AnValue(ds, items[i].expr, r, IF items[i].expr.op = "rank" THEN "" ELSE items[i].expr.x.name)
                     ELSE EvalC(items[i].expr, r, env)
    IN  RaiseDS([comps |-> { c \in ds.comps : c.n \notin newNames } \cup { newComp(i) : i \in idx },
                 rows |-> { [x \in AllNames(ds) \cup newNames |->
                               IF x \in newNames THEN val(item(x), r) ELSE r[x]]
                            : r \in ds.rows }])


-----------------------------------------------------------------------------
(* Set operators over a sequence of structurally equal datasets *)
HasKey(ds, k) == \E r \in ds.rows : Key(ds, r) = k
UnionDS(dss) ==
    [comps |-> dss[1].comps,
     rows |-> UNION { { r \in dss[i].rows : ~\E j \in 1..(i - 1) : HasKey(dss[j], Key(dss[i], r)) } : i \in DOMAIN dss }]
IntersectDS(dss) ==
    [comps |-> dss[1].comps,
     rows |-> { r \in dss[1].rows : \A j \in DOMAIN dss : HasKey(dss[j], Key(dss[1], r)) }]
SetDiffDS(a, b) == [comps |-> a.comps, rows |-> { r \in a.rows : ~HasKey(b, Key(a, r)) }]
SymDiffDS(a, b) == [comps |-> a.comps,
                    rows |-> { r \in a.rows : ~HasKey(b, Key(a, r)) } \cup { r \in b.rows : ~HasKey(a, Key(b, r)) }]

-----------------------------------------------------------------------------
(* Aggregate invocation inside aggr / having: value of one aggregate term on a group *)
\* count() without operand: datapoints of the group with at least one non-null measure (READINGS.md 15)
CountRows(rows, ds) == Cardinality({ r \in rows : \E m \in MeasOf(ds) : ~IsNull(r[m]) })
AggTermValue(t, rows, ds) ==
    IF t.op = "count" /\ t.x.k = "none" THEN (IF CountRows(rows, ds) = 0 THEN Undet ELSE I(CountRows(rows, ds)))
    ELSE LET vals == { With(r, "@v", EvalC(t.x, r, <<>>)) : r \in rows }
         IN  AggValue(t.op, vals, "@v", TypeC(t.x, TEnv(ds, <<>>)))

\* having condition: a comparison tree whose leaves are aggregate terms or constants
RECURSIVE EvalH(_, _, _)
EvalH(t, rows, ds) ==
    CASE t.k = "const" -> t.v
      [] t.k = "agg" -> AggTermValue(t, rows, ds)
      [] t.k = "bin" -> Bin(t.op, EvalH(t.l, rows, ds), EvalH(t.r, rows, ds))
      [] t.k = "un" -> Un(t.op, EvalH(t.x, rows, ds))

\* aggr clause: items = sequence of [name, role, agg: aggregate term]
Aggr(ds, items, mode, names, having) ==
    LET gids == GroupIds(ds, mode, names)
        gs == IF gids = {} /\ ds.rows = {} THEN {} ELSE Groups(ds, gids)
        idx == DOMAIN items
        item(n) == CHOOSE i \in idx : items[i].name = n
        newNames == { items[i].name : i \in idx }
        tOf(i) == IF items[i].agg.op = "count" THEN "Integer"
                  ELSE AggType(items[i].agg.op, TypeC(items[i].agg.x, TEnv(ds, <<>>)))
        keepG(g) == IF having = <<>> THEN TRUE ELSE EvalH(having[1], GroupRows(ds, gids, g), ds) = T
    IN  [comps |-> { c \in ds.comps : c.n \in gids } \cup { Comp(items[i].name, items[i].role, tOf(i)) : i \in idx },
         rows |-> { [x \in gids \cup newNames |->
                       IF x \in gids THEN g[x] ELSE AggTermValue(items[item(x)].agg, GroupRows(ds, gids, g), ds)]
                    : g \in { h \in gs : keepG(h) } }]


-----------------------------------------------------------------------------
(* Joins (C04).  ops: sequence of [ds, alias]; using: set of names ({} = the common identifiers); body: sequence of  *)
(* clauses applied to the VIRTUAL dataset of the join, whose non-key components that occur in several operands are   *)
(* named alias#name.  At the end the alias# prefixes are removed.                                                    *)
Missing == [missing |-> TRUE]
IsMissing(r) == "missing" \in DOMAIN r
\* a combination t (sequence of rows / Missing, one per operand so far) is compatible with row r of operand k
Compat(ops, t, k, r) == \A j \in DOMAIN t : IsMissing(t[j]) \/
                           \A i \in IdsOf(ops[j].ds) \cap IdsOf(ops[k].ds) : t[j][i] = r[i]
RECURSIVE JoinCombos(_, _, _)
JoinCombos(how, ops, k) ==
    IF k = 0 THEN { <<>> }
    ELSE LET prev == JoinCombos(how, ops, k - 1)
             rows == ops[k].ds.rows
         IN  IF how = "cross" THEN { Append(t, r) : t \in prev, r \in rows }
             ELSE IF how = "inner" THEN { Append(p[1], p[2]) : p \in { q \in prev \X rows : Compat(ops, q[1], k, q[2]) } }
             ELSE \* left: every combination survives; operands after the first are optional
                  UNION { LET m == { r \in rows : Compat(ops, t, k, r) }
                          IN  IF m = {} /\ k > 1 THEN { Append(t, Missing) } ELSE { Append(t, r) : r \in m }
                          : t \in prev }
\* full join: all operands have the same identifiers; one combination per key present anywhere
FullCombos(ops) ==
    LET ids == IdsOf(ops[1].ds)
        keys == UNION { { Rst(r, ids) : r \in ops[k].ds.rows } : k \in DOMAIN ops }
    IN  { [k \in DOMAIN ops |-> IF \E r \in ops[k].ds.rows : Rst(r, ids) = key
                                THEN CHOOSE r \in ops[k].ds.rows : Rst(r, ids) = key ELSE Missing] : key \in keys }
\* how often a component name occurs among the operands (identifiers count once unless cross join)
Occurs(how, ops, n) == Cardinality({ k \in DOMAIN ops : n \in AllNames(ops[k].ds) })
Shared(how, ops, n) == how # "cross" /\ \A k \in DOMAIN ops : n \in AllNames(ops[k].ds) => n \in IdsOf(ops[k].ds)
VName(how, ops, k, n) == IF Occurs(how, ops, n) > 1 /\ ~Shared(how, ops, n) THEN ops[k].alias \o "#" \o n ELSE n
JoinVirtual(how, ops) ==
    LET combos == IF how = "full" THEN FullCombos(ops) ELSE JoinCombos(how, ops, Len(ops))
        vcomps == UNION { { Comp(VName(how, ops, k, c.n), c.r, c.t) : c \in ops[k].ds.comps } : k \in DOMAIN ops }
        \* where a virtual component takes its value from: the first operand (present in the combination) that owns it
        owners(x) == { k \in DOMAIN ops : \E c \in ops[k].ds.comps : VName(how, ops, k, c.n) = x }
        src(x, k) == (CHOOSE c \in ops[k].ds.comps : VName(how, ops, k, c.n) = x).n
        val(t, x) == LET live == { k \in owners(x) : ~IsMissing(t[k]) }
                     IN  IF live = {} THEN Null ELSE LET k == CHOOSE m \in live : \A q \in live : m <= q IN t[k][src(x, k)]
    IN  [comps |-> vcomps, rows |-> { [x \in { c.n : c \in vcomps } |-> val(t, x)] : t \in combos }]
\* remove alias# prefixes (names are sequences of characters: the part after the last #)
RECURSIVE AfterHash(_)
AfterHash(n) == IF \E i \in 1..Len(n) : SubSeq(n, i, i) = "#"
                THEN AfterHash(SubSeq(n, (CHOOSE i \in 1..Len(n) : SubSeq(n, i, i) = "#") + 1, Len(n))) ELSE n
StripAliases(ds) ==
    LET new(n) == AfterHash(n)
        old(x) == CHOOSE n \in AllNames(ds) : new(n) = x
    IN  [comps |-> { Comp(new(c.n), c.r, c.t) : c \in ds.comps },
         rows |-> { [x \in { new(n) : n \in AllNames(ds) } |-> r[old(x)]] : r \in ds.rows }]

-----------------------------------------------------------------------------
(* if DS_cond then a else b: the condition is a dataset with one Boolean measure; for every datapoint of the condition the     *)
(* selected operand (then when true, else when false or null) supplies the measures: a dataset operand its datapoint with the *)
(* same identifiers (no such datapoint, no result datapoint), a scalar operand its value for every measure.  The result has   *)
(* the structure of the dataset operand(s).                                                                                 *)
IfDS(c, a, b) ==
    LET cm == CHOOSE m \in MeasOf(c) : TRUE
        shape == IF IsDS(a) THEN a ELSE b
        keep == { x \in shape.comps : x.r \in {"I", "M"} }
        names == { x.n : x \in keep }
        ids == IdsOf(shape)
        pick(r) == IF r[cm] = T THEN a ELSE b
        from(sel, r) == IF IsDS(sel)
                        THEN { [x \in names |-> q[x]] : q \in { q \in sel.rows : Rst(q, ids) = Rst(r, ids) } }
                        ELSE { [x \in names |-> IF x \in ids THEN r[x] ELSE sel.v] }
    IN  [comps |-> keep, rows |-> UNION { from(pick(r), r) : r \in c.rows }]

(* exists_in(a, b, retain): for every datapoint of a, whether b has a datapoint agreeing on the identifiers they share;      *)
(* retain = "all" keeps every datapoint, "true" / "false" only those with that answer.                                      *)
ExistsIn(a, b, retain) ==
    LET common == IdsOf(a) \cap IdsOf(b)
        ans(r) == IF \E q \in b.rows : Rst(q, common) = Rst(r, common) THEN T ELSE F
        all == { With(Rst(r, IdsOf(a)), "bool_var", ans(r)) : r \in a.rows }
    IN  [comps |-> { c \in a.comps : c.r = "I" } \cup { Comp("bool_var", "M", "Boolean") },
         rows |-> CASE retain = "true" -> { r \in all : r["bool_var"] = T }
                    [] retain = "false" -> { r \in all : r["bool_var"] = F }
                    [] OTHER -> all]

(* case when DS_c1 then a1 when DS_c2 then a2 ... else b at dataset level: as IfDS, the datapoints are those of the first       *)
(* condition; a condition dataset without a datapoint for the key counts as not true.  Conditions are mutually exclusive in     *)
(* everything generated (READINGS.md 24); should two be true the value is not determined.                                      *)
CaseDS(cs, ts, e) ==
    LET opnds == [i \in 1..(Len(ts) + 1) |-> IF i <= Len(ts) THEN ts[i] ELSE e]
        shape == opnds[CHOOSE i \in DOMAIN opnds : IsDS(opnds[i])]
        keep == { x \in shape.comps : x.r \in {"I", "M"} }
        names == { x.n : x \in keep }
        ids == IdsOf(shape)
        cm(i) == CHOOSE m \in MeasOf(cs[i]) : TRUE
        condAt(i, r) == LET hit == { q \in cs[i].rows : Rst(q, ids) = Rst(r, ids) }
                        IN  IF hit = {} THEN Null ELSE (CHOOSE q \in hit : TRUE)[cm(i)]
        trueAt(r) == { i \in DOMAIN cs : condAt(i, r) = T }
        from(sel, r, undet) == IF IsDS(sel)
                               THEN { [x \in names |-> IF undet /\ x \notin ids THEN Undet ELSE q[x]] : q \in { q \in sel.rows : Rst(q, ids) = Rst(r, ids) } }
                               ELSE { [x \in names |-> IF x \in ids THEN r[x] ELSE IF undet THEN Undet ELSE sel.v] }
        rowsOf(r) == LET m == trueAt(r)
                     IN  IF m = {} THEN from(e, r, FALSE) ELSE from(ts[Max(m)], r, Cardinality(m) > 1)
    IN  [comps |-> keep, rows |-> UNION { rowsOf(r) : r \in cs[1].rows }]

-----------------------------------------------------------------------------
(* The evaluator *)
RECURSIVE EvalD(_, _)
\* apply l op r in the body of a join (l, r: aliases): for every measure name m that both aliased operands have
\* (virtual components l#m and r#m) the result measure m is l#m op r#m; the identifiers stay, every other
\* component of the virtual dataset (non-homonymous measures, attributes) is left out
JoinApply(ds, l, r, bop, env) ==
    LET isM(n) == \E c \in ds.comps : c.n = n /\ c.r = "M"
        common == { AfterHash(n) : n \in { x \in AllNames(ds) : isM(x) /\ \E m \in { AfterHash(y) : y \in AllNames(ds) } :
                                                       x = l \o "#" \o m /\ isM(r \o "#" \o m) } }
        sq == CHOOSE f \in [1..Cardinality(common) -> common] : \A i, j \in 1..Cardinality(common) : i # j => f[i] # f[j]
        items == [i \in DOMAIN sq |-> [name |-> sq[i], role |-> "M",
                                      expr |-> [k |-> "bin", op |-> bop, l |-> [k |-> "var", name |-> l \o "#" \o sq[i]],
                                                                        r |-> [k |-> "var", name |-> r \o "#" \o sq[i]]]]]
        res == Calc(ds, items, env)
    IN  IF IsE(res) THEN res
        ELSE [comps |-> { c \in res.comps : c.r = "I" \/ c.n \in common },
              rows |-> { Rst(q, IdsOf(res) \cup common) : q \in res.rows }]

ApplyClause(t, ds, env) ==
    CASE t.op = "filter" -> Filter(ds, t.items[1], env)
      [] t.op = "apply" -> JoinApply(ds, t.items[1], t.items[2], t.items[3], env)
      [] t.op = "calc" -> Calc(ds, t.items, env)
      [] t.op = "keep" -> Keep(ds, Rng(t.items))
      [] t.op = "drop" -> Drop(ds, Rng(t.items))
      [] t.op = "rename" -> Rename(ds, t.items)
      [] t.op = "sub" -> Sub(ds, t.items)
      [] t.op = "unpivot" -> Unpivot(ds, t.items[1], t.items[2], t.items[3])
      [] t.op = "aggr" -> Aggr(ds, t.items, t.mode, Rng(t.group), t.having)

EvalD(t, env) ==
    CASE t.k = "var" -> env[t.name]
      [] t.k = "const" -> Sc(t.v, TypeOfValue(t.v))
      [] t.k = "un" ->
            LET x == EvalD(t.x, env)
            IN  IF IsE(x) THEN x ELSE IF IsDS(x) THEN UnDS(t.op, x)
                ELSE RaiseSc(Sc(Un(t.op, x.v), UnType(t.op, x.t)))
      [] t.k = "bin" ->
            LET l == EvalD(t.l, env) r == EvalD(t.r, env)
            IN  IF IsE(l) THEN l ELSE IF IsE(r) THEN r
                ELSE IF IsDS(l) /\ IsDS(r) THEN BinDSDS(t.op, l, r)
                ELSE IF IsDS(l) THEN BinDSSc(t.op, l, r, TRUE)
                ELSE IF IsDS(r) THEN BinDSSc(t.op, r, l, FALSE)
                ELSE RaiseSc(Sc(Bin(t.op, l.v, r.v), BinType(t.op, l.t, r.t)))
      [] t.k = "fn" ->
            LET x == EvalD(t.args[1], env)
                rest == [i \in DOMAIN t.args |-> IF i = 1 THEN Null ELSE t.args[i].v]
                nargs == [i \in DOMAIN t.args |-> t.args[i].k = "const" /\ IsNull(t.args[i].v)]
            IN  IF IsE(x) THEN x ELSE IF IsDS(x) THEN FnDS(t.op, x, rest, nargs)
                ELSE RaiseSc(Sc(Fn(t.op, [i \in DOMAIN t.args |-> IF i = 1 THEN x.v ELSE rest[i]]),
                                FnType(t.op, <<x.t>>, nargs)))
      [] t.k = "in" ->
            LET x == EvalD(t.x, env)
            IN  IF IsE(x) THEN x ELSE IF IsDS(x) THEN InDS(t.neg, x, InSet(t, env))
                ELSE Sc(IF t.neg THEN NotInV(x.v, InSet(t, env)) ELSE InV(x.v, InSet(t, env)), "Boolean")
      [] t.k = "if" ->      \* scalar-level conditional, or dataset-level when the condition is a dataset
            LET c == EvalD(t.c, env) a == EvalD(t.t, env) b == EvalD(t.e, env)
            IN  IF IsE(c) THEN c
                ELSE IF IsDS(c) THEN (IF IsE(a) THEN a ELSE IF IsE(b) THEN b ELSE IfDS(c, a, b))
                ELSE IF c.v = T THEN a ELSE b
      [] t.k = "case" ->    \* dataset-level case (component-level case is evaluated by EvalC inside clauses)
            LET cs == [i \in DOMAIN t.whens |-> EvalD(t.whens[i][1], env)]
                ts == [i \in DOMAIN t.whens |-> EvalD(t.whens[i][2], env)]
                e == EvalD(t.else, env)
                all == cs \o ts \o <<e>>
            IN  IF \E i \in DOMAIN all : IsE(all[i]) THEN all[CHOOSE i \in DOMAIN all : IsE(all[i])] ELSE CaseDS(cs, ts, e)
      [] t.k = "udo" ->     \* call of a user-defined operator: the body over the environment extended with the arguments (expressions are
                            \* pure, so binding the argument VALUES is the same as substituting the argument expressions)
            LET vals == [i \in DOMAIN t.args |-> EvalD(t.args[i], env)]
            IN  IF \E i \in DOMAIN vals : IsE(vals[i]) THEN vals[CHOOSE i \in DOMAIN vals : IsE(vals[i])]
                ELSE EvalD(t.body, [n \in DOMAIN env \cup Rng(t.params) |->
                                      IF n \in Rng(t.params) THEN vals[CHOOSE i \in DOMAIN t.params : t.params[i] = n] ELSE env[n]])
      [] t.k = "exists" ->
            LET a == EvalD(t.l, env) b == EvalD(t.r, env)
            IN  IF IsE(a) THEN a ELSE IF IsE(b) THEN b ELSE ExistsIn(a, b, t.retain)
      [] t.k = "memb" ->
            LET x == EvalD(t.ds, env) IN IF IsE(x) THEN x ELSE Memb(x, t.comp)
      [] t.k = "clause" ->
            LET x == EvalD(t.ds, env) IN IF IsE(x) THEN x ELSE ApplyClause(t, x, env)
      [] t.k = "agg" ->
            LET x == EvalD(t.x, env)
            IN  IF IsE(x) THEN x
                ELSE AggDS(t.op, x, t.mode, Rng(t.group),
                           IF t.having = <<>> THEN <<>>
                           ELSE <<[g \in Groups(x, GroupIds(x, t.mode, Rng(t.group))) |->
                                     EvalH(t.having[1], GroupRows(x, GroupIds(x, t.mode, Rng(t.group)), g), x)]>>, env)
      [] t.k = "an" ->
            LET x == EvalD(t.x, env) IN IF IsE(x) THEN x ELSE AnDS(x, t)
      [] t.k = "join" ->
            LET xs == [i \in DOMAIN t.ops |-> [ds |-> EvalD(t.ops[i].t, env), alias |-> t.ops[i].a]]
            IN  IF \E i \in DOMAIN xs : IsE(xs[i].ds) THEN xs[CHOOSE i \in DOMAIN xs : IsE(xs[i].ds)].ds
                ELSE LET RECURSIVE Body(_, _)
                         Body(ds, i) == IF i > Len(t.body) \/ IsE(ds) THEN ds
                                        ELSE Body(ApplyClause(t.body[i], ds, env), i + 1)
                         res == Body(JoinVirtual(t.how, xs), 1)
                     IN  IF IsE(res) THEN res ELSE StripAliases(res)
      [] t.k = "set" ->
            LET xs == [i \in DOMAIN t.ops |-> EvalD(t.ops[i], env)]
            IN  IF \E i \in DOMAIN xs : IsE(xs[i]) THEN xs[CHOOSE i \in DOMAIN xs : IsE(xs[i])]
                ELSE CASE t.op = "union" -> UnionDS(xs)
                       [] t.op = "intersect" -> IntersectDS(xs)
                       [] t.op = "setdiff" -> SetDiffDS(xs[1], xs[2])
                       [] t.op = "symdiff" -> SymDiffDS(xs[1], xs[2])

\* environment from its JSON form: datasets {comps, rows}, scalars {v, t} or value domains {set, t}
EnvOf(j) == [n \in DOMAIN j |-> IF "comps" \in DOMAIN j[n] THEN DS(j[n]) ELSE j[n]]
=============================================================================
