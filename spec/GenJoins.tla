------------------------------ MODULE GenJoins ------------------------------
(***************************************************************************)
(* Generation model for the joins (C04): operands A (Id_1, Id_2; Me_1,     *)
(* At_1), B (same identifiers; Me_1 - clashing - and Me_2) and C (Id_1      *)
(* only; Me_3) with EVERY subset of a small key space per operand (every    *)
(* partial key-overlap pattern), joined by inner / left / full / cross,     *)
(* with aliases, using, and bodies that resolve the clash (drop, keep,      *)
(* rename), filter on either side, calc over both sides and aggr.           *)
(***************************************************************************)
EXTENDS VTLOperators, Json

CONSTANTS Deep     \* TRUE: three-operand joins too

KA == { <<1, 97>>, <<1, 98>>, <<2, 97>> }
KB == { <<1, 97>>, <<2, 97>>, <<3, 97>> }
KC == { 1, 3 }
CompsA == { Comp("Id_1", "I", "Integer"), Comp("Id_2", "I", "String"), Comp("Me_1", "M", "Integer"), Comp("At_1", "A", "String") }
CompsB == { Comp("Id_1", "I", "Integer"), Comp("Id_2", "I", "String"), Comp("Me_1", "M", "Integer"), Comp("Me_2", "M", "Integer") }
CompsC == { Comp("Id_1", "I", "Integer"), Comp("Me_3", "M", "Integer") }
RowA(k) == [x \in {"Id_1", "Id_2", "Me_1", "At_1"} |-> CASE x = "Id_1" -> I(k[1]) [] x = "Id_2" -> S(<<k[2]>>)
               [] x = "Me_1" -> (IF k = <<1, 98>> THEN Null ELSE I(10 * k[1] + k[2] - 96)) [] OTHER -> S(<<120 + k[1]>>)]
RowB(k) == [x \in {"Id_1", "Id_2", "Me_1", "Me_2"} |-> CASE x = "Id_1" -> I(k[1]) [] x = "Id_2" -> S(<<k[2]>>)
               [] x = "Me_1" -> I(100 + k[1]) [] OTHER -> (IF k[1] = 2 THEN Null ELSE I(k[1]))]
RowC(k) == [x \in {"Id_1", "Me_3"} |-> IF x = "Id_1" THEN I(k) ELSE I(1000 * k)]
Inputs == { [n \in {"A", "B", "C"} |-> CASE n = "A" -> [comps |-> CompsA, rows |-> { RowA(k) : k \in sa }]
                                          [] n = "B" -> [comps |-> CompsB, rows |-> { RowB(k) : k \in sb }]
                                          [] OTHER -> [comps |-> CompsC, rows |-> { RowC(k) : k \in sc }]]
            : sa \in SUBSET KA, sb \in SUBSET KB, sc \in {{}, {1}, {1, 3}} }

V(n) == [k |-> "var", name |-> n]
C(v) == [k |-> "const", v |-> v]
Bn(op, l, r) == [k |-> "bin", op |-> op, l |-> l, r |-> r]
Op(n, a) == [t |-> V(n), a |-> a]
Cl(op, items) == [op |-> op, items |-> items]
J(how, ops, using, body) == [k |-> "join", how |-> how, ops |-> ops, using |-> using, body |-> body]
AB(a, b) == <<Op("A", a), Op("B", b)>>
\* bodies that make the join of A and B well formed (Me_1 occurs on both sides)
BodiesAB(a, b) == {
    <<Cl("drop", <<b \o "#Me_1">>)>>,
    <<Cl("drop", <<a \o "#Me_1">>)>>,
    <<Cl("keep", <<a \o "#Me_1", "Me_2">>)>>,
    <<Cl("keep", <<b \o "#Me_1", "At_1">>)>>,
    <<Cl("rename", <<<<a \o "#Me_1", "M1a">>, <<b \o "#Me_1", "M1b">>>>)>>,
    <<Cl("filter", <<Bn(">", V(a \o "#Me_1"), C(I(11)))>>), Cl("drop", <<b \o "#Me_1">>)>>,
    <<Cl("filter", <<Bn("=", V("Me_2"), C(I(1)))>>), Cl("keep", <<b \o "#Me_1">>)>>,
    <<Cl("calc", <<[name |-> "Z", role |-> "M", expr |-> Bn("+", V(a \o "#Me_1"), V(b \o "#Me_1"))]>>), Cl("keep", <<"Z", "Me_2">>)>>,
    <<Cl("calc", <<[name |-> "Z", role |-> "M", expr |-> Bn("*", V("Me_2"), C(I(2)))]>>), Cl("drop", <<a \o "#Me_1">>), Cl("rename", <<<<b \o "#Me_1", "Mb">>>>)>> }
BodiesAC == {
    <<>>,
    <<Cl("filter", <<Bn(">", V("Me_3"), C(I(1000)))>>)>>,
    <<Cl("filter", <<Bn(">", V("Me_1"), C(I(11)))>>)>>,
    <<Cl("calc", <<[name |-> "Z", role |-> "M", expr |-> Bn("+", V("Me_1"), V("Me_3"))]>>)>>,
    <<Cl("calc", <<[name |-> "Z", role |-> "M", expr |-> Bn("+", V("Me_1"), V("Me_3"))]>>), Cl("keep", <<"Z">>)>>,
    <<Cl("keep", <<"Me_3">>)>>, <<Cl("drop", <<"At_1">>)>>, <<Cl("rename", <<<<"Me_3", "Big">>>>)>>,
    <<[op |-> "aggr", items |-> <<[name |-> "S", role |-> "M", agg |-> [k |-> "agg", op |-> "sum", x |-> V("Me_3")]]>>, mode |-> "by", group |-> <<"Id_1">>, having |-> <<>>]>> }

Terms(e, d) ==
    UNION { { J(how, AB(al[1], al[2]), <<>>, b) : how \in {"inner", "left", "full"}, b \in BodiesAB(al[1], al[2]) } : al \in {<<"A", "B">>, <<"x", "y">>} }
    \cup { J(how, <<Op("B", "B"), Op("A", "A")>>, <<>>, b) : how \in {"inner", "left"}, b \in BodiesAB("A", "B") }
    \cup { J(how, <<Op("A", "A"), Op("C", "C")>>, u, b) : how \in {"inner", "left"}, u \in {<<>>, <<"Id_1">>}, b \in BodiesAC }
    \cup { J("inner", <<Op("C", "C"), Op("A", "A")>>, <<>>, b) : b \in BodiesAC }
    \cup { J("cross", <<Op("A", "a"), Op("C", "c")>>, <<>>, b \o <<Cl("rename", <<<<"a#Id_1", "I1">>, <<"c#Id_1", "I2">>>>)>>) : b \in {<<>>, <<Cl("filter", <<Bn("=", V("a#Id_1"), V("c#Id_1"))>>)>>} }
    \cup (IF Deep
          THEN { J(how, <<Op("A", "A"), Op("B", "B"), Op("C", "C")>>, <<>>, b) : how \in {"inner", "left"}, b \in BodiesAB("A", "B") }
               \cup { J("inner", <<Op("C", "C"), Op("B", "B"), Op("A", "A")>>, <<>>, b) : b \in BodiesAB("A", "B") }
          ELSE {})

VARIABLES env, depth, outcome
M == INSTANCE VTLMachine WITH InputEnvs <- Inputs, TermsOf <- Terms, MaxDepth <- 1
Init == M!Init
Next == M!Next
Closure == M!Closure
(* law: an inner join of A and C is the dataset-level match set: same keys as A[keep Me_1] + (A-shaped C) would have *)
JoinKeysLaw == \A n \in DOMAIN env : n = "R1" /\ IsDS(env[n]) => \A r \in env[n].rows : \A i \in IdsOf(env[n]) : ~IsNull(r[i])
=============================================================================
