------------------------- MODULE VTLSchedule_Trace -------------------------
(***************************************************************************)
(* Trace validation for C13: the events recorded by the guarded hooks of   *)
(* execute_queries (load / exec / fetch / release, each with the session   *)
(* catalog observed right after it) are replayed against the ABSTRACT      *)
(* table store of VTLSchedule; one TLC step consumes one event.  At the    *)
(* end of a unit the terminal requirements and the equality of the real    *)
(* DatasetSchedule with the specification's Schedule() are checked.        *)
(* A rejected event names the clause that failed.                          *)
(***************************************************************************)
EXTENDS VTLStore, IOUtils, TLCExt

Units == JsonDeserialize(IOEnv.TRACE_FILE)
ChunkSize == 25
VARIABLES u, i, tst
tvars == <<u, i, tst>>

ScriptOf(j) == [x \in DOMAIN j |-> [name |-> j[x].name, reads |-> Rng(j[x].reads), pers |-> j[x].pers]]

\* "" when the event is allowed in store state s, otherwise the name of the violated clause
Why(scr, ropp, s, e) ==
    LET n == e.name IN
    CASE e.ev = "load" ->
           IF n \notin GlobalInputs(scr) THEN "load: not a global input read by the script"
           ELSE IF n \in s.loaded THEN "load: input loaded twice"
           ELSE IF Rng(e.tables) # DoLoad(s, n).store THEN "load: catalog differs from the store"
           ELSE ""
      [] e.ev = "exec" ->
           IF n \notin Outputs(scr) THEN "exec: unknown statement"
           ELSE IF n \in s.executed THEN "exec: statement executed twice"
           ELSE IF ~(scr[Idx(scr, n)].reads \subseteq s.store) THEN "exec: an operand is not materialised (not loaded/produced yet, or already released)"
           ELSE IF Rng(e.tables) # DoExec(s, n).store THEN "exec: catalog differs from the store"
           ELSE ""
      [] e.ev = "fetch" ->
           IF n \notin Selected(scr, ropp) THEN "fetch: result is not selected for return"
           ELSE IF n \notin s.store THEN "fetch: result not materialised"
           ELSE IF n \in s.fetched THEN "fetch: fetched twice"
           ELSE ""
      [] e.ev = "release" ->
           IF n \notin s.store THEN "release: table not materialised"
           ELSE IF n \in s.released THEN "release: released twice"
           ELSE IF \E r \in Readers(scr, n) : scr[r].name \notin s.executed THEN "release: a later statement still reads it"
           ELSE IF n \in Selected(scr, ropp) /\ n \notin s.fetched THEN "release: selected result dropped before being fetched"
           ELSE IF Rng(e.tables) # DoRelease(s, n).store THEN "release: catalog differs from the store"
           ELSE ""
      [] OTHER -> "unknown event"
Apply(s, e) == CASE e.ev = "load" -> DoLoad(s, e.name) [] e.ev = "exec" -> DoExec(s, e.name)
                 [] e.ev = "fetch" -> DoFetch(s, e.name) [] e.ev = "release" -> DoRelease(s, e.name)

EndWhy(unit, scr, s) ==
    IF s.executed # Outputs(scr) THEN "end: not every statement was executed"
    ELSE IF s.fetched # Selected(scr, unit.rop) THEN "end: fetched results differ from the selected ones"
    ELSE IF Rng(unit.returned) # Selected(scr, unit.rop) THEN "end: returned names differ from the selected results"
    ELSE IF s.store # {} THEN "end: tables left materialised"
    ELSE IF s.released # Outputs(scr) \cup s.loaded THEN "end: a table was never released"
    ELSE IF unit.checksched /\ [x \in DOMAIN scr |-> Rng(unit.sched.ins[x])] # Schedule(scr).ins THEN "schedule: insertion differs from the specification"
    ELSE IF unit.checksched /\ [x \in DOMAIN scr |-> Rng(unit.sched.del[x])] # Schedule(scr).del THEN "schedule: deletion differs from the specification"
    ELSE IF unit.checksched /\ Rng(unit.sched.gi) # GlobalInputs(scr) THEN "schedule: global inputs differ"
    ELSE IF unit.checksched /\ Rng(unit.sched.pers) # PersistentOf(scr) THEN "schedule: persistent set differs"
    ELSE ""

NextUnit(x) == IF x % ChunkSize = 0 THEN Len(Units) + 1 + x ELSE x + 1
Verdict(unit, okk, why, at) == PrintT("@@" \o ToJson([id |-> unit.id, ok |-> okk, why |-> why, at |-> at]))

TInit == u \in { x \in 1..Len(Units) : x % ChunkSize = 1 \/ ChunkSize = 1 } /\ i = 0 /\ tst = EmptyStore
TNext ==
    /\ u <= Len(Units)
    /\ LET unit == Units[u]
           scr == ScriptOf(unit.script)
       IN  IF i < Len(unit.events)
           THEN LET e == unit.events[i + 1]
                    why == Why(scr, unit.rop, tst, e)
                IN  IF why = ""
                    THEN tst' = Apply(tst, e) /\ i' = i + 1 /\ u' = u
                    ELSE Verdict(unit, FALSE, why, i + 1) /\ u' = NextUnit(u) /\ i' = 0 /\ tst' = EmptyStore
           ELSE LET why == EndWhy(unit, scr, tst)
                IN  Verdict(unit, why = "", why, i) /\ u' = NextUnit(u) /\ i' = 0 /\ tst' = EmptyStore
=============================================================================
