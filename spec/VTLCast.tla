------------------------------ MODULE VTLCast ------------------------------
(***************************************************************************)
(* cast without mask, as DOCUMENTED in docs/data_types.rst ("Explicit      *)
(* Casting"): acceptance by the explicit table (a pair of the implicit     *)
(* table is accepted too: cast is at least as permissive as automatic      *)
(* promotion), the conversion details the page states, and the renaming    *)
(* rule for single-measure datasets.                                       *)
(*                                                                         *)
(* A String source is a descriptor: [text, and the values the text denotes *)
(* under the documented input formats: int, num, date, period, interval,   *)
(* dur] - the spec never parses text.  Other sources are tagged values.    *)
(* Results: a tagged value, SemErr, RunErr, or Undet where the page does   *)
(* not determine the result.                                               *)
(***************************************************************************)
EXTENDS VTLTypes, VTLFormats, VTLValues

SemErr == <<9, "semantic">>
RunErr == <<9, "runtime">>
CastAccepted(from, to) == to \in Exp[from] \cup Imp[from]
Has(x, f) == f \in DOMAIN x

CastString(x, to) ==
    CASE to = "String" -> S(x.text)
      [] to = "Integer" -> IF Has(x, "int") THEN I(x.int) ELSE RunErr            \* "rejects 3.5"
      [] to = "Number" -> IF Has(x, "int") THEN R(x.int, 1) ELSE IF Has(x, "num") THEN R(x.num[1], x.num[2]) ELSE RunErr
      [] to = "Date" -> IF Has(x, "date") THEN <<5, x.date>> ELSE RunErr
      [] to = "Time_Period" -> IF Has(x, "period") THEN <<6, x.period>> ELSE RunErr
      [] to = "Time" -> IF Has(x, "interval") THEN <<7, x.interval>> ELSE RunErr
      [] to = "Duration" -> IF Has(x, "dur") THEN <<8, x.dur>> ELSE RunErr

\* v: tagged value of type `from` (not String)
CastValue(v, from, to) ==
    IF from = to THEN v
    ELSE CASE from = "Integer" /\ to = "Number" -> R(v[2], 1)
           [] from = "Number" /\ to = "Integer" -> IF v[2][2] = 1 THEN I(v[2][1]) ELSE Undet      \* rounding mode not documented
           [] from = "Integer" /\ to = "String" -> <<4, ToString(v[2])>>
           [] from = "Number" /\ to = "String" -> Undet                                             \* number formatting not documented
           [] from \in {"Integer", "Number"} /\ to = "Boolean" -> B(Nu(v) # 0)
           [] from = "Boolean" /\ to = "Integer" -> I(IF v[2] THEN 1 ELSE 0)
           [] from = "Boolean" /\ to = "Number" -> R(IF v[2] THEN 1 ELSE 0, 1)
           [] from = "Boolean" /\ to = "String" -> <<4, IF v[2] THEN "True" ELSE "False">>
           [] from = "Date" /\ to = "Time_Period" -> <<6, PeriodOfDate(v[2], "D")>>
           [] from = "Date" /\ to = "Time" -> <<7, <<v[2], v[2]>>>>
           [] from = "Time_Period" /\ to = "Time" -> <<7, IntervalOf(v[2])>>
           [] from = "Date" /\ to = "String" -> Undet
           [] from = "Time_Period" /\ to = "String" -> Undet
           [] from = "Time" /\ to = "String" -> <<4, IsoDate(v[2][1]) \o "/" \o IsoDate(v[2][2])>>
           [] from = "Duration" /\ to = "String" -> <<4, v[2]>>
           [] OTHER -> Undet

\* Pairs the documentation forbids but the engine admits (known finding): IF the engine converts, the value still has to be
\* the calendar-correct one - the period whose span is exactly the interval, the day of a one-day interval or of a day period.
PeriodOfInterval(iv) ==
    LET cands == { i \in Inds : IntervalOf(PeriodOfDate(iv[1], i)) = iv }
    IN  IF cands = {} THEN RunErr
        ELSE <<6, PeriodOfDate(iv[1], CHOOSE i \in cands : \A j \in cands : IndRank(i) >= IndRank(j))>>
CastBeyondTable(v, from, to) ==
    IF IsNull(v) THEN Null
    ELSE CASE from = "Time" /\ to = "Time_Period" -> PeriodOfInterval(v[2])
           [] from = "Time" /\ to = "Date" -> IF v[2][1] = v[2][2] THEN <<5, v[2][1]>> ELSE RunErr
           [] from = "Time_Period" /\ to = "Date" -> IF v[2][2] = "D" THEN <<5, PeriodStart(v[2])>> ELSE RunErr
           [] OTHER -> Undet
Beyond(from, to) == <<from, to>> \in {<<"Time", "Time_Period">>, <<"Time", "Date">>, <<"Time_Period", "Date">>}

\* x: descriptor (from = "String") or tagged value; Null casts to Null whenever the pair is accepted
Cast(x, from, to) ==
    IF ~CastAccepted(from, to) THEN SemErr
    ELSE IF from = "String" THEN (IF Has(x, "null") THEN Null ELSE CastString(x, to))
    ELSE IF IsNull(x) THEN Null ELSE CastValue(x, from, to)

\* single-measure dataset: the measure is renamed to the generic name of the target type unless the source
\* type implicitly promotes to the target
VarName(t) == CASE t = "String" -> "str_var" [] t = "Number" -> "num_var" [] t = "Integer" -> "int_var"
                [] t = "Boolean" -> "bool_var" [] t = "Time" -> "time_var" [] t = "Time_Period" -> "time_period_var"
                [] t = "Date" -> "date_var" [] t = "Duration" -> "duration_var"
MeasureName(orig, from, to) == IF to \in Imp[from] THEN orig ELSE VarName(to)
=============================================================================
