CONSTANTS
  ArgNames = {"structures", "datapoints"}
  ArgVals = {0, 1}
  Results = {"r1", "r2", "s"}
  Persistent = {"r1", "s"}
  Scalars = {"s"}
  Codes = {"c1", "c2"}
  Contents = {10, 11}
SPECIFICATION Spec
INVARIANT ArgsUnchanged
INVARIANT OutcomeAlphabet
INVARIANT FilesFaithful
CHECK_DEADLOCK FALSE
