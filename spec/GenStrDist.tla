----------------------------- MODULE GenStrDist -----------------------------
(***************************************************************************)
(* Generation model for VTLStrDist: EVERY ordered pair of strings of       *)
(* length <= MaxLen over a small alphabet that mixes ASCII letters with a  *)
(* multi-byte character is one transition; TLC checks the metric laws over *)
(* the pool and emits the expected distances, the harness replays them     *)
(* through string_distance in one bulk run (C01 growth).                   *)
(***************************************************************************)
EXTENDS VTLStrDist, Json, TLCExt

CONSTANTS MaxLen
Alphabet == {97, 98, 26085}            \* a, b, U+65E5 (3 bytes in UTF-8)
Pool == UNION { [1..k -> Alphabet] : k \in 0..MaxLen }
VARIABLE s
Init == s \in Pool
Emit(a) == PrintT("@@" \o ToJson([a |-> a, r |-> [b \in Pool |->
               <<b, Levenshtein(a, b), OSA(a, b), IF Len(a) = Len(b) THEN Hamming(a, b) ELSE -1>>]]))
Next == s # <<-1>> /\ Emit(s) /\ s' = <<-1>>
MetricLaws == Metric(Pool)
TriangleLaw == Triangle({ p \in Pool : Len(p) <= 2 })
ASSUME MetricLaws /\ TriangleLaw
=============================================================================
