-------------------------- MODULE VTLSession_Trace --------------------------
(***************************************************************************)
(* Trace validation for C16.  A unit is the hook-event log of a sequence   *)
(* of run() calls in one process (some hit by an injected fault), each     *)
(* closed by an "end" event carrying what the harness OBSERVED afterwards: *)
(* entries left in the private temp directory, connections still open,     *)
(* leaked file descriptors, the outcome class and whether a clean run      *)
(* returned the baseline result.  The log must be a behaviour of           *)
(* VTLSession in which every life-cycle step is protected (the             *)
(* requirement), i.e. after any fault the connection is closed and the     *)
(* directory removed before the call ends.  Steps the hooks do not log     *)
(* (mkdir, connect, end of body) are silent steps TLC infers.              *)
(***************************************************************************)
EXTENDS VTLSession, Json, IOUtils

Units == JsonDeserialize(IOEnv.TRACE_FILE)
VARIABLES u, l
tvars == <<vars, u, l>>

Ev == Units[u].events[l]
Has == u <= Len(Units) /\ l <= Len(Units[u].events)
Consume == l' = l + 1 /\ u' = u /\ PrintT("@@" \o ToJson([id |-> Units[u].id, l |-> l]))
Silent == UNCHANGED <<u, l>>
BodyEvents == {"load", "exec", "fetch", "release", "write", "exec_start", "exec_end"}
FaultPc(kind) == CASE kind = "connect" -> "connect" [] kind = "configure" -> "configure" [] OTHER -> "body"

TInit == Init /\ u \in 1..Len(Units) /\ l = 1
TNext ==
    \/ Has /\ MkDir /\ Silent
    \/ Has /\ Connect /\ Silent
    \/ Has /\ BodyDone /\ Silent
    \/ Has /\ Ev.ev = "session_open" /\ Configure /\ Consume
    \/ Has /\ Ev.ev \in BodyEvents /\ pc = "body" /\ UNCHANGED vars /\ Consume
    \/ Has /\ Ev.ev = "fault" /\ pc = FaultPc(Ev.kind) /\ Fail /\ Consume
    \/ Has /\ Ev.ev = "session_conn_closed" /\ Close /\ Consume
    \/ Has /\ Ev.ev = "session_close" /\ RmTree /\ Consume
    \/ /\ Has /\ Ev.ev = "end" /\ End
       /\ Ev.dirs = 0 /\ Ev.conns = 0 /\ Ev.fds = 0           \* observed: nothing left behind
       /\ (Ev.outcome = "error") = failed                        \* a faulted run raises, a clean one returns
       /\ (~failed => Ev.same)                                   \* ... the baseline result (failure isolation)
       /\ Consume
=============================================================================
