CONSTANTS
  NOps = 3
  Depth = 2
INIT Init
NEXT Next
INVARIANT Closure
INVARIANT Laws
CHECK_DEADLOCK FALSE
