-------------------------- MODULE VTLScripts_Trace --------------------------
(***************************************************************************)
(* Trace validation for C24 / C25: one record per script with what the     *)
(* engine produced for each form; one verdict per record naming the first   *)
(* clause of VTLScripts that fails.                                        *)
(***************************************************************************)
EXTENDS VTLScripts, Json, IOUtils, TLCExt

Recs == JsonDeserialize(IOEnv.TRACE_FILE)
Has(r, f) == f \in DOMAIN r
Verdict(r) ==
    LET why ==
          IF Has(r, "pretty") /\ ~PrettifyPreserves(r.orig, r.pretty) THEN "prettify changed the statements"
          ELSE IF Has(r, "pretty") /\ ~CommentsKept(r.comments0, r.comments1) THEN "prettify lost or changed a comment"
          ELSE IF Has(r, "pretty") /\ ~Idempotent(r.text1, r.text2) THEN "prettify is not idempotent"
          ELSE IF Has(r, "scheme") /\ ~SchemeMatches(r.orig, r.scheme) THEN "the TransformationScheme does not match the script"
          ELSE IF Has(r, "run0") /\ Has(r, "run1") /\ ~SameResults(r.run0, r.run1) THEN "the prettified script evaluates differently"
          ELSE IF Has(r, "run0") /\ Has(r, "run2") /\ ~SameResults(r.run0, r.run2) THEN "the TransformationScheme evaluates differently"
          ELSE ""
    IN  [id |-> r.id, ok |-> why = "", why |-> why]
ChunkSize == 50
VARIABLE l
Init == l \in { i \in 1..Len(Recs) : i % ChunkSize = 1 \/ ChunkSize = 1 }
Next == /\ l <= Len(Recs)
        /\ PrintT("@@" \o ToJson(Verdict(Recs[l])))
        /\ l' = IF l % ChunkSize = 0 THEN Len(Recs) + 1 + l ELSE l + 1
=============================================================================
