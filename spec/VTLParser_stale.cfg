SPECIFICATION Spec
CONSTANTS
  Good = {"g1", "g2"}
  Bad = {"b1", "b2"}
  Overwrites = FALSE
INVARIANT HistoryFree
INVARIANT OutcomeAlphabet
CHECK_DEADLOCK FALSE
