CONSTANTS
  MaxRuns = 3
  BodySteps = 4
  FileBacked = TRUE
  ProtectedFrom = "mkdir"
SPECIFICATION Spec
INVARIANT NoLeak
INVARIANT FailureIsolation
CHECK_DEADLOCK FALSE
