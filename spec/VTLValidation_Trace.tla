------------------------ MODULE VTLValidation_Trace ------------------------
(***************************************************************************)
(* Trace validation of validation / hierarchy statements (C07): same unit  *)
(* format and verdict protocol as VTLOperators_Trace, with EvalV.          *)
(***************************************************************************)
EXTENDS VTLValidation, Json, IOUtils, TLCExt

Units == JsonDeserialize(IOEnv.TRACE_FILE)
ChunkSize == 25
VARIABLE l
ObsOf(o) == IF "comps" \in DOMAIN o THEN DS(o) ELSE o
Exact(exp, obs, cc) ==
    IF IsE(exp) THEN IsE(obs)
    ELSE IF IsE(obs) THEN FALSE
    ELSE IF IsDS(exp) THEN IsDS(obs) /\ exp.rows = obs.rows /\ (cc => exp.comps = obs.comps)
    ELSE IsSc(obs) /\ exp.v = obs.v /\ (cc => exp.t = obs.t)
Verdict(u) ==
    LET exp == EvalV(u.term, EnvOf(u.env))
        obs == ObsOf(u.obs)
    IN  IF Exact(exp, obs, u.cc) THEN [id |-> u.id, ok |-> TRUE]
        ELSE [id |-> u.id, ok |-> FALSE, exp |-> exp]
Init == l \in { i \in 1..Len(Units) : i % ChunkSize = 1 \/ ChunkSize = 1 }
Next == /\ l <= Len(Units)
        /\ PrintT("@@" \o ToJson(Verdict(Units[l])))
        /\ l' = IF l % ChunkSize = 0 THEN Len(Units) + 1 + l ELSE l + 1
=============================================================================
