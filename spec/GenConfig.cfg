INIT Init
NEXT Next
INVARIANT Sane
CHECK_DEADLOCK FALSE
