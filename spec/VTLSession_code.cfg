CONSTANTS
  MaxRuns = 3
  BodySteps = 4
  FileBacked = TRUE
  ProtectedFrom = "connect"
SPECIFICATION Spec
INVARIANT NoLeak
INVARIANT FailureIsolation
CHECK_DEADLOCK FALSE
