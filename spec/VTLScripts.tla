----------------------------- MODULE VTLScripts -----------------------------
(***************************************************************************)
(* The forms of a script (C24, C25).                                       *)
(*                                                                         *)
(* A script is a sequence of items; an item is                              *)
(*   [kind |-> "assign", name, persistent, body]   name := / <- expression *)
(*   [kind |-> "define", what, name, body]         ruleset / operator /     *)
(*                                                 viral propagation        *)
(* where body identifies the abstract syntax of the item (operators,       *)
(* names, literals and values; no positions).  The engine offers three     *)
(* forms of the same script: its text, the prettified text and the SDMX    *)
(* TransformationScheme.  They are specified by what they must preserve.   *)
(***************************************************************************)
EXTENDS Integers, Sequences, FiniteSets, TLC

Assignments(s) == SelectSeq(s, LAMBDA it : it.kind = "assign")
Definitions(s) == SelectSeq(s, LAMBDA it : it.kind = "define")

\* prettify: the same items in the same order, every comment kept, a fixed point of itself
PrettifyPreserves(orig, pretty) == orig = pretty
CommentsKept(c0, c1) == c0 = c1
Idempotent(p1, p2) == p1 = p2

\* generate_sdmx: one transformation per assignment, in order, with its result name and persistence; the expression re-parses to
\* the assignment's body; every definition re-parses to the original definition (the scheme lists them by kind)
SchemeMatches(orig, scheme) ==
    LET a == Assignments(orig)
    IN  /\ Len(scheme.transformations) = Len(a)
        /\ \A i \in DOMAIN a : /\ scheme.transformations[i].result = a[i].name
                               /\ scheme.transformations[i].persistent = a[i].persistent
                               /\ scheme.transformations[i].body = a[i].body
        /\ LET d == Definitions(orig)
               sd == scheme.definitions
           IN  /\ Len(sd) = Len(d)
               \* rulesets and operators keep their relative order inside their kind
               /\ \A w \in {"ruleset", "operator", "viral"} :
                     SelectSeq(sd, LAMBDA x : x.what = w) = [i \in DOMAIN SelectSeq(d, LAMBDA x : x.what = w) |->
                        [what |-> w, name |-> SelectSeq(d, LAMBDA x : x.what = w)[i].name, body |-> SelectSeq(d, LAMBDA x : x.what = w)[i].body]]

\* all forms evaluate to the same results (digests of the returned datasets, or the same error)
SameResults(r0, r1) == r0 = r1
=============================================================================
