CONSTANTS
  Level = "calc"
INIT Init
NEXT Next
INVARIANT Closure
CHECK_DEADLOCK FALSE
