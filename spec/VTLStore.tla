------------------------------ MODULE VTLStore ------------------------------
(***************************************************************************)
(* Load / execute / release schedule of run() (C13).                       *)
(*                                                                         *)
(* A script (in execution order) is a sequence of statements               *)
(*     [name, reads: set of names, pers: BOOLEAN].                         *)
(* Names that are read but never assigned are the global inputs.           *)
(*                                                                         *)
(* Part 1 - the ABSTRACT TABLE STORE: what any correct executor may do.    *)
(*   A store state is [store, loaded, released, fetched, executed].        *)
(*   Can*/Do* give the enabling condition and effect of each operation.    *)
(* Part 2 - the CODE MODEL: a transcription of                             *)
(*   DAGAnalyzer._ds_usage_analysis (insertion / deletion maps) and of the *)
(*   execute_queries loop (load_scheduled_datasets, CREATE TABLE,          *)
(*   cleanup_scheduled_datasets, final fetch).  TLC checks, for every      *)
(*   script of the enumerated family, that each operation the code model   *)
(*   issues is allowed by the abstract store (refinement) and that the     *)
(*   terminal state satisfies the selection / exactly-once requirements.   *)
(***************************************************************************)
EXTENDS Integers, Sequences, FiniteSets, TLC, Json

Rng(s) == { s[i] : i \in DOMAIN s }
Outputs(sc) == { sc[i].name : i \in DOMAIN sc }
AllReads(sc) == UNION { sc[i].reads : i \in DOMAIN sc }
GlobalInputs(sc) == AllReads(sc) \ Outputs(sc)
Idx(sc, n) == CHOOSE i \in DOMAIN sc : sc[i].name = n
PersistentOf(sc) == { sc[i].name : i \in { j \in DOMAIN sc : sc[j].pers } }
Selected(sc, rop) == IF rop THEN PersistentOf(sc) ELSE Outputs(sc)
Readers(sc, d) == { i \in DOMAIN sc : d \in sc[i].reads }

-----------------------------------------------------------------------------
(* Part 1: abstract store *)
EmptyStore == [store |-> {}, loaded |-> {}, reloaded |-> {}, released |-> {}, rereleased |-> {},
               fetched |-> {}, executed |-> {}]

CanLoad(sc, st, d) == d \in GlobalInputs(sc) /\ d \notin st.loaded
DoLoad(st, d) == [st EXCEPT !.store = @ \cup {d}, !.loaded = @ \cup {d}]

\* a statement runs only when everything it reads is materialised, once
CanExec(sc, st, n) == /\ n \in Outputs(sc) /\ n \notin st.executed
                      /\ sc[Idx(sc, n)].reads \subseteq st.store
DoExec(st, n) == [st EXCEPT !.store = @ \cup {n}, !.executed = @ \cup {n}]

\* a table is released once, after its last reader, and a returned result only after its fetch
CanRelease(sc, st, d, rop) ==
    /\ d \in st.store /\ d \notin st.released
    /\ \A i \in Readers(sc, d) : sc[i].name \in st.executed
    /\ (d \in Selected(sc, rop) => d \in st.fetched)
DoRelease(st, d) == [st EXCEPT !.store = @ \ {d}, !.released = @ \cup {d}]

CanFetch(sc, st, r, rop) == r \in st.store /\ r \in Selected(sc, rop) /\ r \in st.executed /\ r \notin st.fetched
DoFetch(st, r) == [st EXCEPT !.fetched = @ \cup {r}]

\* terminal requirements
Final(sc, st, rop) ==
    /\ st.executed = Outputs(sc)
    /\ st.fetched = Selected(sc, rop)
    /\ st.store = {}                                   \* nothing left materialised
    /\ st.released = Outputs(sc) \cup st.loaded        \* every table released (exactly once by CanRelease)
    /\ st.loaded = GlobalInputs(sc)

-----------------------------------------------------------------------------
(* Part 2: transcription of the code *)
MaxOr(S, d) == IF S = {} THEN d ELSE CHOOSE m \in S : \A x \in S : x <= m
MinOf(S) == CHOOSE m \in S : \A x \in S : m <= x
LastConsumer(sc, d, dflt) == MaxOr(Readers(sc, d), dflt)
\* deletion[k]: outputs whose last consumer (or own statement) is k, global inputs whose last consumer is k
Deletion(sc, k) == { sc[j].name : j \in { i \in DOMAIN sc : LastConsumer(sc, sc[i].name, i) = k } }
                   \cup { g \in GlobalInputs(sc) : LastConsumer(sc, g, 0) = k }
\* insertion[k]: global inputs first read by statement k
Insertion(sc, k) == { g \in GlobalInputs(sc) : MinOf(Readers(sc, g)) = k }
Schedule(sc) == [ins |-> [k \in DOMAIN sc |-> Insertion(sc, k)],
                 del |-> [k \in DOMAIN sc |-> Deletion(sc, k)],
                 gi |-> GlobalInputs(sc),
                 pers |-> PersistentOf(sc)]
=============================================================================
