CONSTANTS
  Depth = 2
  Family = "overlap"
  MeA = "Me_1"
  MeB = "Me_1"
INIT Init
NEXT Next
INVARIANT Closure
INVARIANT KleeneTable
CHECK_DEADLOCK FALSE
