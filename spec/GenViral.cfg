INIT Init
NEXT Next
INVARIANT AggConsistent
INVARIANT NoRuleRejected
INVARIANT PairSymmetric
CHECK_DEADLOCK FALSE
