------------------------------ MODULE GenSets ------------------------------
(***************************************************************************)
(* Generation model for the set operators (C05): operands A, B, C, D over  *)
(* three identifier keys; every subset of keys per operand, conflicting    *)
(* measure values (operand i holds 10*i + key, one null), attribute kept.  *)
(***************************************************************************)
EXTENDS VTLOperators, Json

CONSTANTS NOps,      \* number of operand datasets (2..4)
          Depth

Keys == {1, 2, 3}
Names == <<"A", "B", "C", "D">>
CompsS == { Comp("Id_1", "I", "Integer"), Comp("Me_1", "M", "Integer"), Comp("At_1", "A", "String") }
RowOf(i, k) == [x \in {"Id_1", "Me_1", "At_1"} |->
                   IF x = "Id_1" THEN I(k)
                   ELSE IF x = "Me_1" THEN (IF i = 2 /\ k = 2 THEN Null ELSE I(10 * i + k))
                   ELSE S(<<96 + i>>)]
DSOf(i, ks) == [comps |-> CompsS, rows |-> { RowOf(i, k) : k \in ks }]
Inputs == { [n \in { Names[i] : i \in 1..NOps } |->
               LET i == CHOOSE j \in 1..NOps : Names[j] = n IN DSOf(i, f[i])] : f \in [1..NOps -> SUBSET Keys] }

V(n) == [k |-> "var", name |-> n]
SetT(op, names) == [k |-> "set", op |-> op, ops |-> [i \in DOMAIN names |-> V(names[i])]]
AllOps == {"union", "intersect", "setdiff", "symdiff"}
\* all orderings of 2..NOps distinct operand names
Seqs(n) == { s \in [1..n -> DOMAIN Names] : (\A i \in 1..n : s[i] <= NOps) /\ (\A i, j \in 1..n : i # j => s[i] # s[j]) }
NameSeqs(n) == { [i \in 1..n |-> Names[s[i]]] : s \in Seqs(n) }
Terms(e, d) ==
    IF d = 0
    THEN { SetT(op, ns) : op \in {"union", "intersect"}, ns \in UNION { NameSeqs(n) : n \in 2..NOps } }
         \cup { SetT(op, ns) : op \in {"setdiff", "symdiff"}, ns \in NameSeqs(2) }
         \* a set operator nested directly inside a set operator (same or different), on either side
         \cup (IF NOps >= 3
               THEN { [k |-> "set", op |-> o1, ops |-> <<SetT(o2, <<"A", "B">>), V("C")>>] : o1 \in AllOps, o2 \in AllOps }
                    \cup { [k |-> "set", op |-> o1, ops |-> <<V("A"), SetT(o2, <<"B", "C">>)>>] : o1 \in AllOps, o2 \in AllOps }
               ELSE {})
    ELSE \* second statement: combine the first result with an input (nesting by chaining)
         { SetT(op, <<"R1", Names[i]>>) : op \in {"union", "intersect", "setdiff", "symdiff"}, i \in 1..NOps }

VARIABLES env, depth, outcome
M == INSTANCE VTLMachine WITH InputEnvs <- Inputs, TermsOf <- Terms, MaxDepth <- Depth

Init == M!Init
Next == M!Next
Closure == M!Closure

(* Algebraic laws of the set operators, checked in every reachable state *)
DSs == { env[n] : n \in DOMAIN env }
Laws == \A a \in DSs : \A b \in DSs :
          /\ UnionDS(<<a, a>>).rows = a.rows
          /\ IntersectDS(<<a, b>>).rows \subseteq a.rows
          /\ SetDiffDS(a, b).rows \cap IntersectDS(<<a, b>>).rows = {}
          /\ SymDiffDS(a, b).rows = SetDiffDS(a, b).rows \cup SetDiffDS(b, a).rows
          /\ { Key(a, r) : r \in UnionDS(<<a, b>>).rows } = { Key(a, r) : r \in a.rows } \cup { Key(b, r) : r \in b.rows }
          /\ a.rows \subseteq UnionDS(<<a, b>>).rows
=============================================================================
