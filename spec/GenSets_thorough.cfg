CONSTANTS
  NOps = 4
  Depth = 1
INIT Init
NEXT Next
INVARIANT Closure
CHECK_DEADLOCK FALSE
