CONSTANT MaxLen = 3
INIT Init
NEXT Next
CHECK_DEADLOCK FALSE
