------------------------ MODULE VTLOperators_Trace ------------------------
(***************************************************************************)
(* Trace validation of recorded statement executions (binding B2, and the  *)
(* expected-value side of B1).  The trace file (IOEnv.TRACE_FILE) is a     *)
(* JSON array of independent units                                         *)
(*     [id, env, term, obs]                                                *)
(* where obs is what the implementation returned for `term` evaluated in   *)
(* `env`: a dataset {comps, rows}, a scalar {v, t} or {err: class}.        *)
(* One step of this spec consumes one unit: it evaluates the SAME EvalD    *)
(* that the generation models use and emits a verdict line.  A unit that   *)
(* matches exactly is accepted here; otherwise the expected value is       *)
(* emitted and the harness decides numeric closeness (TLC integers are 32  *)
(* bit; see DESIGN.md 3.1).  Chains of units run in parallel: each initial *)
(* state owns one chunk of the trace.                                      *)
(***************************************************************************)
EXTENDS VTLOperators, Json, IOUtils, TLCExt

Units == JsonDeserialize(IOEnv.TRACE_FILE)
ChunkSize == 50
VARIABLE l

ObsOf(o) == IF "comps" \in DOMAIN o THEN DS(o) ELSE o

Exact(exp, obs, cc) ==
    IF IsE(exp) THEN IsE(obs)
    ELSE IF IsE(obs) THEN FALSE
    ELSE IF IsDS(exp) THEN IsDS(obs) /\ exp.rows = obs.rows /\ (cc => exp.comps = obs.comps)
    ELSE IsSc(obs) /\ exp.v = obs.v /\ (cc => exp.t = obs.t)

Verdict(u) ==
    LET exp == EvalD(u.term, EnvOf(u.env))
        obs == ObsOf(u.obs)
    IN  IF Exact(exp, obs, u.cc) THEN [id |-> u.id, ok |-> TRUE]
        ELSE [id |-> u.id, ok |-> FALSE, exp |-> exp]

Init == l \in { i \in 1..Len(Units) : i % ChunkSize = 1 \/ ChunkSize = 1 }
Next == /\ l <= Len(Units)
        /\ PrintT("@@" \o ToJson(Verdict(Units[l])))
        /\ l' = IF l % ChunkSize = 0 THEN Len(Units) + 1 + l ELSE l + 1
=============================================================================
