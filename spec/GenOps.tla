------------------------------- MODULE GenOps -------------------------------
(***************************************************************************)
(* Generation model for the element-wise operators (C01, C29 reuse it).    *)
(*                                                                         *)
(* Input environments are "combination tables": for a left pool P and a    *)
(* right pool Q the datasets A and B hold, on identifier 10*i+j, the       *)
(* values P[i] and Q[j], so ONE statement A op B meets every pair of pool  *)
(* values (nulls, zero, negatives, fractions included); A and B also have  *)
(* an unmatched key each.  T is the same table with both values as two     *)
(* measures of one dataset (component level, inside calc / filter).        *)
(* A second family enumerates every key-overlap pattern of two datasets    *)
(* over the keys {1,2} and nested identifier sets.                         *)
(* Errors VTL defines (zero divisor, logarithm of a non-positive number)   *)
(* are ordinary transitions whose successor is the error outcome.          *)
(***************************************************************************)
EXTENDS VTLOperators, Json

CONSTANTS Depth, Family   \* Family: "num" | "bool" | "str" | "overlap"
          , MeA, MeB      \* names of the measure in A and in B (C29: case variants)

IntPool == <<Null, I(-3), I(0), I(2), I(7)>>
IntPoolNZ == <<Null, I(-3), I(2), I(7)>>
NumPool == <<Null, R(-5, 2), R(0, 1), R(3, 2), R(10, 1)>>
NumPoolNZ == <<Null, R(-5, 2), R(3, 2), R(10, 1)>>
PosPool == <<Null, R(1, 2), R(3, 2), R(10, 1)>>
BoolPool == <<Null, T, F>>
StrPool == <<Null, S(<<>>), S(<<97, 98>>), S(<<32, 97, 32>>), S(<<65, 98>>)>>

\* dataset with one measure `me` of type `t` holding pool value sel(i,j) on key 10*i+j, plus an unmatched key
Tab(me, t, P, Q, left, extra) ==
    [comps |-> { Comp("Id_1", "I", "Integer"), Comp(me, "M", t) },
     rows |-> { [x \in {"Id_1", me} |-> IF x = "Id_1" THEN I(10 * i + j) ELSE IF left THEN P[i] ELSE Q[j]]
                : i \in DOMAIN P, j \in DOMAIN Q }
              \cup { [x \in {"Id_1", me} |-> IF x = "Id_1" THEN I(extra) ELSE IF left THEN P[2] ELSE Q[2]] }]
\* both values as two measures of one dataset
Tab2(tl, tr, P, Q) ==
    [comps |-> { Comp("Id_1", "I", "Integer"), Comp("Me_1", "M", tl), Comp("Me_2", "M", tr) },
     rows |-> { [x \in {"Id_1", "Me_1", "Me_2"} |-> IF x = "Id_1" THEN I(10 * i + j) ELSE IF x = "Me_1" THEN P[i] ELSE Q[j]]
                : i \in DOMAIN P, j \in DOMAIN Q }]
Env3(tl, tr, P, Q) == [n \in {"A", "B", "T"} |->
                          IF n = "A" THEN Tab(MeA, tl, P, Q, TRUE, 900)
                          ELSE IF n = "B" THEN Tab(MeB, tr, P, Q, FALSE, 901)
                          ELSE Tab2(tl, tr, P, Q)]

NumEnvs == { Env3("Integer", "Integer", IntPool, IntPool), Env3("Integer", "Number", IntPool, NumPool),
             Env3("Number", "Integer", NumPool, IntPoolNZ), Env3("Number", "Number", NumPool, NumPoolNZ),
             Env3("Integer", "Integer", IntPool, IntPoolNZ), Env3("Number", "Number", PosPool, PosPool) }
BoolEnvs == { Env3("Boolean", "Boolean", BoolPool, BoolPool) }
StrEnvs == { Env3("String", "String", StrPool, StrPool) }

\* key-overlap family: every subset of keys {1,2} per operand; B optionally has a second identifier
Keys == {1, 2}
OvDS(me, ks, base, twoIds) ==
    [comps |-> { Comp("Id_1", "I", "Integer"), Comp(me, "M", "Integer") } \cup (IF twoIds THEN { Comp("Id_2", "I", "String") } ELSE {}),
     rows |-> IF twoIds
              THEN { [x \in {"Id_1", "Id_2", me} |-> IF x = "Id_1" THEN I(k) ELSE IF x = "Id_2" THEN S(<<96 + c>>) ELSE I(base + 10 * k + c)]
                     : k \in ks, c \in {1, 2} }
              ELSE { [x \in {"Id_1", me} |-> IF x = "Id_1" THEN I(k) ELSE I(base + k)] : k \in ks }]
OverlapEnvs == { [n \in {"A", "B"} |-> IF n = "A" THEN OvDS(MeA, ka, 100, FALSE) ELSE OvDS(MeB, kb, 200, two)]
                 : ka \in SUBSET Keys, kb \in SUBSET Keys, two \in BOOLEAN }

Inputs == CASE Family = "num" -> NumEnvs [] Family = "bool" -> BoolEnvs [] Family = "str" -> StrEnvs
            [] Family = "overlap" -> OverlapEnvs

V(n) == [k |-> "var", name |-> n]
C(v) == [k |-> "const", v |-> v]
Bn(op, l, r) == [k |-> "bin", op |-> op, l |-> l, r |-> r]
U1(op, x) == [k |-> "un", op |-> op, x |-> x]
FnT(op, args) == [k |-> "fn", op |-> op, args |-> args]
InT(neg, x, set) == [k |-> "in", neg |-> neg, x |-> x, set |-> set]
IfT(c, t, e) == [k |-> "if", c |-> c, t |-> t, e |-> e]
Calc1(ds, name, e) == [k |-> "clause", op |-> "calc", ds |-> ds, items |-> <<[name |-> name, role |-> "M", expr |-> e]>>]
Filt(ds, e) == [k |-> "clause", op |-> "filter", ds |-> ds, items |-> <<e>>]

Arith == {"+", "-", "*", "/"}
Compare == {"=", "<>", "<", "<=", ">", ">="}
NumUn == {"+", "-", "abs", "ceil", "floor", "ln", "exp", "sqrt", "isnull"}
NumScalars == { C(Null), C(I(0)), C(I(2)), C(R(3, 2)), C(I(-1)) }
IntScalars == { C(Null), C(I(0)), C(I(2)), C(I(-1)) }

\* the same operator at dataset, dataset-scalar, scalar-dataset and component level
Lifted(op, scalars) ==
    { Bn(op, V("A"), V("B")) }
    \cup { Bn(op, V("A"), s) : s \in scalars } \cup { Bn(op, s, V("B")) : s \in IF op = "nvl" THEN {} ELSE scalars }
    \cup { Calc1(V("T"), "Me_3", Bn(op, V("Me_1"), V("Me_2"))) }
    \cup { Calc1(V("T"), "Me_3", Bn(op, V("Me_1"), s)) : s \in scalars }
    \cup { Filt(V("T"), Bn(op, V("Me_1"), V("Me_2"))) : x \in IF op \in Compare \cup {"and", "or", "xor"} THEN {1} ELSE {} }

NumTerms ==
    UNION { Lifted(op, NumScalars) : op \in Arith \cup Compare \cup {"mod", "power", "log"} }
    \cup { Bn("nvl", V("A"), V("B")), Calc1(V("T"), "Me_3", Bn("nvl", V("Me_1"), V("Me_2"))), Bn("nvl", V("A"), C(Null)),
           Bn("nvl", V("A"), C(I(5))), Calc1(V("T"), "Me_3", Bn("nvl", V("Me_1"), C(I(5)))) }
    \cup { U1(op, V("A")) : op \in NumUn }
    \cup { Calc1(V("T"), "Me_3", U1(op, V("Me_1"))) : op \in NumUn }
    \cup { FnT(op, <<V("A"), C(d)>>) : op \in {"round", "trunc"}, d \in {Null, I(0), I(1), I(-1)} }
    \cup { Calc1(V("T"), "Me_3", FnT(op, <<V("Me_1"), C(d)>>)) : op \in {"round", "trunc"}, d \in {Null, I(1)} }
    \cup { FnT("between", <<V("A"), C(I(0)), C(I(5))>>), FnT("between", <<V("A"), C(Null), C(I(5))>>),
           Calc1(V("T"), "Me_3", FnT("between", <<V("Me_1"), C(I(-3)), V("Me_2")>>)) }
    \cup { InT(neg, V("A"), <<I(0), I(7), I(2)>>) : neg \in BOOLEAN }
    \cup { Calc1(V("T"), "Me_3", InT(neg, V("Me_1"), <<I(2), I(-3)>>)) : neg \in BOOLEAN }
    \cup { Calc1(V("T"), "Me_3", IfT(Bn(">", V("Me_1"), V("Me_2")), V("Me_1"), V("Me_2"))),
           Calc1(V("T"), "Me_3", IfT(U1("isnull", V("Me_1")), C(I(0)), Bn("+", V("Me_1"), C(I(1))))),
           Calc1(V("T"), "Me_3", [k |-> "case", whens |-> <<<<Bn("<", V("Me_1"), C(I(0))), C(I(-1))>>, <<Bn("=", V("Me_1"), C(I(0))), C(I(0))>>>>, else |-> C(I(1))]) }
BoolTerms ==
    UNION { Lifted(op, { C(Null), C(T), C(F) }) : op \in {"and", "or", "xor", "=", "<>"} }
    \cup { U1("not", V("A")), U1("isnull", V("A")), Calc1(V("T"), "Me_3", U1("not", V("Me_1"))),
           Filt(V("T"), V("Me_1")), Filt(V("T"), U1("not", V("Me_1"))),
           Calc1(V("T"), "Me_3", IfT(V("Me_1"), V("Me_2"), U1("not", V("Me_2")))) }
StrScalars == { C(Null), C(S(<<>>)), C(S(<<98>>)), C(S(<<97, 98>>)) }
StrUn == {"length", "trim", "ltrim", "rtrim", "upper", "lower", "isnull"}
StrTerms ==
    UNION { Lifted(op, StrScalars) : op \in {"||", "=", "<>", "<", ">=", "nvl"} }
    \cup { U1(op, V("A")) : op \in StrUn }
    \cup { Calc1(V("T"), "Me_3", U1(op, V("Me_1"))) : op \in StrUn }
    \cup { FnT("substr", <<V("A"), C(a), C(b)>>) : a \in {Null, I(1), I(2), I(5)}, b \in {Null, I(0), I(1), I(9)} }
    \cup { FnT("replace", <<V("A"), C(S(<<97>>)), C(w)>>) : w \in {Null, S(<<>>), S(<<122, 122>>)} }
    \cup { FnT("instr", <<V("A"), C(S(<<98>>)), C(a), C(b)>>) : a \in {Null, I(1), I(3)}, b \in {Null, I(1), I(2)} }
    \cup { Calc1(V("T"), "Me_3", FnT("substr", <<V("Me_1"), C(I(2)), C(I(1))>>)),
           Calc1(V("T"), "Me_3", FnT("replace", <<V("Me_1"), V("Me_2"), C(S(<<45>>))>>)),
           Calc1(V("T"), "Me_3", FnT("instr", <<V("Me_1"), V("Me_2"), C(Null), C(Null)>>)) }
    \cup { InT(neg, V("A"), <<S(<<97, 98>>), S(<<>>)>>) : neg \in BOOLEAN }
OverlapTerms == { Bn(op, V("A"), V("B")) : op \in {"+", "-", "*", "=", "<"} } \cup { Bn("+", V("B"), V("A")) }

\* second statement: operators applied to the first result (nesting by chaining)
Chain(e) == IF "R1" \in DOMAIN e /\ IsDS(e["R1"])
            THEN { U1("isnull", V("R1")) } \cup
                 (IF \E c \in e["R1"].comps : c.r = "M" /\ c.t \in {"Integer", "Number"}
                  THEN { U1("abs", V("R1")), Bn("*", V("R1"), C(I(2))), Bn(">", V("R1"), C(I(0))) } ELSE {}) \cup
                 (IF \E c \in e["R1"].comps : c.r = "M" /\ c.t = "Boolean" THEN { U1("not", V("R1")) } ELSE {})
            ELSE {}

\* nvl / if with operands of different numeric types are not generated here (typing of mixed branches: READINGS.md, C11)
IsNvl(t) == (t.k = "bin" /\ t.op = "nvl") \/ (t.k = "clause" /\ t.op = "calc" /\ t.items[1].expr.k \in {"bin", "if"}
                                               /\ (t.items[1].expr.k = "if" \/ t.items[1].expr.op = "nvl"))
Mixed(e) == TypeOfComp(e["A"], MeA) # TypeOfComp(e["B"], MeB)
Terms(e, d) == IF d > 0 THEN Chain(e)
               ELSE CASE Family = "num" -> IF Mixed(e) THEN { t \in NumTerms : ~IsNvl(t) } ELSE NumTerms [] Family = "bool" -> BoolTerms [] Family = "str" -> StrTerms
                      [] Family = "overlap" -> OverlapTerms

VARIABLES env, depth, outcome
M == INSTANCE VTLMachine WITH InputEnvs <- Inputs, TermsOf <- Terms, MaxDepth <- Depth
Init == M!Init
Next == M!Next
Closure == M!Closure
KleeneTable == \A row \in KleeneRows : Bin(row[1], row[2], row[3]) = row[4]
=============================================================================
