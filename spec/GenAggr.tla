------------------------------- MODULE GenAggr -------------------------------
(***************************************************************************)
(* Generation model for aggregations (C03): the ten aggregate operators,   *)
(* standalone (group by / group except / no grouping, optional having) and *)
(* inside the aggr clause, over datasets with three identifiers whose      *)
(* non-grouped identifier repeats within the groups, with null measures,   *)
(* an all-null group, a single-datapoint group and the empty dataset.      *)
(***************************************************************************)
EXTENDS VTLOperators, Json

Row(i1, i2, i3, m1, m2) == [x \in {"Id_1", "Id_2", "Id_3", "Me_1", "Me_2"} |->
    CASE x = "Id_1" -> I(i1) [] x = "Id_2" -> S(<<i2>>) [] x = "Id_3" -> I(i3) [] x = "Me_1" -> m1 [] OTHER -> m2]
Comps0 == { Comp("Id_1", "I", "Integer"), Comp("Id_2", "I", "String"), Comp("Id_3", "I", "Integer"),
            Comp("Me_1", "M", "Integer"), Comp("Me_2", "M", "Number") }
D0 == [comps |-> Comps0,
       rows |-> { Row(1, 97, 1, I(2), R(1, 2)), Row(1, 97, 2, I(5), R(-3, 2)), Row(1, 97, 3, Null, R(5, 2)),
                  Row(1, 98, 1, I(-1), Null), Row(1, 98, 2, I(0), R(7, 1)),
                  Row(2, 97, 1, Null, Null), Row(2, 97, 2, Null, R(1, 4)),
                  Row(2, 98, 3, I(5), R(10, 1)) }]
D1 == [comps |-> Comps0, rows |-> {}]
D2 == [comps |-> Comps0, rows |-> { Row(1, 97, 1, I(4), R(1, 2)), Row(1, 97, 2, I(4), R(1, 2)), Row(1, 97, 3, I(1), R(3, 1)), Row(1, 98, 1, I(7), R(0, 1)) }]
Mono(d) == [comps |-> { c \in d.comps : c.n # "Me_2" }, rows |-> { Rst(r, AllNames(d) \ {"Me_2"}) : r \in d.rows }]
Inputs == { [n \in {"D", "K"} |-> IF n = "D" THEN d ELSE Mono(d)] : d \in {D0, D1, D2} }

V(n) == [k |-> "var", name |-> n]
C(v) == [k |-> "const", v |-> v]
Bn(op, l, r) == [k |-> "bin", op |-> op, l |-> l, r |-> r]
AggOps == {"sum", "avg", "count", "min", "max", "median", "stddev_pop", "stddev_samp", "var_pop", "var_samp"}
None == [k |-> "none"]
AggT(op, x) == [k |-> "agg", op |-> op, x |-> x]
Groupings == { <<"none", <<>>>>, <<"by", <<"Id_1">>>>, <<"by", <<"Id_1", "Id_2">>>>, <<"except", <<"Id_3">>>>, <<"except", <<"Id_2", "Id_3">>>>,
               <<"by", <<"Id_3">>>> }
Havings == { <<>>, <<Bn(">", AggT("count", None), C(I(1)))>>, <<Bn(">", AggT("sum", V("Me_1")), C(I(3)))>>,
             <<Bn(">=", AggT("max", V("Me_1")), C(I(5)))>> }
\* standalone aggregates with a having clause are applied to the mono-measure dataset K (the engine supports having only there)
AggD(op, g, h) == [k |-> "agg", op |-> op, x |-> IF h = <<>> THEN V("D") ELSE V("K"), mode |-> g[1], group |-> g[2], having |-> h]
AggrCl(items, g, h) == [k |-> "clause", op |-> "aggr", ds |-> V("D"), items |-> items, mode |-> g[1], group |-> g[2], having |-> h]
Item(n, r, a) == [name |-> n, role |-> r, agg |-> a]

Terms(e, d) ==
    UNION { { AggD(op, g, h) : op \in AggOps, h \in { x \in Havings : g[1] # "none" \/ x = <<>> } } : g \in Groupings }
    \cup { AggrCl(<<Item("Me_9", "M", AggT(op, V("Me_1")))>>, g, h) : op \in AggOps, g \in Groupings \ {<<"none", <<>>>>}, h \in { <<>>, <<Bn(">", AggT("count", None), C(I(1)))>> } }
    \cup { AggrCl(<<Item("Me_9", "M", AggT(op, V("Me_2"))), Item("Me_8", "M", AggT("count", None))>>, g, <<>>) : op \in AggOps, g \in {<<"by", <<"Id_1">>>>, <<"except", <<"Id_3">>>>} }
    \cup { AggrCl(<<Item("Me_1", "M", AggT("sum", Bn("*", V("Me_1"), C(I(2))))), Item("At_9", "A", AggT("max", V("Me_2")))>>, g, <<>>) : g \in {<<"by", <<"Id_2">>>>} }

VARIABLES env, depth, outcome
M == INSTANCE VTLMachine WITH InputEnvs <- Inputs, TermsOf <- Terms, MaxDepth <- 1
Init == M!Init
Next == M!Next
Closure == M!Closure
=============================================================================
