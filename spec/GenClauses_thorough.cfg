CONSTANTS
  ChainLen = 3
INIT Init
NEXT Next
INVARIANT Closure
INVARIANT FilterTrueIsId
CHECK_DEADLOCK FALSE
