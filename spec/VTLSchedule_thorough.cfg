CONSTANTS
  MaxStmts = 4
  NInputs = 2
SPECIFICATION Spec
INVARIANT Refines
INVARIANT ResultSelection
PROPERTY StoreSafety
PROPERTY NoResurrection
CHECK_DEADLOCK FALSE
