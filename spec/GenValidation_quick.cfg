CONSTANT Deep = FALSE
INIT Init
NEXT Next
INVARIANT InvalidSubsetOfAll
INVARIANT ErrorsOnlyWhereFalse
INVARIANT ImbalanceIsDifference
CHECK_DEADLOCK FALSE
