CONSTANTS
  N = 4
  NInputs = 1
  AllPerms = FALSE
SPECIFICATION Spec
INVARIANT Confluence
INVARIANT Completion
CHECK_DEADLOCK FALSE
