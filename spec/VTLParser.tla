----------------------------- MODULE VTLParser -----------------------------
(***************************************************************************)
(* The parser as a service with process-global state (C23).                *)
(*                                                                         *)
(* The shipped parser keeps the result of the LAST parse in global state   *)
(* (tree, syntax error, comments); create_ast reads it back right after    *)
(* parsing.  A call is: Parse(t) overwrites the state, Read() turns it     *)
(* into the outcome of the call.  Texts are abstract: "good" texts have a  *)
(* tree, "bad" texts a syntax error at a position inside the text.         *)
(* HistoryFree: the outcome of a text is the same after every history.     *)
(* Overwrites = FALSE models a parser that leaves the previous error (or   *)
(* comments) in place when the next parse succeeds: TLC refutes it.        *)
(***************************************************************************)
EXTENDS Integers, Sequences, TLC

CONSTANTS Good, Bad,       \* sets of texts
          Overwrites       \* every parse overwrites every field of the global state

Texts == Good \cup Bad
NoErr == "none"
VARIABLES tree, err, comments, last, outcome
vars == <<tree, err, comments, last, outcome>>

Init == tree = "none" /\ err = NoErr /\ comments = "none" /\ last = "none" /\ outcome = <<"none", "none", "none">>

\* what the call on text t must return, whatever happened before
Expected(t) == IF t \in Good THEN <<"ast", t, t>> ELSE <<"syntax-error", t, "none">>

Call(t) ==
    LET tree2 == IF t \in Good THEN t ELSE "partial"
        err2 == IF t \in Bad THEN t ELSE (IF Overwrites THEN NoErr ELSE err)
        com2 == IF t \in Good \/ Overwrites THEN t ELSE comments
    IN  /\ tree' = tree2 /\ err' = err2 /\ comments' = com2
        /\ last' = t
        \* create_ast: a pending error wins, else the tree (with the comments of the parse)
        /\ outcome' = IF err2 # NoErr THEN <<"syntax-error", err2, "none">> ELSE <<"ast", tree2, com2>>

Next == \E t \in Texts : Call(t)
Spec == Init /\ [][Next]_vars

HistoryFree == last # "none" => outcome = Expected(last)
OutcomeAlphabet == outcome[1] \in {"none", "ast", "syntax-error"}
=============================================================================
