-------------------------- MODULE VTLRandom_Trace --------------------------
(***************************************************************************)
(* Trace validation for VTLRandom: a unit is the sequence of points        *)
(* (seed, index, value) observed in ALL statements and repeated runs of    *)
(* one script; one verdict per unit.                                       *)
(***************************************************************************)
EXTENDS VTLRandom, Json, IOUtils, TLCExt

Units == JsonDeserialize(IOEnv.TRACE_FILE)
VARIABLE l
Verdict(u) == [id |-> u.id] @@ Walk(u.pts, 1, << >>)
TInit == l \in 1..Len(Units) /\ Init
TNext == /\ l <= Len(Units)
         /\ PrintT("@@" \o ToJson(Verdict(Units[l])))
         /\ l' = Len(Units) + 1 + l
         /\ UNCHANGED <<memo, n>>
=============================================================================
