---------------------------- MODULE GenCalendar ----------------------------
(***************************************************************************)
(* Generation model over VTLCalendar: for every requested year (request    *)
(* file IOEnv.CAL_FILE: years, shifts, targets) TLC checks the calendar    *)
(* theorems (W53 / D366 exist exactly when the calendar has them, shifting *)
(* by k and by -k is the identity, shifting is injective) and emits the    *)
(* expected value of every point: period tables, shifted periods, time_agg *)
(* targets, period spans and the fields of every date.  The harness        *)
(* replays the points against the engine in bulk (C08, C21, C09).          *)
(***************************************************************************)
EXTENDS VTLCalendar, Json, IOUtils, SequencesExt

Req == JsonDeserialize(IOEnv.CAL_FILE)
Years == Req.years
Shifts == Req.shifts
IndSeq == <<"A", "S", "Q", "M", "W", "D">>
PeriodsOf(i, y) == [n \in 1..PeriodsInYear(i, y) |-> <<y, i, n>>]
YN(p) == <<p[1], p[3]>>

\* boundary days of a year: first, 28th.. last day of every month, and the days around the ISO week-year boundary
Boundary(y) == SetToSortSeq(UNION { { Ord(y, m, d) : d \in { x \in {1, 15, 28, 29, 30, 31} : x <= DaysInMonth(y, m) } } : m \in 1..12 }, <)

\* the day counts whose duration conversions are emitted with year y: 60 consecutive ones, so that the years
\* 1900..2100 cover 0..12059 without a gap
DurDays(y) == IF y >= 1900 THEN ((y - 1900) * 60)..((y - 1900) * 60 + 59) ELSE {}

\* the theorems, per year
RoundTrip(y) == \A a \in DOMAIN IndSeq : \A n \in 1..PeriodsInYear(IndSeq[a], y) : \A s \in DOMAIN Shifts :
                   LET p == <<y, IndSeq[a], n>> q == ShiftPeriod(p, Shifts[s])
                   IN  ValidPeriod(q) /\ ShiftPeriod(q, -Shifts[s]) = p
YearOk(y) == W53Iff(y) /\ D366Iff(y) /\ IsoWeeksRange(y) /\ RoundTrip(y)
         /\ Ord(y, 12, 31) - Ord(y, 1, 1) + 1 = DaysInYear(y)
         /\ \A n \in DurDays(y) : DurationRoundTrip(n)
         /\ \A o \in {Ord(y, 1, 1), Ord(y, 2, 28), Ord(y, 3, 1), Ord(y, 12, 31)} :
               Ord(YearOf(o), MonthOf(o), DayOfMonth(o)) = o /\ PeriodStart(PeriodOfDate(o, "W")) <= o /\ o <= PeriodEnd(PeriodOfDate(o, "W"))

EmitYear(y) ==
    /\ PrintT("@@" \o ToJson([k |-> "year", y |-> y, leap |-> IsLeap(y), weeks |-> IsoWeeksInYear(y), ok |-> YearOk(y),
                              jan1 |-> Ord(y, 1, 1), wd |-> Weekday(Ord(y, 1, 1))]))
    /\ \A a \in DOMAIN IndSeq :
         LET i == IndSeq[a] ps == PeriodsOf(i, y) IN
         /\ PrintT("@@" \o ToJson([k |-> "span", i |-> i, y |-> y, r |-> [n \in DOMAIN ps |-> IntervalOf(ps[n])]]))
         /\ \A s \in DOMAIN Shifts :
               PrintT("@@" \o ToJson([k |-> "shift", i |-> i, y |-> y, s |-> Shifts[s], r |-> [n \in DOMAIN ps |-> YN(ShiftPeriod(ps[n], Shifts[s]))]]))
         /\ \A t \in DOMAIN IndSeq :
               PrintT("@@" \o ToJson([k |-> "agg", i |-> i, y |-> y, t |-> IndSeq[t],
                                      r |-> [n \in DOMAIN ps |-> LET q == TimeAggPeriod(ps[n], IndSeq[t]) IN <<q[1], q[2], q[3]>>]]))
    /\ IF Req.days
       THEN \A t \in DOMAIN IndSeq :
              PrintT("@@" \o ToJson([k |-> "pod", y |-> y, t |-> IndSeq[t],
                  r |-> [d \in 1..DaysInYear(y) |-> YN(PeriodOfDate(DaysBeforeYear(y) + d, IndSeq[t]))]]))
       ELSE TRUE
    /\ \A u \in DOMAIN IndSeq : \A a \in DOMAIN Req.amounts :
          PrintT("@@" \o ToJson([k |-> "dateadd", y |-> y, u |-> IndSeq[u], n |-> Req.amounts[a],
              r |-> [b \in DOMAIN Boundary(y) |-> <<Boundary(y)[b], DateAdd(Boundary(y)[b], Req.amounts[a], IndSeq[u])>>]]))
    /\ PrintT("@@" \o ToJson([k |-> "dur", y |-> y,
            r |-> [j \in 1..Cardinality(DurDays(y)) |-> LET n == (y - 1900) * 60 + j - 1
                                                       IN <<n, DayToYear(n)[1], DayToYear(n)[2], DayToMonth(n)[1], DayToMonth(n)[2]>>]]))
    /\ IF Req.days
       THEN PrintT("@@" \o ToJson([k |-> "days", y |-> y,
                r |-> [d \in 1..DaysInYear(y) |-> LET o == DaysBeforeYear(y) + d
                                                  IN <<MonthOf(o), DayOfMonth(o), Weekday(o), IsoYearOf(o), IsoWeekOf(o)>>]]))
       ELSE TRUE

ChunkSize == Req.chunk
VARIABLE l
Init == l \in { i \in 1..Len(Years) : i % ChunkSize = 1 \/ ChunkSize = 1 }
Next == /\ l <= Len(Years)
        /\ EmitYear(Years[l])
        /\ l' = IF l % ChunkSize = 0 THEN Len(Years) + 1 + l ELSE l + 1
AllYearsOk == l <= Len(Years) => YearOk(Years[l])
=============================================================================
