----------------------------- MODULE GenFormats -----------------------------
(***************************************************************************)
(* Generation model over VTLFormats (Time_Period part, C21): for every     *)
(* requested year, every indicator and every period number TLC checks the  *)
(* round-trip theorems and emits, per period, the text of EVERY documented *)
(* input form and the rendered text in the four output formats ("NE" where *)
(* the format cannot express the indicator).  Request: IOEnv.FMT_FILE      *)
(* {years, chunk, invalid}; with invalid = TRUE the out-of-range numbers   *)
(* one past the last period of each indicator are emitted too (must be     *)
(* rejected on input).                                                     *)
(***************************************************************************)
EXTENDS VTLFormats, Json, IOUtils, SequencesExt

Req == JsonDeserialize(IOEnv.FMT_FILE)
Years == Req.years
IndSeq == <<"A", "S", "Q", "M", "W", "D">>
FmtSeq == <<"vtl", "sdmx_reporting", "sdmx_gregorian", "natural">>
D(f, y, i, n) == [form |-> f, y |-> y, i |-> i, n |-> n]
OutText(p, fmt) == LET r == Render(p, fmt) IN IF r = NotExpressible THEN "NE" ELSE PeriodText(r)
Forms(i) == CASE i = "A" -> <<"YYYY", "YYYYA", "YYYY-A1">>
              [] i = "S" -> <<"YYYYSx", "YYYY-Sx">>
              [] i = "Q" -> <<"YYYYQx", "YYYY-Qx">>
              [] i = "M" -> <<"YYYYMm", "YYYYMmm", "YYYY-MM", "YYYY-M", "YYYY-Mxx", "YYYY-Mx">>
              [] i = "W" -> <<"YYYYWw", "YYYYWww", "YYYY-Wxx">>
              [] i = "D" -> <<"YYYYDd", "YYYYDdd", "YYYYDddd", "YYYY-Dx", "YYYY-Dxx", "YYYY-Dxxx", "YYYY-MM-DD">>
FormsComplete == \A a \in DOMAIN IndSeq : { Forms(IndSeq[a])[k] : k \in DOMAIN Forms(IndSeq[a]) } = PeriodForms(IndSeq[a])

YearOk(y) == \A a \in DOMAIN IndSeq : \A n \in 1..PeriodsInYear(IndSeq[a], y) :
                LET p == <<y, IndSeq[a], n>> IN RoundTrip(p) /\ AllFormsAgree(p) /\ GregorianExpressible(p)

EmitYear(y) ==
    /\ \A a \in DOMAIN IndSeq :
         LET i == IndSeq[a] IN
         PrintT("@@" \o ToJson([k |-> "period", y |-> y, i |-> i, ok |-> YearOk(y),
             r |-> [n \in 1..PeriodsInYear(i, y) |->
                      [inp |-> [f \in DOMAIN Forms(i) |-> PeriodText(D(Forms(i)[f], y, i, n))],
                       out |-> [f \in DOMAIN FmtSeq |-> OutText(<<y, i, n>>, FmtSeq[f])]]]]))
    /\ IF Req.invalid
       THEN \A a \in DOMAIN IndSeq :
              LET i == IndSeq[a] bad == PeriodsInYear(i, y) + 1 IN
              PrintT("@@" \o ToJson([k |-> "invalid", y |-> y, i |-> i,
                  r |-> [f \in DOMAIN Forms(i) |-> IF Forms(i)[f] \in {"YYYY", "YYYYA", "YYYY-A1", "YYYY-MM-DD"} THEN "" ELSE PeriodText(D(Forms(i)[f], y, i, bad))],
                  zero |-> [f \in DOMAIN Forms(i) |-> IF Forms(i)[f] \in {"YYYY", "YYYYA", "YYYY-A1", "YYYY-MM-DD"} THEN "" ELSE PeriodText(D(Forms(i)[f], y, i, 0))]]))
       ELSE TRUE

ChunkSize == Req.chunk
VARIABLE l
Init == l \in { i \in 1..Len(Years) : i % ChunkSize = 1 \/ ChunkSize = 1 }
Next == /\ l <= Len(Years)
        /\ EmitYear(Years[l])
        /\ l' = IF l % ChunkSize = 0 THEN Len(Years) + 1 + l ELSE l + 1
AllYearsOk == FormsComplete /\ (l <= Len(Years) => YearOk(Years[l]))
=============================================================================
