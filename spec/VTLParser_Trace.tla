-------------------------- MODULE VTLParser_Trace --------------------------
(***************************************************************************)
(* Trace validation for C23: a recorded sequence of create_ast calls is a  *)
(* behaviour of VTLParser (Overwrites = TRUE) iff every call's outcome is   *)
(* the outcome the same text has in the reference history (the text parsed *)
(* first, in a fresh process), is in the outcome alphabet (an AST or a VTL  *)
(* error, never a raw exception) and a syntax error lies inside the text.   *)
(* One verdict per call.                                                   *)
(***************************************************************************)
EXTENDS Integers, Sequences, TLC, Json, IOUtils, TLCExt

Calls == JsonDeserialize(IOEnv.TRACE_FILE)
\* c = [id, kind, digest, line, col, nlines, width (length of the line of the error, 0 beyond the text), ref_kind, ref_digest]
Verdict(c) ==
    LET why == IF c.kind \notin {"ast", "syntax-error", "vtl-error"} THEN "outcome outside the alphabet (raw exception)"
               ELSE IF c.kind # c.ref_kind \/ c.digest # c.ref_digest THEN "the outcome depends on what was parsed before"
               ELSE IF c.kind = "syntax-error" /\ ~(c.line >= 1 /\ c.line <= c.nlines + 1 /\ c.col >= 1 /\ c.col <= c.width + 1)
                    THEN "the reported position lies outside the text"
               ELSE ""
    IN  [id |-> c.id, ok |-> why = "", why |-> why]
ChunkSize == 200
VARIABLE l
Init == l \in { i \in 1..Len(Calls) : i % ChunkSize = 1 \/ ChunkSize = 1 }
Next == /\ l <= Len(Calls)
        /\ PrintT("@@" \o ToJson(Verdict(Calls[l])))
        /\ l' = IF l % ChunkSize = 0 THEN Len(Calls) + 1 + l ELSE l + 1
=============================================================================
