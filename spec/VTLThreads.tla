----------------------------- MODULE VTLThreads -----------------------------
(***************************************************************************)
(* API calls made concurrently from several threads of one process (C17).  *)
(*                                                                         *)
(* A call is a PROGRAM: the sequence of the engine's shared-state access   *)
(* points it passes (recorded from the call executed alone).  A step of    *)
(* call c at point p executes the code from p to c's next point:           *)
(*   parse.enter / parsec.enter   acquire (one more level of) the          *)
(*                                re-entrant parser lock                   *)
(*   ... .exit                    reached after one level was released     *)
(*   registry.set / registry.get  install / read the viral rule registry   *)
(*   vc.reset / vc.new            reset / read-and-increment the counters   *)
(*                                of virtual names                         *)
(*   dsout.set / dsout.clear      the result name quoted in error messages; *)
(*                                read when the call ends in an error       *)
(*   tp.set                       the Time_Period representation (never    *)
(*                                read by a reachable path: global cell)   *)
(* Shared = TRUE is the design in which that state is process-global,      *)
(* Shared = FALSE the one in which every thread has its own copy.          *)
(* Isolation: every value a call reads was written by the call itself.     *)
(***************************************************************************)
EXTENDS Integers, Sequences, FiniteSets, TLC

CONSTANTS Programs,     \* call -> sequence of [p: point, err: the call ends in an error after this point]
          Shared

Calls == DOMAIN Programs
Enter == {"parse.enter", "parsec.enter"}
Exit == {"parse.exit", "parsec.exit"}
Inside == {"parse.parsed", "parse.enter"}
CellOf(p) == CASE p \in {"registry.set", "registry.get"} -> "reg"
               [] p \in {"vc.reset", "vc.new"} -> "vc"
               [] p \in {"dsout.set", "dsout.clear"} -> "dsout"
               [] p = "tp.set" -> "tp"
               [] OTHER -> "none"
Writes(p) == p \in {"registry.set", "vc.reset", "vc.new", "dsout.set", "dsout.clear", "tp.set"}
Reads(p) == p \in {"registry.get", "vc.new"}
Cells == {"reg", "vc", "dsout", "tp"}
Copy(c, x) == IF Shared \/ x = "tp" THEN "global" ELSE c

VARIABLES pc, holder, depth, cell, foreign
vars == <<pc, holder, depth, cell, foreign>>

Init == /\ pc = [c \in Calls |-> 1]
        /\ holder = "none" /\ depth = 0
        /\ cell = [k \in (Calls \cup {"global"}) \X Cells |-> "init"]      \* owner of the value in each copy of each cell
        /\ foreign = {}                                                    \* <<reader, cell, writer>> of every read of another call's value

Done(c) == pc[c] > Len(Programs[c])
NextPoint(c) == IF pc[c] < Len(Programs[c]) THEN Programs[c][pc[c] + 1].p ELSE "end"

Step(c) ==
    LET op == Programs[c][pc[c]]
        p == op.p
        x == CellOf(p)
        k == <<Copy(c, x), x>>
        rd == IF Reads(p) /\ cell[k] \notin {c, "init"} THEN {<<c, x, cell[k]>>} ELSE {}
        \* a call that ends in an error quotes the current result name
        rdErr == IF op.err /\ cell[<<Copy(c, "dsout"), "dsout">>] \notin {c, "init"} THEN {<<c, "dsout", cell[<<Copy(c, "dsout"), "dsout">>]>>} ELSE {}
        d1 == IF p \in Enter THEN depth + 1 ELSE depth
        nxt == NextPoint(c)
        d2 == IF holder = c \/ p \in Enter
              THEN (IF nxt \in Exit THEN d1 - 1 ELSE IF nxt \in Inside THEN d1 ELSE 0)
              ELSE d1
    IN  /\ ~Done(c)
        /\ (p \in Enter => holder \in {"none", c})
        /\ pc' = [pc EXCEPT ![c] = @ + 1]
        /\ cell' = IF Writes(p) THEN [cell EXCEPT ![k] = c] ELSE cell
        /\ foreign' = foreign \cup rd \cup rdErr
        /\ IF holder = c \/ p \in Enter
           THEN /\ depth' = d2
                /\ holder' = IF d2 <= 0 THEN "none" ELSE c
           ELSE UNCHANGED <<holder, depth>>

Next == \E c \in Calls : Step(c)
Spec == Init /\ [][Next]_vars /\ WF_vars(Next)

(* properties *)
Isolation == foreign = {}
LockConsistent == (holder = "none") = (depth = 0)
\* no call waits for ever: whenever some call has not finished, some step is enabled
Progress == (\E c \in Calls : ~Done(c)) => ENABLED Next
Termination == <>(\A c \in Calls : Done(c))
=============================================================================
