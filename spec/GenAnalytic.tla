----------------------------- MODULE GenAnalytic -----------------------------
(***************************************************************************)
(* Generation model for the analytic functions (C06): a dataset with a     *)
(* partition of five datapoints (one null measure) and a partition of one; *)
(* EVERY frame shape (rows and range, bounds unbounded / 0-3 preceding /   *)
(* current / 0-3 following, lower bound not above the upper one) x every   *)
(* windowed function x both directions, lag / lead with offsets 0-3 and a  *)
(* default, rank, ratio_to_report; inside calc and at dataset level.       *)
(***************************************************************************)
EXTENDS VTLOperators, Json

CONSTANTS Level     \* "calc" | "ds" | "both"

Row(a, b, m, w) == [x \in {"Id_1", "Id_2", "Me_1", "Me_2"} |-> CASE x = "Id_1" -> I(a) [] x = "Id_2" -> I(b) [] x = "Me_1" -> m [] OTHER -> I(w)]
CompsD == { Comp("Id_1", "I", "Integer"), Comp("Id_2", "I", "Integer"), Comp("Me_1", "M", "Integer"), Comp("Me_2", "M", "Integer") }
D0 == [comps |-> CompsD,
       rows |-> { Row(1, 1, I(10), 7), Row(1, 2, Null, 3), Row(1, 4, I(-4), 9), Row(1, 5, I(40), 1), Row(1, 7, I(0), 5), Row(2, 3, I(6), 2) }]
Inputs == { [n \in {"D"} |-> D0] }

V(n) == [k |-> "var", name |-> n]
None == [k |-> "none"]
Bd(n, d) == [n |-> n, d |-> d]
Bounds == { Bd(-1, "preceding"), Bd(3, "preceding"), Bd(2, "preceding"), Bd(1, "preceding"), Bd(0, "current"),
            Bd(1, "following"), Bd(2, "following"), Bd(3, "following"), Bd(-1, "following") }
Pos(b) == IF b.d = "current" THEN 0 ELSE IF b.n = -1 THEN (IF b.d = "preceding" THEN -100 ELSE 100) ELSE IF b.d = "preceding" THEN -b.n ELSE b.n
Frames == { <<[kind |-> k, lo |-> lo, hi |-> hi]>> : k \in {"rows", "range"},
            lo \in { b \in Bounds : ~(b.n = -1 /\ b.d = "following") }, hi \in { b \in Bounds : ~(b.n = -1 /\ b.d = "preceding") } }
GoodFrames == { f \in Frames : Pos(f[1].lo) <= Pos(f[1].hi) }
Windowed == {"sum", "avg", "count", "min", "max", "median", "stddev_pop", "stddev_samp", "var_pop", "var_samp", "first_value", "last_value"}
An(op, x, part, order, frame, params) == [k |-> "an", op |-> op, x |-> x, part |-> part, order |-> order, frame |-> frame, params |-> params]
Core(x) ==
    { An(op, x, <<"Id_1">>, <<<<"Id_2", dir>>>>, f, <<>>) : op \in Windowed, dir \in {"asc", "desc"}, f \in GoodFrames }
    \cup { An(op, x, <<"Id_1">>, <<<<"Id_2", dir>>>>, <<>>, ps) : op \in {"lag", "lead"}, dir \in {"asc", "desc"},
           ps \in { <<I(0)>>, <<I(1)>>, <<I(2)>>, <<I(3)>>, <<I(1), I(99)>>, <<I(3), I(99)>> } }
    \cup { An("ratio_to_report", x, p, <<>>, <<>>, <<>>) : p \in {<<"Id_1">>, <<"Id_2">>} }
    \* no partition: total order over both identifiers
    \cup { An(op, x, <<>>, <<<<"Id_1", "asc">>, <<"Id_2", "desc">>>>, f, <<>>) : op \in {"sum", "count", "first_value", "last_value"},
           f \in { g \in GoodFrames : g[1].kind = "rows" /\ g[1].lo.n \in {-1, 1, 0} /\ g[1].hi.n \in {-1, 1, 0} } }
CalcT(an) == [k |-> "clause", op |-> "calc", ds |-> V("D"), items |-> <<[name |-> "An_1", role |-> "M", expr |-> an]>>]
Terms(e, d) ==
    (IF Level \in {"calc", "both"}
     THEN { CalcT(a) : a \in Core(V("Me_1")) }
          \cup { CalcT(An("rank", None, <<"Id_1">>, <<<<"Id_2", dir>>>>, <<>>, <<>>)) : dir \in {"asc", "desc"} }
          \cup { CalcT(An("rank", None, <<>>, <<<<"Me_2", dir>>>>, <<>>, <<>>)) : dir \in {"asc", "desc"} }
     ELSE {})
    \cup (IF Level \in {"ds", "both"} THEN { a \in Core(V("D")) : a.op # "count" } ELSE {})

VARIABLES env, depth, outcome
M == INSTANCE VTLMachine WITH InputEnvs <- Inputs, TermsOf <- Terms, MaxDepth <- 1
Init == M!Init
Next == M!Next
Closure == M!Closure
=============================================================================
