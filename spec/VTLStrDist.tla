----------------------------- MODULE VTLStrDist -----------------------------
(***************************************************************************)
(* string_distance(method, s1, s2) for the methods with an exact meaning:  *)
(* levenshtein (insert / delete / substitute one CHARACTER),               *)
(* damerau_levenshtein in its optimal-string-alignment form (adjacent      *)
(* transposition as one more edit; no substring edited twice) and hamming  *)
(* (positions that differ; defined for strings of equal length only - a    *)
(* VTL error otherwise).  Strings are sequences of code points (VTLValues, *)
(* tag 4): the unit of an edit is a character, not a byte of an encoding.  *)
(* jaro_winkler is a ratio and not modelled (numeric accuracy).            *)
(* The result is a Number (engine reading, READINGS 30).                   *)
(***************************************************************************)
EXTENDS VTLValues

Min2(x, y) == IF x < y THEN x ELSE y
Min3(x, y, z) == Min2(x, Min2(y, z))

\* one row of the edit-distance table.  prev = row i-1, pp = row i-2 (<< >> when there is none), both as
\* sequences over j = 0..Len(b) stored at index j+1; osa switches the transposition case on
RECURSIVE BuildRow(_, _, _, _, _, _, _, _)
BuildRow(a, b, i, j, prev, pp, osa, acc) ==
    IF j > Len(b) THEN acc
    ELSE LET cost == IF a[i] = b[j] THEN 0 ELSE 1
             base == Min3(prev[j + 1] + 1, acc[j] + 1, prev[j] + cost)
             v == IF osa /\ i > 1 /\ j > 1 /\ a[i] = b[j - 1] /\ a[i - 1] = b[j]
                  THEN Min2(base, pp[j - 1] + 1) ELSE base
         IN  BuildRow(a, b, i, j + 1, prev, pp, osa, Append(acc, v))

RECURSIVE Rows(_, _, _, _, _, _)
Rows(a, b, i, prev, pp, osa) ==
    IF i > Len(a) THEN prev[Len(b) + 1]
    ELSE Rows(a, b, i + 1, BuildRow(a, b, i, 1, prev, pp, osa, <<i>>), prev, osa)

Row0(b) == [j \in 1..(Len(b) + 1) |-> j - 1]
Levenshtein(a, b) == Rows(a, b, 1, Row0(b), << >>, FALSE)
OSA(a, b) == Rows(a, b, 1, Row0(b), << >>, TRUE)
Hamming(a, b) == Cardinality({ i \in 1..Len(a) : a[i] # b[i] })

Num(n) == <<2, <<n, 1>>>>
StrDist(m, x, y) ==
    Strict2(x, y, LAMBDA p, q :
        CASE m = "levenshtein" -> Num(Levenshtein(p[2], q[2]))
          [] m = "damerau_levenshtein" -> Num(OSA(p[2], q[2]))
          [] m = "hamming" -> IF Len(p[2]) # Len(q[2]) THEN Err("hamming-length") ELSE Num(Hamming(p[2], q[2])))

\* what makes them distances (checked by TLC over the whole pool in GenStrDist)
Metric(PP) == \A a, b \in PP :
                /\ Levenshtein(a, b) = Levenshtein(b, a) /\ OSA(a, b) = OSA(b, a)
                /\ (Levenshtein(a, b) = 0) = (a = b)
                /\ OSA(a, b) <= Levenshtein(a, b)
                /\ Levenshtein(a, b) >= (IF Len(a) > Len(b) THEN Len(a) - Len(b) ELSE Len(b) - Len(a))
                /\ Levenshtein(a, b) <= (IF Len(a) > Len(b) THEN Len(a) ELSE Len(b))
                /\ (Len(a) = Len(b) => Levenshtein(a, b) <= Hamming(a, b))
Triangle(PP) == \A a, b, c \in PP : Levenshtein(a, c) <= Levenshtein(a, b) + Levenshtein(b, c)
=============================================================================
