CONSTANTS
  Level = "both"
INIT Init
NEXT Next
INVARIANT Closure
CHECK_DEADLOCK FALSE
