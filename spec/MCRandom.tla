------------------------------ MODULE MCRandom ------------------------------
(***************************************************************************)
(* Self-check of VTLRandom on a small domain: for EVERY sequence of up to  *)
(* 3 points over a pool (two seeds and null, two indices, two values and   *)
(* null, one out-of-range value) the total verdict Walk agrees with the    *)
(* machine: the machine consumes exactly the prefix Walk accepts.          *)
(***************************************************************************)
EXTENDS VTLRandom

Pool == { [t |-> "Integer", seed |-> s, idx |-> i, v |-> v, src |-> "column"] :
            s \in {Null, I(1), I(2)}, i \in {I(0), I(3)}, v \in {Null, I(5), I(7), I(Scale)} }
VARIABLE pts
MCInit == pts \in UNION { [1..k -> Pool] : k \in 1..3 } /\ Init
MCNext == Observe(pts) /\ UNCHANGED pts
Stuck == ~ENABLED Observe(pts)
Agree == Stuck => LET w == Walk(pts, 1, << >>) IN IF w.ok THEN n = Len(pts) ELSE w.at = n + 1
\* what acceptance means: the accepted prefix is a function into [0, 1) with null propagation
Accepted == \A a, b \in 1..n : /\ NullPropagates(pts[a]) /\ InRange(pts[a])
                               /\ Key(pts[a]) = Key(pts[b]) => pts[a].v = pts[b].v
=============================================================================
