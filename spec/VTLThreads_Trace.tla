------------------------- MODULE VTLThreads_Trace -------------------------
(***************************************************************************)
(* Trace validation for C17: every recorded concurrent execution (the      *)
(* sequence of granted steps, each with the stepping thread's own view of  *)
(* the per-call state taken right after the step) must be a behaviour of   *)
(* VTLThreads with Shared = FALSE:                                         *)
(*   - each thread passes exactly the points of its program (the call      *)
(*     executed alone), in order, and to the end;                          *)
(*   - an *.enter step is taken only while no other thread holds the lock; *)
(*   - a thread's view of reg / vc / dsout changes only by its OWN steps,  *)
(*     and by each step only in the cell that step writes, with the        *)
(*     step's effect (reset -> 0, new -> +1, clear -> none, set -> fresh    *)
(*     registry without rules);                                            *)
(*   - the global Time_Period cell holds the value of the last tp.set.     *)
(* One verdict per execution: ok, or the index and reason of the first     *)
(* step the specification cannot take.                                     *)
(***************************************************************************)
EXTENDS Integers, Sequences, FiniteSets, TLC, Json, IOUtils, TLCExt

Execs == JsonDeserialize(IOEnv.TRACE_FILE)
Enter == {"parse.enter", "parsec.enter"}
Exit == {"parse.exit", "parsec.exit"}
Inside == {"parse.parsed", "parse.enter"}

NextPoint(prog, k) == IF k < Len(prog) THEN prog[k + 1].p ELSE "end"

\* why the step from view v to view w at point p is not the effect of p (or "" if it is)
Effect(p, v, w, val) ==
    LET same(f) == v[f] = w[f]
        others(fs) == \A f \in {"reg", "nrules", "dsout", "vds", "vdc"} \ fs : same(f)
    IN  CASE p = "registry.set" -> IF ~others({"reg", "nrules"}) THEN "registry.set changed another cell"
                                   ELSE IF w.reg = v.reg \/ w.nrules # 0 THEN "registry.set did not install a fresh empty registry" ELSE ""
          [] p = "registry.get" -> IF ~others({"reg", "nrules"}) THEN "registry.get changed another cell"
                                   ELSE IF v.reg # 0 /\ w.reg # v.reg THEN "the thread's registry was replaced between its own steps" ELSE ""
          [] p = "vc.reset" -> IF ~others({"vds", "vdc"}) THEN "vc.reset changed another cell"
                               ELSE IF w.vds # 0 \/ w.vdc # 0 THEN "counters not zero after reset" ELSE ""
          [] p = "vc.new" -> IF ~others({"vds", "vdc"}) THEN "vc.new changed another cell"
                             ELSE IF w.vds + w.vdc # v.vds + v.vdc + 1 THEN "vc.new did not advance the thread's counters by one" ELSE ""
          [] p = "dsout.set" -> IF ~others({"dsout"}) THEN "dsout.set changed another cell"
                                ELSE IF w.dsout = "" THEN "no result name after dsout.set" ELSE ""
          [] p = "dsout.clear" -> IF ~others({"dsout"}) THEN "dsout.clear changed another cell"
                                  ELSE IF w.dsout # "" THEN "result name not cleared" ELSE ""
          [] OTHER -> IF ~others({}) THEN "the thread's view changed in a step that writes nothing" ELSE ""

RECURSIVE Walk(_, _, _)
\* st = [pc, holder, depth, view, tp]; returns [ok, at, why]
Walk(x, i, st) ==
    IF i > Len(x.events)
    THEN IF \A c \in DOMAIN x.programs : st.pc[c] = Len(x.programs[c]) + 1 THEN [ok |-> TRUE, at |-> 0, why |-> ""]
         ELSE [ok |-> FALSE, at |-> i, why |-> "a call did not pass all the points of its program"]
    ELSE
    LET e == x.events[i]
        c == e.t
        prog == x.programs[c]
        k == st.pc[c]
        p == e.p
        nxt == NextPoint(prog, k)
        d1 == IF p \in Enter THEN st.depth + 1 ELSE st.depth
        mine == st.holder = c \/ p \in Enter
        d2 == IF mine THEN (IF nxt \in Exit THEN d1 - 1 ELSE IF nxt \in Inside THEN d1 ELSE 0) ELSE d1
        tp2 == IF p = "tp.set" THEN e.v ELSE st.tp
        eff == Effect(p, st.view[c], e.after, e.v)
    IN  IF k > Len(prog) \/ prog[k].p # p THEN [ok |-> FALSE, at |-> i, why |-> "point " \o p \o " is not the next point of the call's program"]
        ELSE IF p \in Enter /\ st.holder \notin {"none", c} THEN [ok |-> FALSE, at |-> i, why |-> "lock taken while another thread holds it"]
        ELSE IF eff # "" THEN [ok |-> FALSE, at |-> i, why |-> eff]
        ELSE IF e.after.tp # tp2 THEN [ok |-> FALSE, at |-> i, why |-> "Time_Period cell is not the last value set"]
        ELSE Walk(x, i + 1, [pc |-> [st.pc EXCEPT ![c] = k + 1],
                             holder |-> IF mine THEN (IF d2 <= 0 THEN "none" ELSE c) ELSE st.holder,
                             depth |-> IF mine THEN d2 ELSE st.depth,
                             view |-> [st.view EXCEPT ![c] = e.after],
                             tp |-> tp2])

Verdict(x) ==
    LET r == Walk(x, 1, [pc |-> [c \in DOMAIN x.programs |-> 1], holder |-> "none", depth |-> 0, view |-> x.init, tp |-> x.tp0])
    IN  [id |-> x.id, ok |-> r.ok, at |-> r.at, why |-> r.why]

ChunkSize == 20
VARIABLE l
Init == l \in { i \in 1..Len(Execs) : i % ChunkSize = 1 \/ ChunkSize = 1 }
Next == /\ l <= Len(Execs)
        /\ PrintT("@@" \o ToJson(Verdict(Execs[l])))
        /\ l' = IF l % ChunkSize = 0 THEN Len(Execs) + 1 + l ELSE l + 1
=============================================================================
