"""C21 Time_Period values round-trip through every input and output representation."""
import json
import os
import random

from harness import bulk, engine, k2, tlc
from props.c08 import BOUNDARY_YEARS, parse_period

LEVEL = 'model_checking'
FMTS = ['vtl', 'sdmx_reporting', 'sdmx_gregorian', 'natural']
FORMS = {'A': ['YYYY', 'YYYYA', 'YYYY-A1'], 'S': ['YYYYSx', 'YYYY-Sx'], 'Q': ['YYYYQx', 'YYYY-Qx'],
         'M': ['YYYYMm', 'YYYYMmm', 'YYYY-MM', 'YYYY-M', 'YYYY-Mxx', 'YYYY-Mx'], 'W': ['YYYYWw', 'YYYYWww', 'YYYY-Wxx'],
         'D': ['YYYYDd', 'YYYYDdd', 'YYYYDddd', 'YYYY-Dx', 'YYYY-Dxx', 'YYYY-Dxxx', 'YYYY-MM-DD']}


def formats_model(chk, years, invalid=False):
    path = os.path.join(engine.sub_dir('traces'), 'fmt-%d.json' % os.getpid())
    json.dump({'years': years, 'chunk': 1 if len(years) <= 64 else 4, 'invalid': invalid}, open(path, 'w'))
    r = tlc.run('GenFormats', 'GenFormats.cfg', env={'FMT_FILE': path}, workers=14, timeout=7000)
    if r.violated:
        chk.violation('model %s' % r.violated, 'TLC: round-trip theorem violated (%s)' % r.violated, r.output[-2000:])
        return None, None
    tlc.must(r, 'GenFormats')
    chk.add('states', r.states)
    chk.add('transitions', r.generated)
    P, BAD = {}, {}
    for line in r.lines:
        x = json.loads(line)
        if x['k'] == 'period':
            if not x['ok']:
                chk.violation('model year %d' % x['y'], 'round-trip theorem fails in year %d' % x['y'], {})
            P[(x['y'], x['i'])] = x['r']
        else:
            BAD[(x['y'], x['i'])] = x
    return P, BAD


def python_side(arg):
    """Worker: the Python implementation (TimePeriodHandler, check_time_period) on a list of texts."""
    engine.boot()
    from vtlengine.DataTypes.TimeHandling import TimePeriodHandler
    from vtlengine.DataTypes._time_checking import check_time_period
    out = []
    for text in arg:
        rec = {}
        try:
            c = check_time_period(text)
            h = TimePeriodHandler(c)
            rec['p'] = [int(h.year), h.period_indicator, int(h.period_number)]
            rec['canon'] = c
            for name in ('vtl', 'sdmx_reporting', 'sdmx_gregorian', 'natural'):
                try:
                    rec[name] = getattr(h, name + '_representation')()
                except Exception as e:  # noqa
                    from vtlengine.Exceptions import VTLEngineException
                    rec[name] = 'NE' if isinstance(e, VTLEngineException) else 'RAW:%r' % e
        except Exception as e:  # noqa
            rec['err'] = repr(e)[:200]
        out.append(rec)
    return out


def main(chk):
    rnd = random.Random(chk.seed)
    quick = chk.tier == 'quick'
    if quick:
        years = sorted(set(BOUNDARY_YEARS[:8] + [rnd.randrange(1901, 2100) for _ in range(2)] + [1, 999, 1000, 9999]))
    else:
        years = sorted(set(list(range(1900, 2101)) + [1, 2, 4, 99, 100, 400, 999, 1000, 1582, 1799, 1800, 2400, 5000, 9998, 9999] + [rnd.randrange(1, 10000) for _ in range(40)]))
    P, _ = formats_model(chk, years)
    if P is None:
        return
    chk.cov['exhaustive'] = not quick
    # one dataset per (indicator, form): rows = every period of every requested year in that form
    args, meta = [], []
    st = bulk.struct('DS_1', [('Id_1', 'Integer', 'I'), ('Me_1', 'Time_Period', 'M')])
    sti = bulk.struct('DS_1', [('Id_1', 'Time_Period', 'I'), ('Me_1', 'Integer', 'M')])
    for i, forms in FORMS.items():
      for ycls, ys in (('', [y for y in years if y >= 1000]), (' early-years', [y for y in years if y < 1000])):
        for fi, form in enumerate(forms):
            rows, exp = [], []
            for y in ys:
                for n, rec in enumerate(P[(y, i)], start=1):
                    rows.append([len(rows), rec['inp'][fi]])
                    exp.append(rec['out'])
            if not rows:
                continue
            for k, fmt in enumerate(FMTS):
                args.append({'script': 'R := DS_1;', 'structures': [st], 'tables': {'DS_1': {'cols': ['Id_1', 'Me_1'], 'rows': rows}},
                             'kw': {'time_period_output_format': fmt}, 'form': 'csv' if (fi + k) % 2 else 'df'})
                meta.append((i, form + ycls, fmt, k, exp, rows, 'measure'))
                # the same, written by the engine to a file (output_folder): the file content is what is compared
                args.append({'script': 'R <- DS_1;', 'structures': [st], 'tables': {'DS_1': {'cols': ['Id_1', 'Me_1'], 'rows': rows}},
                             'kw': {'time_period_output_format': fmt}, 'form': 'df' if (fi + k) % 2 else 'csv', 'to_files': True})
                meta.append((i, form + ycls, fmt, k, exp, rows, 'measure-file'))
            # the same texts as IDENTIFIER values (default format)
            args.append({'script': 'R := DS_1;', 'structures': [sti], 'tables': {'DS_1': {'cols': ['Id_1', 'Me_1'], 'rows': [[t, j] for j, t in rows]}}, 'kw': {}})
            meta.append((i, form + ycls, 'vtl', 0, exp, rows, 'identifier'))
    obs = k2.pmap('harness.bulk:run_tables', args, 10)
    distinct = set()
    for (i, form, fmt, k, exp, rows, role), a, o in zip(meta, args, obs):
        chk.add('evaluations', len(rows))
        ne = exp[0][k] == 'NE'
        key = '%s %s -> %s (%s, %s)' % (i, form, fmt, role, a.get('form', 'df'))
        if 'err' in o:
            if o['err'].startswith('RAW'):
                chk.violation('raw | %s' % key, 'raw error %s %s' % (o['err'], o['msg'][:200]), {'example_input': rows[0][1]})
            elif not ne:
                chk.violation('rejected | %s' % key, 'documented input form %s (e.g. %s) with output format %s raised %s %s' % (form, rows[0][1], fmt, o['err'], o['msg'][:200]), {'example_input': rows[0][1]})
            else:
                chk.add('traces_validated_against_impl', len(rows))
                distinct.add((i, form, fmt, 'NE'))
            continue
        if ne:
            chk.violation('not expressible accepted | %s' % key, 'format %s cannot express %s periods: a VTL error is required, engine returned values' % (fmt, i), {'example_input': rows[0][1]})
            continue
        tb = o['results']['R']
        if role.startswith('measure'):
            ci, cm = tb['cols'].index('Id_1'), tb['cols'].index('Me_1')
            got = {int(r[ci]): r[cm] for r in tb['rows']}
        else:
            ci, cm = tb['cols'].index('Me_1'), tb['cols'].index('Id_1')
            got = {r[ci]: r[cm] for r in tb['rows']}
        bad = [(rows[j][1], exp[j][k], got.get(j)) for j in range(len(rows)) if got.get(j) != exp[j][k]]
        if bad:
            chk.violation('rendering | %s' % key, 'input %s: documented output %s, engine %s (%d of %d wrong)' % (bad[0][0], bad[0][1], bad[0][2], len(bad), len(rows)), {'first': bad[:5]})
        else:
            chk.add('traces_validated_against_impl', len(rows))
            distinct.add((i, form, fmt))
            if len(chk.cov['samples']) < 5:
                chk.sample({'indicator': i, 'input_form': form, 'format': fmt, 'example': [rows[-1][1], exp[-1][k]]})
    # every two documented spellings of one period are EQUAL values: spelling f against the next spelling of the same indicator
    eargs, emeta = [], []
    ste = bulk.struct('DS_1', [('Id_1', 'Integer', 'I'), ('Me_1', 'Time_Period', 'M'), ('Me_2', 'Time_Period', 'M')])
    stj = [bulk.struct('DS_1', [('Id_1', 'Time_Period', 'I'), ('Me_1', 'Integer', 'M')]), bulk.struct('DS_2', [('Id_1', 'Time_Period', 'I'), ('Me_2', 'Integer', 'M')])]
    for i, forms in FORMS.items():
        if len(forms) < 2:
            continue
        ys = [y for y in years if y >= 1000]
        for fi, form in enumerate(forms):
            fj = (fi + 1) % len(forms)
            rows = []
            for y in ys:
                for rec in P[(y, i)]:
                    rows.append([len(rows), rec['inp'][fi], rec['inp'][fj]])
            eargs.append({'script': 'R := DS_1[calc Me_3 := Me_1 = Me_2];', 'structures': [ste], 'tables': {'DS_1': {'cols': ['Id_1', 'Me_1', 'Me_2'], 'rows': rows}},
                          'form': 'csv' if fi % 2 else 'df'})
            emeta.append(('equal', i, form, forms[fj], rows))
            eargs.append({'script': 'R := inner_join(DS_1, DS_2);', 'structures': stj,
                          'tables': {'DS_1': {'cols': ['Id_1', 'Me_1'], 'rows': [[r[1], r[0]] for r in rows]}, 'DS_2': {'cols': ['Id_1', 'Me_2'], 'rows': [[r[2], r[0]] for r in rows]}},
                          'form': 'df' if fi % 2 else 'csv'})
            emeta.append(('join', i, form, forms[fj], rows))
    eobs = k2.pmap('harness.bulk:run_tables', eargs, 10)
    for (what, i, f1, f2, rows), o in zip(emeta, eobs):
        chk.add('evaluations', len(rows))
        key = '%s %s / %s' % (i, f1, f2)
        if 'err' in o:
            chk.violation('spellings %s %s | %s' % (what, 'raw' if o['err'].startswith('RAW') else 'rejected', key), '%s over two spellings of the same periods raised %s %s' % (what, o['err'], o['msg'][:200]),
                          {'example': rows[0][1:]})
            continue
        tb = o['results']['R']
        if what == 'equal':
            ci, cm = tb['cols'].index('Id_1'), tb['cols'].index('Me_3')
            bad = [rows[int(r[ci])][1:] for r in tb['rows'] if r[cm] is not True]
            if len(tb['rows']) != len(rows):
                bad = bad or [rows[0][1:]]
        else:
            c1, c2 = tb['cols'].index('Me_1'), tb['cols'].index('Me_2')
            hit = {int(r[c1]) for r in tb['rows'] if r[c1] == r[c2]}
            bad = [rows[j][1:] for j in range(len(rows)) if j not in hit]
            if len(tb['rows']) != len(rows):
                bad = bad or [rows[0][1:]]
        if bad:
            chk.violation('spellings %s | %s' % (what, key), 'two documented spellings of one period are different values for %s: e.g. %s vs %s (%d of %d)' % (
                'the = operator' if what == 'equal' else 'the join on a Time_Period identifier', bad[0][0], bad[0][1], len(bad), len(rows)), {'first': bad[:5]})
        else:
            chk.add('traces_validated_against_impl', len(rows))
            distinct.add((i, f1, f2, what))
    # the Python implementation on the same texts
    texts, tmeta = [], []
    for i, forms in FORMS.items():
        for fi, form in enumerate(forms):
            for y in years:
                recs = P[(y, i)]
                for n in ([1, len(recs)] + ([rnd.randrange(1, len(recs) + 1)] if len(recs) > 2 else [])) if quick else range(1, len(recs) + 1):
                    texts.append(recs[n - 1]['inp'][fi])
                    tmeta.append((y, i, n, form + (' early-years' if y < 1000 else ''), recs[n - 1]['out']))
    chunks = [texts[a:a + 4000] for a in range(0, len(texts), 4000)]
    pobs = [x for ch in k2.pmap('props.c21:python_side', chunks) for x in ch]
    badpy = {}
    for t, (y, i, n, form, out), o in zip(texts, tmeta, pobs):
        chk.add('evaluations')
        if 'err' in o:
            badpy.setdefault(('python rejects', i, form), (t, o['err']))
            continue
        if o['p'] != [y, i, n]:
            badpy.setdefault(('python parses', i, form), (t, 'expected %s, python %s' % ([y, i, n], o['p'])))
            continue
        for k, fmt in enumerate(FMTS):
            if o[fmt] != out[k]:
                badpy.setdefault(('python renders %s' % fmt, i, form), (t, 'documented %s, python %s' % (out[k], o[fmt])))
        chk.add('traces_validated_against_impl')
    for (what, i, form), (t, why) in badpy.items():
        chk.violation('%s | %s %s' % (what, i, form), 'TimePeriodHandler / check_time_period on %s: %s' % (t, why), {'text': t})
    chk.add('distinct_nontrivial', len(distinct))
    chk.notes['years'] = '%d years (%s..%s)' % (len(years), years[0], years[-1])
    chk.notes['python_texts'] = len(texts)
    chk.notes['binding_demo'] = 'expected texts come from TLC (VTLFormats!Render); a wrong rendering is reported per (indicator, input form, format) group'
    chk.cov['rule'] = ('TLC (GenFormats over VTLFormats + VTLCalendar) proves for every period of the requested years that every output form is a documented input form denoting the same '
                       'period (day periods through the calendar) and emits the text of EVERY documented input form and of the four renderings; the engine gets one table per '
                       '(indicator, input form) as measure (CSV and DataFrame) under each output format - returned in memory AND written by the engine to files (output_folder) - and as identifier; each spelling is compared with = and joined as identifier against the next spelling of the same periods (must be equal values); outputs must equal the documented rendering, S/Q/W under '
                       'sdmx_gregorian must raise a VTL error; read-back is covered because every rendering is itself one of the input forms fed; the Python TimePeriodHandler / '
                       'check_time_period are run on the same texts and must parse and render identically. distinct = (indicator, input form, format) groups fully agreed')
    chk.assumptions += ['quick tier: boundary years and extreme years 1, 999, 1000, 9999; thorough: every year 1900-2100 plus a sample of 0001-9999']
