"""C14 Writing results to an output folder preserves them exactly."""
import json
import random

from harness import apicalls, corpus, k2, render, termgen, variants

LEVEL = 'model_checking'

SCALARS = ['1 + 2', '"a" || "b"', 'null', '10 / 4', 'true and false', 'cast("2020-01-15", date)', 'cast("2020Q1", time_period)',
           '1.5 * 3', 'length("hello")', 'if 1 > 2 then 1 else 0', 'cast("2020-01-01/2020-12-31", time)', '0.1 + 0.2', 'round(2.567, 2)']


def gen_calls(rnd, n):
    base = variants.mixed_units(rnd, n)
    calls = []
    for i, u in enumerate(base):
        lines = ['P1 <- %s;' % render.expr(u['term'])]
        env = dict(u['env'])
        # a second, non-persistent statement over another unit's inputs (renamed) and scalar statements
        v = base[(i * 7 + 3) % len(base)]
        m = {nme: 'B_' + nme for nme in v['env']}
        for nme, x in v['env'].items():
            env[m[nme]] = x
        lines.append('T2 := %s;' % render.expr(k2.rename_term(v['term'], m)))
        if rnd.random() < 0.7:
            lines.append('S1 <- %s;' % rnd.choice(SCALARS))
        if rnd.random() < 0.4:
            lines.append('S2 := %s;' % rnd.choice(SCALARS))
        if rnd.random() < 0.3:
            lines.append('P3 <- P1;')
        rnd.shuffle(lines)
        for fmt in ('csv', 'parquet'):
            for rop in (True, False):
                calls.append({'id': 'g%d.%s.%d' % (i, fmt, rop), 'api': 'run', 'script': '\n'.join(lines), 'env': env,
                              'folder': fmt, 'rop': rop, 'form': rnd.choice(['df', 'csv']) if _csv_safe(env) else 'df',
                              'kw': {'time_period_output_format': ['vtl', 'sdmx_reporting', 'natural', 'vtl'][i % 4]}})
    # datasets with SEVERAL Time_Period components whose nulls do not coincide (the file writer reformats them per column)
    from harness import gen
    for j in range(max(4, n // 10)):
        ids = [('Id_1', 'Integer')]
        ds = gen.dataset(rnd, ids, [('Me_1', 'M', 'Time_Period'), ('Me_2', 'M', 'Time_Period'), ('Me_3', 'M', 'Integer')], rnd.choice([4, 6, 9]), keyspace=4, null_p=0.35)
        env = {'DS_T': gen.shuffled(rnd, ds)}
        script = rnd.choice(['P1 <- DS_T;', 'P1 <- DS_T[filter Me_3 > 0 or isnull(Me_3)];', 'P1 <- DS_T[rename Me_1 to Me_9];'])
        for fmt in ('csv', 'parquet'):
            calls.append({'id': 'tp%d.%s' % (j, fmt), 'api': 'run', 'script': script, 'env': env, 'folder': fmt, 'rop': True, 'form': 'df',
                          'kw': {'time_period_output_format': ['vtl', 'sdmx_reporting', 'natural', 'sdmx_gregorian'][j % 3]}})
    return calls


def _csv_safe(env):
    for x in env.values():
        for r in x.get('rows', []):
            for v in r.values():
                if v[0] == 4 and (v[1] == [] or 34 in v[1]):
                    return False
    return True


def main(chk):
    rnd = random.Random(chk.seed)
    quick = chk.tier == 'quick'
    apicalls.model_check(chk)
    calls = gen_calls(rnd, 30 if quick else 300)
    cases = corpus.discover()
    rnd.shuffle(cases)
    for c in cases[:(40 if quick else len(cases))]:
        fmt = rnd.choice(['csv', 'parquet'])
        for rop in ((True, False) if not quick else (rnd.random() < 0.5,)):
            calls.append({'id': 'c:%s.%s.%d' % (c['id'], fmt, rop), 'api': 'run', 'case': c, 'folder': fmt, 'rop': rop})
    units = k2.pmap('harness.apicalls:observe', calls)
    live = []
    for c, u in zip(calls, units):
        if 'machinery' in u:
            raise RuntimeError(u['machinery'])
        chk.add('evaluations')
        if u['outcome']['kind'] != 'ok' or 'mem_error' in u:
            chk.add('skipped_not_successful')
            continue
        live.append(u)
    verd = apicalls.validate(chk, live)
    distinct = set()
    for u in live:
        v = verd[u['id']]
        chk.add('traces_validated_against_impl')
        distinct.add(json.dumps([sorted(u['files']), u['ext'], sorted(u['expected'])]))
        if v['c14']:
            where = 'corpus' if u['id'].startswith('c:') else 'generated'
            chk.violation('%s | %s %s | %s' % (v['c14'].split(':')[0], where, u['ext'], u['text'][:120]), v['c14'],
                          {'script': u['text'], 'format': u['ext'], 'expected_names': u['expected'], 'files': {k: {'cols': t['cols'], 'rows': t['rows'][:5]} for k, t in u['files'].items()},
                           'mem': {k: {'cols': t['cols'], 'rows': t['rows'][:5]} for k, t in u['mem'].items()}, 'scalarfile': u['scalarfile'], 'memscalars': u['memscalars']})
        else:
            chk.sample({'script': u['text'][:160], 'format': u['ext'], 'files': sorted(u['files']), 'returned': sorted(u['returned'])})
    chk.add('distinct_nontrivial', len(distinct))
    # binding demonstration: drop one row of one file
    for u in live:
        tgt = [f for f, t in u['files'].items() if t['rows']]
        if tgt:
            bad = json.loads(json.dumps(u))
            bad['id'] = 'demo'
            bad['files'][tgt[0]]['rows'] = bad['files'][tgt[0]]['rows'][1:]
            if not apicalls.validate(chk, [bad])['demo']['c14']:
                raise RuntimeError('binding demonstration failed (C14)')
            chk.notes['binding_demo'] = 'a result file with one row removed is rejected'
            break
    chk.cov['rule'] = ('each generated script (persistent and non-persistent dataset statements from all modelled operator families, scalar '
                       'statements incl. null/date/period scalars) and each corpus script is run with an output folder in csv and parquet and both '
                       'return_only_persistent settings, and again in memory; TLC (VTLApi_Trace, obligation FilesFaithful of VTLApi) checks the file set, '
                       'file columns and rows = in-memory result, returned datasets carry no data, the scalar file = returned scalars. '
                       'distinct = distinct (file set, format, selected names)')
    chk.assumptions += ['numbers in files compared at 12 significant digits (text round trip of doubles)',
                        'file rows are typed through the declared structure of the returned dataset']
