"""C29 Names that differ only in letter case stay distinct."""
import json
import random
import re

from harness import b1, termgen, variants
from props import c01

LEVEL = 'model_checking'
NAME = re.compile(r'^(Me|Id|At|An|Ms|Sc)_(\d+)$')
DSNAME = re.compile(r'^(DS)_(\d+)$')


def case_variant(base, j):
    """the j-th spelling of a base name: Me_1, me_1, ME_1, mE_1"""
    return [base, base.lower(), base.upper(), base[0].lower() + base[1:].upper()][j % 4]


def mapping(u, rnd):
    """every generated name -> a case variant of ONE base name per kind, so that the unit's names differ only in case"""
    found = {}

    def walk(x):
        if isinstance(x, dict):
            for k, v in x.items():
                walk(k)
                walk(v)
        elif isinstance(x, list):
            for v in x:
                walk(v)
        elif isinstance(x, str):
            for part in x.split('#'):
                m = NAME.match(part) or DSNAME.match(part)
                if m:
                    found.setdefault(m.group(1), set()).add(part)
    walk(u['env'])
    walk(u['term'])
    out = {}
    for kind, names in found.items():
        names = sorted(names, key=lambda n: int(n.split('_')[1]))
        base = '%s_1' % kind
        order = list(range(len(names)))
        rnd.shuffle(order)
        if len(names) > 4:
            return None
        for n, j in zip(names, order):
            out[n] = case_variant(base, j)
    return out


def rename(x, m):
    if isinstance(x, dict):
        return {rename(k, m): rename(v, m) for k, v in x.items()}
    if isinstance(x, list):
        return [rename(v, m) for v in x]
    if isinstance(x, str):
        return '#'.join(m.get(p, p) for p in x.split('#'))
    return x


def own_variant(u, rnd):
    """every generated name -> an unusual spelling of ITS OWN base (ME_2, id_1): no two names collide"""
    m = mapping(u, rnd)
    if not m:
        return None
    return {n: case_variant(n, rnd.randrange(1, 4)) for n in m}


CREATED = re.compile(r'^(X\d+|Y\d+|Agg_\d+|Me_9|An_\d+)$')


def derived_variant(u, rnd):
    """names CREATED by the statement (calc / aggr targets) become case variants of components the operand already has"""
    have = sorted({c['n'] for d in u['env'].values() if 'comps' in d for c in d['comps'] if c['r'] != 'I'})
    made = set()

    def walk(x):
        if isinstance(x, dict):
            for v in x.values():
                walk(v)
        elif isinstance(x, list):
            for v in x:
                walk(v)
        elif isinstance(x, str) and CREATED.match(x):
            made.add(x)
    walk(u['term'])
    if not have or not made:
        return None
    out = {}
    for j, n in enumerate(sorted(made)):
        out[n] = case_variant(rnd.choice(have), 1 + j % 3)
    return out


def rename_variant(u, rnd):
    """the TARGET of every rename becomes a case variant of its own SOURCE (rename Me_1 to me_1): the old name disappears and
    a name differing from it only in case takes its place (seeded change C29b: a pass-through projection "Me_1" AS "me_1"
    simplified away)"""
    out = {}

    def walk(x):
        if isinstance(x, dict):
            if x.get('k') == 'clause' and x.get('op') == 'rename':
                for a, b in x['items']:
                    if '#' not in a and '#' not in b and b not in out and a not in out:
                        out[b] = case_variant(a, rnd.randrange(1, 4))
            for v in x.values():
                walk(v)
        elif isinstance(x, list):
            for v in x:
                walk(v)
    walk(u['term'])
    if len(set(out.values())) < len(out):
        return None
    return out or None


def category(u):
    """where two names of the unit collide when letter case is ignored"""
    env = u['env']
    low = [n.lower() for n in env]
    if len(set(low)) < len(low):
        return 'dataset-names'
    for d in env.values():
        if 'comps' in d:
            cl = [c['n'].lower() for c in d['comps']]
            if len(set(cl)) < len(cl):
                return 'components-of-one-input'
    names = set()

    def walk(x):
        if isinstance(x, dict):
            for k, v in x.items():
                walk(k)
                walk(v)
        elif isinstance(x, list):
            for v in x:
                walk(v)
        elif isinstance(x, str):
            names.update(x.split('#'))
    walk(u['env'])
    walk(u['term'])
    if len({n.lower() for n in names}) < len(names):
        return 'derived'        # collide only across datasets or through a component made by the statement
    return 'none'


def cased(units, rnd):
    out = []
    for u in units:
        for tag, m in (('case', mapping(u, rnd)), ('own', own_variant(u, rnd)), ('made', derived_variant(u, rnd)), ('ren', rename_variant(u, rnd))):
            if not m or all(k == v for k, v in m.items()):
                continue
            v = dict(u)
            v['env'] = rename(json.loads(json.dumps(u['env'])), m)
            v['term'] = rename(json.loads(json.dumps(u['term'])), m)
            v['id'] = '%s.%s' % (u['id'], tag)
            v['names'] = sorted(set(m.values()))
            v['collision'] = category(v)
            if tag == 'ren':
                # only the dedicated rename units (the source name never comes back): no two components of any intermediate or
                # final dataset collide, which is what tells these units from the known finding `created component collides`
                if not u['id'].startswith('ren'):
                    continue
                v['collision'] = 'none-renamed-to-variant-of-source'
            out.append(v)
    return out


def keyfn(u):
    return 'collision=%s | %s names %s' % (u.get('collision'), termgen.shape(u['term']), ','.join(u.get('names', [])))


def rename_units(rnd, n):
    """renames alone, before a dataset-dataset operator and inside a chain (for the `ren` variant)"""
    from harness import gen
    from harness.gen import var
    out = []
    for i in range(n):
        ids = [('Id_1', 'Integer'), ('Id_2', 'String')][:rnd.choice([1, 2])]
        meas = [('Me_1', 'M', rnd.choice(['Integer', 'Number'])), ('Me_2', 'M', 'Integer')][:rnd.choice([1, 2])]
        env = {'DS_1': gen.shuffled(rnd, gen.dataset(rnd, ids, meas, rnd.choice([1, 3, 5]), keyspace=3))}
        what = rnd.choice(['measure', 'identifier', 'both'])
        items = []
        if what in ('measure', 'both'):
            items.append(['Me_1', 'R_1'])
        if what in ('identifier', 'both'):
            items.append([ids[-1][0], 'R_2'])
        t = {'k': 'clause', 'op': 'rename', 'ds': var('DS_1'), 'items': items}
        k = rnd.choice(['alone', 'binary', 'calc'])
        if k == 'binary' and what == 'identifier':
            # the other operand declares the renamed identifier under its new name
            nid = [(a if a != ids[-1][0] else 'R_2', b) for a, b in ids]
            env['DS_2'] = gen.shuffled(rnd, gen.dataset(rnd, nid, meas, rnd.choice([1, 3, 5]), keyspace=3))
            t = {'k': 'bin', 'op': rnd.choice(['+', '-', '*']), 'l': t, 'r': var('DS_2')}
        elif k == 'calc' and what != 'identifier':
            t = {'k': 'clause', 'op': 'calc', 'ds': t, 'items': [{'name': 'X1', 'role': 'M', 'expr': {'k': 'bin', 'op': '+', 'l': var('R_1'), 'r': {'k': 'const', 'v': [1, 1]}}}]}
        out.append({'id': 'ren%d' % i, 'env': env, 'term': t, 'cc': True})
    return out


def main(chk):
    rnd = random.Random(chk.seed)
    quick = chk.tier == 'quick'
    n = 240 if quick else 3000
    from harness import viral
    pool = viral.nested_units(rnd, 3 * n)            # dataset-dataset operators, aggregations and set operators nested in one expression
    sets = [u for u in pool if u['term']['k'] == 'set' and len([c for c in u['env']['DS_1']['comps'] if c['r'] == 'I']) > 1]
    nested = sets[:n // 4] + [u for u in pool if u['term']['k'] != 'set'][:n // 5]
    for j, u in enumerate(nested):
        u['id'] = 'nest%d' % j
    base = variants.mixed_units(rnd, n) + termgen.random_join_units(rnd, n // 6) + termgen.random_analytic_units(rnd, n // 8) + nested + rename_units(rnd, n // 8)
    # only units the engine gets right with their ordinary names are judged here (other failures belong to C01-C06)
    from harness import report
    side = report.Check(chk.pid, chk.tier, chk.seed, LEVEL)
    bu, _, bv = b1.validate(side, base, lambda u: '', pack=20)
    good = {u['id'] for u, v in zip(bu, bv) if v['ok']}
    units = cased([u for u in base if u['id'] in good], rnd)
    import collections
    chk.notes['units'] = {'generated': len(base), 'right_with_ordinary_names': len(good), 'with_case_variant_names': len(units),
                          'by_collision': dict(collections.Counter(u['collision'] for u in units))}
    lu, lo, _ = b1.validate(chk, units, keyfn, pack=1)
    b1.binding_demo(chk, lu, lo, c01.corrupt)
    chk.cov['rule'] = ('names are plain strings in the specification, so Me_1 / me_1 / ME_1 are three components by construction: every random unit of the modelled families (element-wise, clauses, '
                       'aggregations, set operators, temporal, joins, analytic) is rewritten so that its datasets, identifiers, measures and attributes are case variants of ONE base name per kind '
                       '(DS_1 / ds_1, Id_1 / id_1 / ID_1, Me_1 / me_1 / ME_1 ...), or so that names created by calc / aggr are variants of existing components, or the target of a rename a variant of its source, run, and the observation validated by TLC (VTLOperators_Trace): each component keeps its own values and appears '
                       'exactly where the spec says. distinct = distinct terms')
    chk.assumptions += ['only generated names (Id_n, Me_n, At_n, DS_n and names created by calc / rename / aggr) are varied; the engine-made names bool_var, int_var ... are left alone']
