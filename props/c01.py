"""C01 Element-wise operators compute VTL values over matched datapoints."""
import json
import random

from harness import b1, gen, k2, randomop, termgen, tlc

LEVEL = 'model_checking'


def keyfn(u):
    return termgen.shape(u['term'])


def corrupt(o):
    for r in o['rows']:
        for c, v in r.items():
            if v[0] == 1 and not c.startswith('Id'):
                v[1] += 1
                return o
            if v[0] == 3:
                v[1] = not v[1]
                return o
    return None


def random_check(chk, rnd, n):
    """random(seed, index) as an uninterpreted function (VTLRandom): self-check of the machine by TLC, then the points
    revealed by generated scripts (several statements, two runs) validated by VTLRandom_Trace."""
    r = tlc.run('MCRandom', 'MCRandom.cfg', workers=4)
    if r.violated:
        chk.violation('model invariant %s (MCRandom)' % r.violated, 'TLC: %s violated in MCRandom' % r.violated, r.output[-3000:])
    tlc.must(r, 'MCRandom')
    chk.add('states', r.states)
    chk.add('transitions', r.generated)
    units = randomop.make_units(rnd, n)
    obs = k2.pmap('harness.randomop:observe', units)
    traces = []
    for u, o in zip(units, obs):
        chk.add('evaluations')
        if 'err' in o:
            chk.violation('random %s | %s' % (o['err'], '+'.join(u['forms'])), 'a script using random raised %s %s' % (o['err'], o.get('msg')), {'script': o.get('text'), 'observed': o})
            continue
        traces.append({'id': u['id'], 'pts': o['pts'], 'text': o['text']})
    verd, st, tr = randomop.validate(traces)
    chk.add('states', st)
    chk.add('transitions', tr)
    seen = set()
    for t in traces:
        # a unit may break several clauses / ways of writing the seed: after a rejection the offending point is dropped
        # and the rest of the trace is validated again, so that every distinct failure of the unit is reported once
        pts = list(t['pts'])
        for _ in range(12):
            v = verd[t['id']] if pts is t['pts'] or len(pts) == len(t['pts']) else randomop.validate([{'id': t['id'], 'pts': pts}])[0][t['id']]
            if v['ok']:
                break
            p = pts[v['at'] - 1]
            if v['clause'] == 'Function':
                q = pts[v['first'] - 1]
                key = 'random Function | %s seed as %s vs %s%s' % (p['t'], p['src'], q['src'], '' if p['run'] == q['run'] else ' | across runs')
                why = ('random(%s, %s) is not a function: %s (%s, statement %s, run %d) but %s (%s, statement %s, run %d)' % (
                    gen_show(p['seed']), p['idx'][1], show(p['v']), p['src'], p['st'], p['run'], show(q['v']), q['src'], q['st'], q['run']))
            else:
                key = 'random %s | %s seed as %s' % (v['clause'], p['t'], p['src'])
                why = 'random(%s, %s) = %s (%s, statement %s): clause %s of VTLRandom' % (gen_show(p['seed']), p['idx'][1], show(p['v']), p['src'], p['st'], v['clause'])
            if key not in seen:
                seen.add(key)
                chk.violation(key, why, {'script': t['text'], 'point': p, 'verdict': v})
            pts = [x for x in pts if not (x['src'] == p['src'] and x['t'] == p['t'] and (v['clause'] != 'NullPropagates' or x['seed'][0] == 0))]
        else:
            raise RuntimeError('random: more than 12 distinct rejections in one unit')
        if verd[t['id']]['ok']:
            chk.add('traces_validated_against_impl')
            chk.add('random_points', len(t['pts']))
    if traces:
        chk.sample({'random': traces[0]['text'], 'points': len(traces[0]['pts']), 'verdict': verd[traces[0]['id']]})
    # binding demonstration: one value of an accepted trace changed must be rejected by Function
    good = [t for t in traces if verd[t['id']]['ok'] and len({(p['t'], json.dumps(p['seed']), p['idx'][1]) for p in t['pts']}) < len(t['pts'])]
    if good:
        t = json.loads(json.dumps(good[0]))
        keys = {}
        for i, p in enumerate(t['pts']):
            k = (p['t'], json.dumps(p['seed']), p['idx'][1])
            if k in keys and p['v'][0] == 1:
                p['v'] = [1, (p['v'][1] + 1) % 10**9]
                break
            keys[k] = i
        v = randomop.validate([t])[0][t['id']]
        if v['ok']:
            raise RuntimeError('binding demonstration failed (VTLRandom accepts a corrupted trace)')
        chk.notes['random_binding_demo'] = 'one repeated point changed by 1e-9: rejected by clause %s' % v['clause']


def show(v):
    return 'null' if v[0] == 0 else '%.6f' % (v[1] / 1e9)


def gen_show(v):
    from harness import values
    return 'null' if v[0] == 0 else str(values.dec(v))


def main(chk):
    rnd = random.Random(chk.seed)
    quick = chk.tier == 'quick'
    allunits = []
    for fam in ('num', 'bool', 'str', 'overlap'):
        units, r = b1.generate('GenOps', 'GenOps_%s.cfg' % fam, workers=10)
        if r.violated:
            chk.violation('model invariant %s (%s)' % (r.violated, fam), 'TLC: %s violated in GenOps' % r.violated, r.output[-3000:])
        chk.add('states', r.states)
        chk.add('transitions', r.generated)
        chk.notes.setdefault('model', {})[fam] = {'states': r.states, 'transitions_emitted': len(units)}
        allunits += units
    chk.cov['exhaustive'] = True
    b1.replay(chk, allunits, keyfn, sample=1500 if quick else None, seed=chk.seed, label='g')
    # B2: random well-typed terms (depth <= 4, up to 3 datasets, 1-3 identifiers, 1-3 measures)
    ru = termgen.random_units(rnd, 350 if quick else 5000) + termgen.random_ifds_units(rnd, 60 if quick else 1200) + termgen.random_caseds_units(rnd, 40 if quick else 800)     # + dataset-level if / case
    lu, lo, vv = b1.validate(chk, ru, keyfn)
    # the same statements written as calls of user-defined operators (define operator f (p_1 dataset, ...) returns dataset is <body>):
    # only statements the engine gets right as written are wrapped, so a failure here is the operator call's
    good = [u for u, v in zip(lu, vv) if v['ok']]
    uu = termgen.udo_wrap(good, rnd, share=0.35)
    for u in uu:
        u['nopack'] = True
    b1.validate(chk, uu, lambda u: 'as user-defined operator | ' + keyfn(dict(u, term=u['term']['body'])), pack=1)
    # in / not_in against value domains of the environment (growth: run(value_domains=...))
    b1.validate(chk, termgen.random_vd_units(rnd, 60 if quick else 1500), lambda u: 'value domain | ' + keyfn(u), pack=1)
    random_check(chk, rnd, 25 if quick else 400)
    b1.binding_demo(chk, lu, lo, corrupt)
    chk.cov['rule'] = ('B1: every transition of the TLC model GenOps (combination tables meeting every pair of pool values incl. null, '
                       'zero, negative, fractional; every operator at dataset, dataset-scalar, scalar-dataset and component level; every '
                       'key-overlap pattern; chained second statement) replayed into run() (seeded sample in the quick tier); B2: random '
                       'well-typed terms of depth <= 4 over 1-3 datasets validated by VTLOperators_Trace, dataset-level if / case, the same statements as user-defined operator calls, in / not_in against value domains. distinct = distinct (term, result)')
    chk.assumptions += ['transcendental results (ln, exp, log, sqrt, non-integer power) are only checked for domain, null and type',
                        'numbers compared with 1e-6 relative tolerance', 'parser stand-in']
