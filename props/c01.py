"""C01 Element-wise operators compute VTL values over matched datapoints."""
import json
import random

from harness import b1, bulk, gen, k2, randomop, termgen, tlc

LEVEL = 'model_checking'


def keyfn(u):
    return termgen.shape(u['term'])


def corrupt(o):
    for r in o['rows']:
        for c, v in r.items():
            if v[0] == 1 and not c.startswith('Id'):
                v[1] += 1
                return o
            if v[0] == 3:
                v[1] = not v[1]
                return o
    return None


def random_check(chk, rnd, n):
    """random(seed, index) as an uninterpreted function (VTLRandom): self-check of the machine by TLC, then the points
    revealed by generated scripts (several statements, two runs) validated by VTLRandom_Trace."""
    r = tlc.run('MCRandom', 'MCRandom.cfg', workers=4)
    if r.violated:
        chk.violation('model invariant %s (MCRandom)' % r.violated, 'TLC: %s violated in MCRandom' % r.violated, r.output[-3000:])
    tlc.must(r, 'MCRandom')
    chk.add('states', r.states)
    chk.add('transitions', r.generated)
    units = randomop.make_units(rnd, n)
    obs = k2.pmap('harness.randomop:observe', units)
    traces = []
    for u, o in zip(units, obs):
        chk.add('evaluations')
        if 'err' in o:
            chk.violation('random %s | %s' % (o['err'], '+'.join(u['forms'])), 'a script using random raised %s %s' % (o['err'], o.get('msg')), {'script': o.get('text'), 'observed': o})
            continue
        traces.append({'id': u['id'], 'pts': o['pts'], 'text': o['text']})
    verd, st, tr = randomop.validate(traces)
    chk.add('states', st)
    chk.add('transitions', tr)
    seen = set()
    for t in traces:
        # a unit may break several clauses / ways of writing the seed: after a rejection the offending point is dropped
        # and the rest of the trace is validated again, so that every distinct failure of the unit is reported once
        pts = list(t['pts'])
        for _ in range(12):
            v = verd[t['id']] if pts is t['pts'] or len(pts) == len(t['pts']) else randomop.validate([{'id': t['id'], 'pts': pts}])[0][t['id']]
            if v['ok']:
                break
            p = pts[v['at'] - 1]
            if v['clause'] == 'Function':
                q = pts[v['first'] - 1]
                key = 'random Function | %s seed as %s vs %s%s' % (p['t'], p['src'], q['src'], '' if p['run'] == q['run'] else ' | across runs')
                why = ('random(%s, %s) is not a function: %s (%s, statement %s, run %d) but %s (%s, statement %s, run %d)' % (
                    gen_show(p['seed']), p['idx'][1], show(p['v']), p['src'], p['st'], p['run'], show(q['v']), q['src'], q['st'], q['run']))
            else:
                key = 'random %s | %s seed as %s' % (v['clause'], p['t'], p['src'])
                why = 'random(%s, %s) = %s (%s, statement %s): clause %s of VTLRandom' % (gen_show(p['seed']), p['idx'][1], show(p['v']), p['src'], p['st'], v['clause'])
            if key not in seen:
                seen.add(key)
                chk.violation(key, why, {'script': t['text'], 'point': p, 'verdict': v})
            pts = [x for x in pts if not (x['src'] == p['src'] and x['t'] == p['t'] and (v['clause'] != 'NullPropagates' or x['seed'][0] == 0))]
        else:
            raise RuntimeError('random: more than 12 distinct rejections in one unit')
        if verd[t['id']]['ok']:
            chk.add('traces_validated_against_impl')
            chk.add('random_points', len(t['pts']))
    if traces:
        chk.sample({'random': traces[0]['text'], 'points': len(traces[0]['pts']), 'verdict': verd[traces[0]['id']]})
    # binding demonstration: one value of an accepted trace changed must be rejected by Function
    good = [t for t in traces if verd[t['id']]['ok'] and len({(p['t'], json.dumps(p['seed']), p['idx'][1]) for p in t['pts']}) < len(t['pts'])]
    if good:
        t = json.loads(json.dumps(good[0]))
        keys = {}
        for i, p in enumerate(t['pts']):
            k = (p['t'], json.dumps(p['seed']), p['idx'][1])
            if k in keys and p['v'][0] == 1:
                p['v'] = [1, (p['v'][1] + 1) % 10**9]
                break
            keys[k] = i
        v = randomop.validate([t])[0][t['id']]
        if v['ok']:
            raise RuntimeError('binding demonstration failed (VTLRandom accepts a corrupted trace)')
        chk.notes['random_binding_demo'] = 'one repeated point changed by 1e-9: rejected by clause %s' % v['clause']


def _lev(a, b, osa=False):
    """independent implementation (self-check of the TLA+ definitions)"""
    d = [[0] * (len(b) + 1) for _ in range(len(a) + 1)]
    for i in range(len(a) + 1):
        d[i][0] = i
    for j in range(len(b) + 1):
        d[0][j] = j
    for i in range(1, len(a) + 1):
        for j in range(1, len(b) + 1):
            d[i][j] = min(d[i - 1][j] + 1, d[i][j - 1] + 1, d[i - 1][j - 1] + (a[i - 1] != b[j - 1]))
            if osa and i > 1 and j > 1 and a[i - 1] == b[j - 2] and a[i - 2] == b[j - 1]:
                d[i][j] = min(d[i][j], d[i - 2][j - 2] + 1)
    return d[len(a)][len(b)]


def strdist_check(chk):
    """string_distance (VTLStrDist): TLC checks the metric laws over the pool and emits the expected distance of EVERY ordered pair of
    strings of length <= 3 over {a, b, U+65E5}; the engine computes all of them in one bulk run per method."""
    r = tlc.run('GenStrDist', 'GenStrDist.cfg', workers=8, timeout=3000)
    if r.violated or 'Assumption' in r.output and 'is false' in r.output:
        chk.violation('model metric laws (GenStrDist)', 'TLC: a metric law of VTLStrDist fails', r.output[-3000:])
        return
    tlc.must(r, 'GenStrDist')
    chk.add('states', r.states)
    chk.add('transitions', r.generated)
    pairs = {}
    for line in r.lines:
        x = json.loads(line)
        a = ''.join(chr(c) for c in x['a'])
        for b, lev, osa, ham in (x['r'].values() if isinstance(x['r'], dict) else x['r']):
            pairs[(a, ''.join(chr(c) for c in b))] = (lev, osa, ham)
    for (a, b), (lev, osa, ham) in pairs.items():       # spec self-check
        if (lev, osa) != (_lev(a, b), _lev(a, b, True)) or (ham >= 0 and ham != sum(x != y for x, y in zip(a, b))):
            raise RuntimeError('spec self-check: VTLStrDist disagrees with the reference implementation on %r, %r' % (a, b))
    keys = sorted(pairs)
    st = bulk.struct('DS_S', [('Id_1', 'Integer', 'I'), ('Me_1', 'String', 'M'), ('Me_2', 'String', 'M')])
    allrows = [[i, a, b] for i, (a, b) in enumerate(keys)]
    eqrows = [r_ for r_ in allrows if len(r_[1]) == len(r_[2])]
    jobs = [('levenshtein', allrows, 0), ('damerau_levenshtein', allrows, 1), ('hamming', eqrows, 2),
            ('hamming', [r_ for r_ in eqrows if r_[1] and all(ord(c) < 128 for c in r_[1] + r_[2])], 2)]
    args = [{'script': 'R := DS_S[calc d := string_distance(%s, Me_1, Me_2)];' % m, 'structures': [st], 'tables': {'DS_S': {'cols': ['Id_1', 'Me_1', 'Me_2'], 'rows': rows}}} for m, rows, _ in jobs]
    hamming_all_failed = False
    for ji, ((m, rows, col), res) in enumerate(zip(jobs, k2.pmap('harness.bulk:run_tables', args, 4))):
        if ji == 3 and not hamming_all_failed:
            continue            # the ASCII non-empty subset is only judged when the whole table could not be
        chk.add('evaluations', len(rows))
        if 'err' in res:
            if ji == 2:
                hamming_all_failed = True
            cls = 'all equal-length pairs' if ji == 2 else 'non-empty ASCII pairs' if ji == 3 else 'all pairs'
            chk.violation('string_distance %s error | %s | %s %s' % (m, cls, res['err'], (res.get('msg') or '')[-60:]), 'string_distance(%s, ...) over %s raised %s %s' % (m, cls, res['err'], res.get('msg')), res)
            continue
        tb = res['results']['R']
        c = {n: k for k, n in enumerate(tb['cols'])}
        bad = {}
        for r_ in tb['rows']:
            a, b = keys[r_[c['Id_1']]]
            want = pairs[(a, b)][col]
            got = r_[c['d']]
            if got is None or float(got) != want:
                cls = 'non-ASCII' if any(ord(ch) > 127 for ch in a + b) else 'empty string' if not a or not b else 'ASCII'
                bad.setdefault(cls, (a, b, want, got))
                bad[cls + '#'] = bad.get(cls + '#', 0) + 1
        for cls in [k for k in bad if not k.endswith('#')]:
            a, b, want, got = bad[cls]
            chk.violation('string_distance %s value | %s' % (m, cls), 'string_distance(%s, %r, %r): expected %s, engine %s (%d pairs of this class wrong)' % (m, a, b, want, got, bad[cls + '#']), {})
        if not bad:
            chk.add('traces_validated_against_impl', len(rows))
    # hamming over strings of different length is a VTL error
    res = bulk.run_tables({'script': 'R := DS_S[calc d := string_distance(hamming, Me_1, Me_2)];', 'structures': [st], 'tables': {'DS_S': {'cols': ['Id_1', 'Me_1', 'Me_2'], 'rows': [[0, 'ab', 'abb']]}}})
    chk.add('evaluations')
    if 'err' not in res:
        chk.violation('string_distance hamming | unequal length accepted', 'hamming of strings of different length returned a value', res)
    elif res['err'].startswith('RAW:'):
        chk.violation('string_distance hamming | raw:%s' % res['err'][4:], 'hamming of strings of different length: raw error %s %s' % (res['err'], res.get('msg')), res)
    chk.sample({'string_distance': '%d ordered pairs x levenshtein / damerau_levenshtein, %d equal-length pairs x hamming' % (len(allrows), len(eqrows)), 'example': ['ab', 'ba', list(pairs[('ab', 'ba')])]})


def show(v):
    return 'null' if v[0] == 0 else '%.6f' % (v[1] / 1e9)


def gen_show(v):
    from harness import values
    return 'null' if v[0] == 0 else str(values.dec(v))


def main(chk):
    rnd = random.Random(chk.seed)
    quick = chk.tier == 'quick'
    allunits = []
    for fam in ('num', 'bool', 'str', 'overlap'):
        units, r = b1.generate('GenOps', 'GenOps_%s.cfg' % fam, workers=10)
        if r.violated:
            chk.violation('model invariant %s (%s)' % (r.violated, fam), 'TLC: %s violated in GenOps' % r.violated, r.output[-3000:])
        chk.add('states', r.states)
        chk.add('transitions', r.generated)
        chk.notes.setdefault('model', {})[fam] = {'states': r.states, 'transitions_emitted': len(units)}
        allunits += units
    chk.cov['exhaustive'] = True
    b1.replay(chk, allunits, keyfn, sample=1500 if quick else None, seed=chk.seed, label='g')
    # B2: random well-typed terms (depth <= 4, up to 3 datasets, 1-3 identifiers, 1-3 measures)
    ru = termgen.random_units(rnd, 350 if quick else 5000) + termgen.random_ifds_units(rnd, 60 if quick else 1200) + termgen.random_caseds_units(rnd, 40 if quick else 800)     # + dataset-level if / case
    lu, lo, vv = b1.validate(chk, ru, keyfn)
    # the same statements written as calls of user-defined operators (define operator f (p_1 dataset, ...) returns dataset is <body>):
    # only statements the engine gets right as written are wrapped, so a failure here is the operator call's
    good = [u for u, v in zip(lu, vv) if v['ok']]
    uu = termgen.udo_wrap(good, rnd, share=0.35)
    for u in uu:
        u['nopack'] = True
    b1.validate(chk, uu, lambda u: 'as user-defined operator | ' + keyfn(dict(u, term=u['term']['body'])), pack=1)
    # in / not_in against value domains of the environment (growth: run(value_domains=...))
    b1.validate(chk, termgen.random_vd_units(rnd, 60 if quick else 1500), lambda u: 'value domain | ' + keyfn(u), pack=1)
    random_check(chk, rnd, 25 if quick else 400)
    strdist_check(chk)
    b1.binding_demo(chk, lu, lo, corrupt)
    chk.cov['rule'] = ('B1: every transition of the TLC model GenOps (combination tables meeting every pair of pool values incl. null, '
                       'zero, negative, fractional; every operator at dataset, dataset-scalar, scalar-dataset and component level; every '
                       'key-overlap pattern; chained second statement) replayed into run() (seeded sample in the quick tier); B2: random '
                       'well-typed terms of depth <= 4 over 1-3 datasets validated by VTLOperators_Trace, dataset-level if / case, the same statements as user-defined operator calls, in / not_in against value domains. distinct = distinct (term, result)')
    chk.assumptions += ['transcendental results (ln, exp, log, sqrt, non-integer power) are only checked for domain, null and type',
                        'numbers compared with 1e-6 relative tolerance', 'parser stand-in']
