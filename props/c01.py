"""C01 Element-wise operators compute VTL values over matched datapoints."""
import json
import random

from harness import b1, gen, termgen

LEVEL = 'model_checking'


def keyfn(u):
    return termgen.shape(u['term'])


def corrupt(o):
    for r in o['rows']:
        for c, v in r.items():
            if v[0] == 1 and not c.startswith('Id'):
                v[1] += 1
                return o
            if v[0] == 3:
                v[1] = not v[1]
                return o
    return None


def main(chk):
    rnd = random.Random(chk.seed)
    quick = chk.tier == 'quick'
    allunits = []
    for fam in ('num', 'bool', 'str', 'overlap'):
        units, r = b1.generate('GenOps', 'GenOps_%s.cfg' % fam, workers=10)
        if r.violated:
            chk.violation('model invariant %s (%s)' % (r.violated, fam), 'TLC: %s violated in GenOps' % r.violated, r.output[-3000:])
        chk.add('states', r.states)
        chk.add('transitions', r.generated)
        chk.notes.setdefault('model', {})[fam] = {'states': r.states, 'transitions_emitted': len(units)}
        allunits += units
    chk.cov['exhaustive'] = True
    b1.replay(chk, allunits, keyfn, sample=1500 if quick else None, seed=chk.seed, label='g')
    # B2: random well-typed terms (depth <= 4, up to 3 datasets, 1-3 identifiers, 1-3 measures)
    ru = termgen.random_units(rnd, 350 if quick else 5000) + termgen.random_ifds_units(rnd, 60 if quick else 1200) + termgen.random_caseds_units(rnd, 40 if quick else 800)     # + dataset-level if / case
    lu, lo, vv = b1.validate(chk, ru, keyfn)
    # the same statements written as calls of user-defined operators (define operator f (p_1 dataset, ...) returns dataset is <body>):
    # only statements the engine gets right as written are wrapped, so a failure here is the operator call's
    good = [u for u, v in zip(lu, vv) if v['ok']]
    uu = termgen.udo_wrap(good, rnd, share=0.35)
    for u in uu:
        u['nopack'] = True
    b1.validate(chk, uu, lambda u: 'as user-defined operator | ' + keyfn(dict(u, term=u['term']['body'])), pack=1)
    # in / not_in against value domains of the environment (growth: run(value_domains=...))
    b1.validate(chk, termgen.random_vd_units(rnd, 60 if quick else 1500), lambda u: 'value domain | ' + keyfn(u), pack=1)
    b1.binding_demo(chk, lu, lo, corrupt)
    chk.cov['rule'] = ('B1: every transition of the TLC model GenOps (combination tables meeting every pair of pool values incl. null, '
                       'zero, negative, fractional; every operator at dataset, dataset-scalar, scalar-dataset and component level; every '
                       'key-overlap pattern; chained second statement) replayed into run() (seeded sample in the quick tier); B2: random '
                       'well-typed terms of depth <= 4 over 1-3 datasets validated by VTLOperators_Trace, dataset-level if / case, the same statements as user-defined operator calls, in / not_in against value domains. distinct = distinct (term, result)')
    chk.assumptions += ['transcendental results (ln, exp, log, sqrt, non-integer power) are only checked for domain, null and type',
                        'numbers compared with 1e-6 relative tolerance', 'parser stand-in']
