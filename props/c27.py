"""C27 SDMX structures map to VTL structures as documented."""
import json
import os
import random

from harness import engine, k2, tlc

LEVEL = 'model_checking'
ROLES = ['DIMENSION', 'MEASURE', 'ATTRIBUTE']


def pysdmx_types():
    from pysdmx.model import DataType
    return [d.value for d in DataType]


def build(arg):
    """Worker: build the pysdmx object(s) for one structure and observe the engine's mapping.
    arg: {id, comps: [{id, role, dtype}], container: schema|dsd|dataflow}"""
    engine.boot()
    from pysdmx.io.pd import PandasDataset
    from pysdmx.model import Component, Components, Concept, DataType, Role, Schema
    from pysdmx.model.dataflow import Dataflow, DataStructureDefinition
    import pandas as pd
    from vtlengine import run, run_sdmx, semantic_analysis
    from vtlengine.files.sdmx_handler import to_vtl_json
    comps = []
    for c in arg['comps']:
        role = getattr(Role, c['role'])
        kw = {'attachment_level': c.get('attach', 'O')} if role == Role.ATTRIBUTE else {}
        comps.append(Component(id=c['id'], required=c['role'] == 'DIMENSION', role=role, concept=Concept(id=c['id']), local_dtype=DataType(c['dtype']), **kw))
    components = Components(comps)
    schema = Schema(context='datastructure', agency='MD', id=arg['id'], version='1.0', components=components)
    dsd = DataStructureDefinition(id=arg['id'], agency='MD', version='1.0', components=components, name=arg['id'])
    flow = Dataflow(id=arg['id'], agency='MD', version='1.0', structure=dsd, name=arg['id'])
    obj = {'schema': schema, 'dsd': dsd, 'dataflow': flow}[arg['container']]
    out = {}

    def outcome(f):
        try:
            return {'ok': f()}
        except Exception as e:  # noqa
            c = k2.classify_exception(e)
            return {'err': c['err'], 'code': c.get('code'), 'msg': c['msg'][:200]}

    def norm(js):
        ds = js['datasets'][0]
        return {'name': ds['name'], 'comps': [{'name': c['name'], 'role': c['role'], 'type': c['type'], 'nullable': c['nullable']} for c in ds['DataStructure']]}

    out['to_vtl_json'] = outcome(lambda: norm(to_vtl_json(obj)))
    first = arg['comps'][0]['id']

    def sem():
        r = semantic_analysis(script='R <- %s;' % arg['id'], data_structures=obj)['R']
        return {'name': arg['id'], 'comps': [{'name': c.name, 'role': c.role.value, 'type': ('Time_Period' if c.data_type.__name__ == 'TimePeriod' else 'Time' if c.data_type.__name__ == 'TimeInterval' else c.data_type.__name__), 'nullable': c.nullable}
                                             for c in r.components.values()]}
    out['semantic_analysis'] = outcome(sem)

    def do_run():
        r = run(script='R <- %s;' % arg['id'], data_structures=obj, datapoints={arg['id']: pd.DataFrame({c['id']: [] for c in arg['comps']}, dtype='object')})['R']
        return {'name': arg['id'], 'comps': [{'name': c.name, 'role': c.role.value, 'type': ('Time_Period' if c.data_type.__name__ == 'TimePeriod' else 'Time' if c.data_type.__name__ == 'TimeInterval' else c.data_type.__name__), 'nullable': c.nullable}
                                             for c in r.components.values()]}
    out['run'] = outcome(do_run)

    def do_run_sdmx():
        pds = PandasDataset(structure=Schema(context='dataflow', agency='MD', id=arg['id'], version='1.0', components=components), data=pd.DataFrame({c['id']: [] for c in arg['comps']}, dtype='object'))
        r = run_sdmx(script='R <- %s;' % arg['id'], datasets=[pds], mappings={'Dataflow=MD:%s(1.0)' % arg['id']: arg['id']})['R']
        return {'name': arg['id'], 'comps': [{'name': c.name, 'role': c.role.value, 'type': ('Time_Period' if c.data_type.__name__ == 'TimePeriod' else 'Time' if c.data_type.__name__ == 'TimeInterval' else c.data_type.__name__), 'nullable': c.nullable}
                                             for c in r.components.values()]}
    if arg.get('run_sdmx'):
        out['run_sdmx'] = outcome(do_run_sdmx)
    return out


def main(chk):
    rnd = random.Random(chk.seed)
    quick = chk.tier == 'quick'
    engine.boot()
    dtypes = pysdmx_types()
    structs = []
    # exhaustive: every dtype x every role (next to a fixed String dimension so that the dataset has an identifier)
    for d in dtypes:
        for r in ROLES:
            comps = [{'id': 'DIM_0', 'role': 'DIMENSION', 'dtype': 'String'}, {'id': 'C_1', 'role': r, 'dtype': d}]
            structs.append({'id': 'S_%s_%s' % (d, r[:3]), 'comps': comps})
    # an attribute is one VTL component whatever it is attached to: observation, dataset, a dimension, a group of dimensions
    for d in ('String', 'Integer', 'ObservationalTimePeriod', 'Boolean'):
        for lv, att in (('obs', 'O'), ('dataset', 'D'), ('dim', 'DIM_0'), ('dims', 'DIM_0,DIM_1')):
            comps = [{'id': 'DIM_0', 'role': 'DIMENSION', 'dtype': 'String'}, {'id': 'DIM_1', 'role': 'DIMENSION', 'dtype': 'Integer'}, {'id': 'OBS', 'role': 'MEASURE', 'dtype': 'Double'},
                     {'id': 'A_1', 'role': 'ATTRIBUTE', 'dtype': d, 'attach': att}, {'id': 'A_2', 'role': 'ATTRIBUTE', 'dtype': 'String', 'attach': 'O'}]
            structs.append({'id': 'T_%s_%s' % (d, lv), 'comps': comps})
    # sampled structures of 1-5 components (any order of roles, possibly no dimension, possibly several unmapped types)
    for k in range(60 if quick else 600):
        n = rnd.choice([1, 2, 3, 4, 5])
        comps = [{'id': 'C_%d' % j, 'role': rnd.choice(ROLES), 'dtype': rnd.choice(dtypes)} for j in range(n)]
        dims = [c['id'] for c in comps if c['role'] == 'DIMENSION']
        for c in comps:
            if c['role'] == 'ATTRIBUTE':
                c['attach'] = rnd.choice(['O', 'O', 'D'] + dims)
        structs.append({'id': 'R_%d' % k, 'comps': comps})
    path = os.path.join(engine.sub_dir('traces'), 'sdmx-%d.json' % os.getpid())
    json.dump({'structures': structs}, open(path, 'w'))
    r = tlc.run('GenSdmx', 'GenSdmx.cfg', env={'SDMX_FILE': path}, workers=1)
    if r.violated:
        chk.violation('model %s' % r.violated, 'TLC: %s violated' % r.violated, r.output[-1500:])
        return
    tlc.must(r, 'GenSdmx')
    chk.add('states', r.states)
    chk.add('transitions', r.generated)
    chk.cov['exhaustive'] = True
    exp = {}
    for line in r.lines:
        x = json.loads(line)
        exp[x['id']] = x['exp']
    args, meta = [], []
    for s in structs:
        for ci, cont in enumerate(('schema', 'dsd', 'dataflow')):
            if s['id'].startswith('R_') and ci != (hash(s['id']) % 3) and quick:
                continue
            a = dict(s)
            a['container'] = cont
            a['run_sdmx'] = cont == 'schema'
            args.append(a)
            meta.append((s, cont))
    obs = k2.pmap('props.c27:build', args)
    distinct = set()
    for (s, cont), o in zip(meta, obs):
        e = exp[s['id']]
        for api, res in o.items():
            chk.add('evaluations')
            key = '%s via %s(%s)' % ('+'.join(sorted({c['dtype'] for c in s['comps'] if e.get('err')})) or 'mapped', api, cont)
            if 'err' in res and res['err'].startswith('RAW'):
                un = sorted({c['dtype'] for c in s['comps']} - set(MAPPED(dtypes)))
                chk.violation('raw %s | %s | %s' % (res['err'][4:], api, ','.join(un) or '-'), '%s(%s) of %s raised a raw %s %s' % (api, cont, s['comps'], res['err'], res['msg']), {'structure': s, 'container': cont})
                continue
            if 'err' in e:
                if 'err' not in res:
                    chk.violation('unmappable accepted | %s' % key, 'the documented table has no VTL type for %s; %s returned a structure' % ([c['dtype'] for c in s['comps']], api), {'structure': s})
                elif res['err'] not in ('InputValidationException',):
                    chk.violation('wrong error class | %s' % key, 'an input-validation error is required, %s raised %s %s' % (api, res['err'], res['msg']), {'structure': s})
                else:
                    chk.add('traces_validated_against_impl')
                    distinct.add((s['id'][:1], api, cont, 'err'))
                continue
            if 'err' in res:
                # a structure that maps but cannot be used (e.g. no identifier and ...) is not the mapping's concern unless to_vtl_json itself fails
                if api == 'to_vtl_json' or res['err'] != 'SemanticError':
                    chk.violation('mappable rejected | %s' % key, '%s(%s) of %s raised %s %s' % (api, cont, s['comps'], res['err'], res['msg']), {'structure': s})
                else:
                    chk.add('mapped_but_rejected_by_semantics')
                continue
            got = res['ok']
            want = sorted(json.dumps(c, sort_keys=True) for c in e['comps'])
            have = sorted(json.dumps(c, sort_keys=True) for c in got['comps'])
            if want != have or len(got['comps']) != e['n']:
                chk.violation('mapping | %s' % key, '%s(%s): documented %s, engine %s' % (api, cont, e['comps'], got['comps']), {'structure': s})
            elif got['name'] != s['id']:
                chk.violation('name | %s' % key, 'dataset name %s, expected %s' % (got['name'], s['id']), {'structure': s})
            else:
                chk.add('traces_validated_against_impl')
                distinct.add((tuple(sorted((c['role'], c['dtype']) for c in s['comps'])), api, cont))
                if len(chk.cov['samples']) < 4:
                    chk.sample({'sdmx': s['comps'], 'container': cont, 'api': api, 'vtl': got['comps']})
    chk.add('distinct_nontrivial', len(distinct))
    chk.notes['pysdmx_dtypes'] = len(dtypes)
    chk.notes['structures'] = len(structs)
    chk.notes['binding_demo'] = 'expected structures come from TLC (VTLSdmx!MapStructure over the documented tables)'
    chk.cov['rule'] = ('every pysdmx DataType (read from the installed pysdmx) x every Role as a component next to a fixed dimension, and seeded structures of 1-5 components, are mapped by '
                       'TLC with the documented tables (VTLSdmx) and built as Schema, DataStructureDefinition and Dataflow; to_vtl_json(), semantic_analysis(), run() and run_sdmx() '
                       'must show one component per SDMX component with the documented role, type and nullability, or an input-validation error for an unmappable type. '
                       'distinct = distinct (component multiset, api, container)')
    chk.assumptions += ['SDMX-ML structure files need pysdmx[xml], which is not installed: pysdmx objects only']


def MAPPED(dtypes):
    from props.c27 import _MAPPED
    return _MAPPED


_MAPPED = ['String', 'Alpha', 'AlphaNumeric', 'Numeric', 'URI', 'Month', 'MonthDay', 'Day', 'Time', 'BigInteger', 'Integer', 'Long', 'Short', 'Count', 'Decimal', 'Float', 'Double',
           'InclusiveValueRange', 'ExclusiveValueRange', 'Incremental', 'Boolean', 'BasicTimePeriod', 'GregorianTimePeriod', 'GregorianYear', 'GregorianYearMonth', 'GregorianMonth',
           'GregorianDay', 'DateTime', 'ObservationalTimePeriod', 'StandardTimePeriod', 'ReportingTimePeriod', 'ReportingYear', 'ReportingSemester', 'ReportingTrimester',
           'ReportingQuarter', 'ReportingMonth', 'ReportingWeek', 'ReportingDay', 'TimeRange', 'Duration']
