"""C03 Aggregations group and summarise as specified."""
import random

from harness import b1, termgen
from props import c01

LEVEL = 'model_checking'


def keyfn(u):
    t = u['term']
    if t['k'] == 'agg':
        return 'agg %s %s%s' % (t['op'], t['mode'], ' having' if t['having'] else '')
    return 'aggr %s %s%s' % ('+'.join(i['agg']['op'] for i in t['items']), t['mode'], ' having' if t['having'] else '')


def main(chk):
    rnd = random.Random(chk.seed)
    quick = chk.tier == 'quick'
    units, r = b1.generate('GenAggr', 'GenAggr.cfg', workers=10)
    if r.violated:
        chk.violation('model invariant %s' % r.violated, 'TLC: %s violated in GenAggr' % r.violated, r.output[-3000:])
    chk.add('states', r.states)
    chk.add('transitions', r.generated)
    chk.cov['exhaustive'] = True
    b1.replay(chk, units, keyfn, sample=None, seed=chk.seed, label='g')
    ru = termgen.random_agg_units(rnd, 400 if quick else 4000)
    lu, lo, _ = b1.validate(chk, ru, keyfn)
    b1.binding_demo(chk, lu, lo, c01.corrupt)
    chk.cov['rule'] = ('B1: the ten aggregates x {no grouping, group by 1-2 ids, group except 1-2 ids} x {no having, having on count()/sum/max} '
                       'standalone and inside aggr (1-2 items, expression operands, attribute role) over datasets with repeated keys in the '
                       'non-grouped identifier, null measures, an all-null group, a single-datapoint group and the empty dataset, enumerated by '
                       'TLC (GenAggr) and replayed; B2: random aggregation statements over random datasets of 0-200 datapoints validated by '
                       'VTLOperators_Trace (exact rationals; stddev checked by squaring). distinct = distinct (term, result)')
    chk.assumptions += ['median of an even group = mean of the two middle values', 'Duration / Time_Period min-max belong to C08']
