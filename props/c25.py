"""C25 generate_sdmx produces a TransformationScheme equivalent to the script."""
from props import c01, forms
from harness import b1

LEVEL = 'model_checking'


def main(chk):
    rnd, quick = forms.drive(chk, ['scheme'], 'generate_sdmx')
    lu, lo = forms.replay_through(chk, 'sdmx', rnd, quick)
    b1.binding_demo(chk, lu, lo, c01.corrupt)
    chk.cov['rule'] = ('VTLScripts!SchemeMatches: one transformation per assignment, in order, with the result name and persistence, whose expression re-parses to the assignment\'s abstract syntax; every '
                       'ruleset / user-defined operator re-parses to the original definition; running the scheme gives the results of the script. Every parseable corpus script (thorough: all, quick: a '
                       'sample), literal / reserved-word / comment scripts and generated statements of all modelled families are turned into a TransformationScheme, observed and validated by TLC '
                       '(VTLScripts_Trace); random units are run THROUGH generate_sdmx() and validated against the operator semantics (VTLOperators_Trace)')
    chk.assumptions += ['the scheme is used as the pysdmx object generate_sdmx() returns (no serialisation to SDMX-ML)']
