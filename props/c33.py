"""C33 Results depend only on the set of input datapoints."""
import json
import random

from harness import b1, corpus, k2, variants, termgen
from props import c12

LEVEL = 'model_checking'
FORMS = [('df', True), ('df', False), ('csv', True), ('parquet', True)]


def keyfn(u):
    return 'variant form=%s | %s' % (u.get('form', 'df') + ('' if u.get('native', True) else '-str'), termgen.shape(u['term']))


def csv_safe(u):
    """CSV cannot carry the empty string (it reads back as null: C18's subject), keep such units off the CSV form."""
    for x in u['env'].values():
        for r in x.get('rows', []):
            for v in r.values():
                if v[0] == 4 and (v[1] == [] or 34 in v[1]):
                    return False
    return True


def main(chk):
    rnd = random.Random(chk.seed)
    quick = chk.tier == 'quick'
    base = variants.mixed_units(rnd, 120 if quick else 1200)
    units = []
    for u in base:
        nrows = max([len(x['rows']) for x in u['env'].values() if 'rows' in x] or [0])
        k = 6 if quick else (24 if nrows <= 4 else 20)
        for j in range(k):
            form, native = FORMS[j % len(FORMS)]
            if form == 'csv' and not csv_safe(u):
                form = 'df'
            v = dict(u)
            v.update({'id': '%s.p%d' % (u['id'], j), 'perm': rnd.randrange(1, 10 ** 6), 'form': form, 'native': native, 'base': u['id']})
            units.append(v)
    lu, lo, verdicts = b1.validate(chk, units, keyfn, pack=20, raw_is_violation=False, group='base')
    # every variant of a base unit must have been accepted by the same spec step; count groups
    groups = {}
    for u, v in zip(lu, verdicts):
        groups.setdefault(u['base'], []).append(v['ok'])
    chk.notes['generated_groups'] = len(groups)
    b1.binding_demo(chk, lu, lo, __import__('props.c01', fromlist=['corrupt']).corrupt)
    # corpus: agreement across shuffles of the CSV rows and columns
    cases = corpus.discover()
    rnd.shuffle(cases)
    args, meta = [], []
    want = 40 if quick else 500
    for c in cases:
        if len({m[0] for m in meta}) >= want:
            break
        text = open(c['vtl'], encoding='utf-8').read()
        if variants.order_dependent_text(text):
            continue
        for seed in [None] + [rnd.randrange(1, 10 ** 6) for _ in range(2 if quick else 6)]:
            args.append({'case': c, 'seed': seed})
            meta.append((c['id'], seed))
    obs = k2.pmap('harness.variants:corpus_variant', args)
    tun = {}
    for (cid, seed), o in zip(meta, obs):
        chk.add('evaluations')
        t = tun.setdefault(cid, {'id': 'c' + c12.digest(cid), 'n': 0, 'reads': [], 'dup': False, 'obs': [], 'corpus': cid})
        t['obs'].append({'perm': [seed or 0], 'api': 'run', 'outcome': o['outcome'], 'digest': o['digest']})
    tlist = [t for t in tun.values() if t['obs'][0]['outcome'] == 'ok']       # valid corpus scripts only
    chk.notes['corpus_scripts_valid'] = len(tlist)
    verd = c12.validate(chk, [{k: v for k, v in t.items() if k != 'corpus'} for t in tlist])
    for t in tlist:
        v = verd[t['id']]
        chk.add('traces_validated_against_impl', len(t['obs']))
        if not v['ok']:
            chk.violation('corpus %s | %s' % (t['corpus'], v['why']), 'permuting the rows/columns of the input CSVs changed the outcome: %s' % v['why'], t)
    chk.cov['rule'] = ('every random unit (element-wise, clause chains, aggregations, set operators; 0-40 rows) is observed under %s row+column '
                       'permutations cycling through the input forms DataFrame(native), DataFrame(string), CSV, Parquet; EVERY observation is '
                       'validated by TLC against the one spec step (datasets are sets in the spec); corpus scripts (no current_date / analytic) '
                       'are run with their CSV rows and columns shuffled and the outcomes grouped and compared by VTLOrder_Trace. '
                       'distinct = distinct (term, result size)') % ('6' if quick else '20-24')
    chk.assumptions += ['analytic functions with ties and current_date are excluded as the property states']
