"""C16 run() releases its session resources at every failure point."""
import json
import os
import random
import shutil
import tempfile

from harness import corpus, engine, k2, tlc
from props import c12, c13

LEVEL = 'model_checking'


class Injected(Exception):
    pass


def fault_sequence(unit):
    """Worker: baseline run, then runs with an injected fault at the given points, then a clean run.
    Returns the hook-event log with one observed 'end' event per run."""
    engine.boot()
    import duckdb
    from vtlengine import run, _verif
    from harness import values
    if 'case' in unit:
        text, ds, dps, _ = corpus.load_case(unit['case'])
    else:
        script = unit['script']
        text = '\n'.join(c13.stmt_text(s) for s in script)
        inputs = sorted({r for s in script for r in s['reads']} - {s['name'] for s in script})
        ds, dps, _ = k2.build_inputs({n: c13.input_ds(int(n.split('_')[1])) for n in inputs})
    tmp = tempfile.mkdtemp(prefix='c16-', dir=engine.sub_dir('tmp'))
    outdir = tempfile.mkdtemp(prefix='c16o-', dir=engine.sub_dir('tmp')) if unit.get('to_files') else None
    saved = {k: os.environ.get(k) for k in ('VTL_TEMP_DIRECTORY', 'VTL_USE_IN_MEMORY_DB')}
    os.environ['VTL_TEMP_DIRECTORY'] = tmp
    os.environ['VTL_USE_IN_MEMORY_DB'] = '0' if unit.get('file_backed') else '1'
    conns = []
    real_connect = duckdb.connect

    def connect(*a, **k):
        c = real_connect(*a, **k)
        conns.append(c)
        return c
    duckdb.connect = connect
    events = []
    state = {'n': 0, 'at': None, 'kinds': []}

    def injector(kind, name):
        state['n'] += 1
        state['kinds'].append(kind)
        if state['at'] is not None and state['n'] == state['at']:
            events.append({'ev': 'fault', 'kind': kind, 'name': name or '', 'k': state['n']})
            if unit.get('exc') == 'os':
                raise OSError('verif injected fault at %s %s' % (kind, name))
            raise duckdb.Error('verif injected fault at %s %s' % (kind, name))

    def sink(e):
        events.append({'ev': e['ev'], 'name': str(e.get('name', ''))})

    def open_conns():
        n = 0
        for c in conns:
            try:
                c.execute('select 1')
                n += 1
            except Exception:
                pass
        return n

    def tmp_fds():
        n = 0
        for fd in os.listdir('/proc/self/fd'):
            try:
                p = os.readlink('/proc/self/fd/' + fd)
            except OSError:
                continue
            if p.startswith(tmp) or (outdir and p.startswith(outdir)):
                n += 1
        return n

    def one_run(at):
        state['n'] = 0
        state['at'] = at
        state['kinds'] = []
        del conns[:]
        kw = {}
        if outdir:
            kw = {'output_folder': outdir, 'output_format': unit.get('fmt', 'csv')}
        try:
            r = run(script=text, data_structures=ds, datapoints=dps, return_only_persistent=unit.get('rop', False), **kw)
            if outdir:
                dig = c12.digest(sorted((f, open(os.path.join(outdir, f), 'rb').read().hex()) for f in os.listdir(outdir) if f.endswith('.csv')))
            else:
                dig = c12.digest({k: c12.canon_result(values.enc_result(v)) for k, v in r.items()})
            out = ('ok', dig, None)
        except Exception as e:  # noqa
            c = k2.classify_exception(e)
            out = ('error', None, c)
        return out

    res = {'text': text, 'runs': []}
    try:
        _verif.fault = injector
        base = one_run(None)
        res['fault_points'] = state['n']
        res['kinds'] = list(state['kinds'])
        if base[0] != 'ok':
            res['skip'] = 'baseline run fails: %s' % (base[2],)
            return res
        if outdir:
            for f in os.listdir(outdir):
                os.unlink(os.path.join(outdir, f))
        _verif.sink = sink
        for at in list(unit['faults']) + [None]:
            if at is not None and at > res['fault_points']:
                continue
            out = one_run(at)
            same = out[0] == 'ok' and out[1] == base[1]
            ev = {'ev': 'end', 'dirs': len(os.listdir(tmp)), 'conns': open_conns(), 'fds': tmp_fds(),
                  'outcome': out[0], 'same': bool(same)}
            events.append(ev)
            res['runs'].append({'at': at, 'outcome': out[0], 'err': out[2], 'left': os.listdir(tmp)[:3]})
            if outdir:
                for f in os.listdir(outdir):
                    os.unlink(os.path.join(outdir, f))
        res['events'] = events
    finally:
        _verif.fault = None
        _verif.sink = None
        duckdb.connect = real_connect
        for k, v in saved.items():
            if v is None:
                os.environ.pop(k, None)
            else:
                os.environ[k] = v
        shutil.rmtree(tmp, ignore_errors=True)
        if outdir:
            shutil.rmtree(outdir, ignore_errors=True)
    return res


def validate(chk, tunits):
    path = engine.sub_dir('traces') + '/session-%d.json' % len(tunits)
    json.dump(tunits, open(path, 'w'))
    r = tlc.run('VTLSession_Trace', 'VTLSession_Trace.cfg', env={'TRACE_FILE': path}, workers=8)
    if r.violated:
        raise RuntimeError('VTLSession_Trace: invariant %s violated inside the trace spec' % r.violated)
    tlc.must(r, 'VTLSession_Trace')
    chk.add('states', r.states)
    chk.add('transitions', r.generated)
    reach = {}
    for line in r.lines:
        v = json.loads(line)
        reach[v['id']] = max(reach.get(v['id'], 0), v['l'])
    return reach


def main(chk):
    rnd = random.Random(chk.seed)
    quick = chk.tier == 'quick'
    # B3: life-cycle model, every fault position, sequences of runs
    for cfg, what in (('VTLSession_code.cfg', 'shipped protection (from connect on)'), ('VTLSession_req.cfg', 'requirement (everything protected)')):
        r = tlc.run('VTLSession', cfg, workers=4, coverage=True)
        if r.violated:
            chk.violation('model %s %s' % (cfg, r.violated), 'TLC: %s violated in VTLSession under %s' % (r.violated, what), r.output[-3000:])
        else:
            tlc.must(r, cfg)
            tlc.vacuity(chk, r, 'VTLSession / ' + cfg)
        chk.add('states', r.states)
        chk.add('transitions', r.generated)
    chk.cov['exhaustive'] = True
    # scripts: generated (C13 family) and corpus
    gen = tlc.must(tlc.run('VTLSchedule', 'VTLSchedule_quick.cfg', workers=8), 'VTLSchedule')
    scripts = [json.loads(x) for x in sorted(set(gen.lines))]
    scripts = [s for s in scripts if len(s['script']) == 3]
    pick = rnd.sample(scripts, 10 if quick else 80)
    units = []
    for n, s in enumerate(pick):
        mode = [{}, {'to_files': True, 'fmt': 'csv'}, {'file_backed': True}, {'to_files': True, 'fmt': 'parquet', 'file_backed': True}][n % 4]
        for k in range(1, 16):
            units.append(dict(mode, script=s['script'], rop=s['rop'], faults=[k], exc='os' if k % 3 == 0 else 'duckdb'))
        # sequences of up to 3 failing runs followed by a clean one
        for _ in range(2 if quick else 5):
            units.append(dict(mode, script=s['script'], rop=s['rop'], faults=[rnd.randrange(1, 12) for _ in range(rnd.choice([2, 3]))]))
    cases = corpus.discover()
    rnd.shuffle(cases)
    for c in cases[:(12 if quick else 150)]:
        for k in ([1, 2, 3, 5, 8] if quick else range(1, 20)):
            units.append({'case': c, 'faults': [k], 'rop': False})
    obs = k2.pmap('props.c16:fault_sequence', units)
    tunits, back = [], {}
    points = set()
    for i, (u, o) in enumerate(zip(units, obs)):
        if o.get('skip') or not o.get('events'):
            chk.add('skipped_invalid_baseline')
            continue
        if not any(r['at'] is not None for r in o['runs']):
            continue
        chk.add('evaluations', len(o['runs']))
        tid = 's%d' % i
        tunits.append({'id': tid, 'events': o['events']})
        back[tid] = (u, o)
        for r in o['runs']:
            if r['at'] is not None:
                points.add((o['text'], r['at']))
    reach = validate(chk, tunits)
    for t in tunits:
        u, o = back[t['id']]
        chk.add('traces_validated_against_impl')
        got = reach.get(t['id'], 0)
        if got < len(t['events']):
            bad = t['events'][got] if got < len(t['events']) else None
            kinds = [e['kind'] for e in t['events'] if e['ev'] == 'fault']
            chk.violation('session trace rejected at %s after fault at %s | %s' % (bad['ev'] if bad else '?', ','.join(kinds), o['text'][:80]),
                          'event %d (%s) is not allowed by VTLSession: %s; runs=%s' % (got + 1, json.dumps(bad), 'resources left / wrong outcome / life-cycle order', o['runs']),
                          {'script': o['text'], 'faults': u['faults'], 'events': t['events'][:60], 'runs': o['runs']})
        else:
            chk.sample({'script': o['text'][:200], 'faults_at': u['faults'], 'events': ['%s %s' % (e['ev'], e.get('name', e.get('kind', ''))) for e in t['events']][:40]})
    chk.add('distinct_nontrivial', len(points))
    # binding demonstration: pretend a directory was left behind
    if tunits:
        demo = json.loads(json.dumps(tunits[0]))
        demo['id'] = 'demo'
        for e in demo['events']:
            if e['ev'] == 'end':
                e['dirs'] = 1
                break
        if validate(chk, [demo]).get('demo', 0) >= len(demo['events']):
            raise RuntimeError('binding demonstration failed (C16)')
        chk.notes['binding_demo'] = 'end event with dirs=1 rejected'
    chk.cov['rule'] = ('B3: TLC explores every fault position of the session life cycle over 3 consecutive runs; B1: every fault point '
                       '(connect, configure, each load / statement / fetch / file write) of generated scripts (in-memory, file-backed, '
                       'csv and parquet output) and of corpus scripts is hit by an injected duckdb.Error/OSError, alone and in sequences of '
                       '2-3 failing runs followed by a clean one; observed: private temp dir entries, open connections, fds, outcome, equality of '
                       'the clean run with the baseline; B2: each log is validated against VTLSession. distinct = distinct (script, fault point)')
    chk.assumptions += ['fault points are the guarded hooks; faults inside DuckDB itself are not simulated']
