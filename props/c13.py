"""C13 Dataset load/release schedule is safe and results are selected correctly."""
import json
import random

from harness import b1, dagscripts, k2, tlc, engine

LEVEL = 'model_checking'

COMPS = [{'n': 'Id_1', 'r': 'I', 't': 'Integer'}, {'n': 'Me_1', 'r': 'M', 't': 'Integer'}]


def input_ds(j):
    return {'comps': COMPS, 'rows': [{'Id_1': [1, 1], 'Me_1': [1, 10 ** (j - 1)]}, {'Id_1': [1, 2], 'Me_1': [1, 3 * 10 ** (j - 1)]}]}


def stmt_text(s):
    reads = sorted(s['reads'])
    return '%s %s %s;' % (s['name'], '<-' if s['pers'] else ':=', ' + '.join(reads))


def inline_term(script, name):
    byname = {s['name']: s for s in script}
    if name not in byname:
        return {'k': 'var', 'name': name}
    reads = sorted(byname[name]['reads'])
    t = inline_term(script, reads[0])
    for r in reads[1:]:
        t = {'k': 'bin', 'op': '+', 'l': t, 'r': inline_term(script, r)}
    return t


def observe(unit):
    """Worker side: run one script with the hooks on; return order, schedule, events, results."""
    engine.boot()
    import pandas as pd
    from vtlengine import run, create_ast, _verif
    from vtlengine.AST import Assignment, PersistentAssignment
    from vtlengine.AST.DAG import DAGAnalyzer
    from harness import values
    script = unit['script']
    text = '\n'.join(s.get('text') or stmt_text(s) for s in script)
    inputs = sorted({r for s in script for r in s['reads']} - {s['name'] for s in script})
    env = {n: input_ds(int(n.split('_')[1])) for n in inputs}
    ds, dps, _ = k2.build_inputs(env)
    out = {'text': text, 'inputs': inputs}
    try:
        ast = create_ast(text)
        out['order'] = [c.left.value for c in ast.children if isinstance(c, (Assignment, PersistentAssignment))]
        sch = DAGAnalyzer.ds_structure(ast)
        n = len(out['order'])
        out['sched'] = {'ins': [sorted(sch.insertion.get(k, [])) for k in range(1, n + 1)],
                        'del': [sorted(sch.deletion.get(k, [])) for k in range(1, n + 1)],
                        'dupdel': any(len(v) != len(set(v)) for v in sch.deletion.values()),
                        'gi': sorted(sch.global_inputs), 'pers': sorted(sch.persistent)}
        ev = []
        _verif.sink = ev.append
        try:
            r = run(script=text, data_structures=ds, datapoints=dps, return_only_persistent=unit['rop'])
        finally:
            _verif.sink = None
        out['events'] = [{'ev': e['ev'], 'name': e['name'], 'tables': e.get('tables', [])} for e in ev
                         if e['ev'] in ('load', 'exec', 'fetch', 'release')]
        out['returned'] = sorted(r)
        out['results'] = {k: values.enc_result(v) for k, v in r.items()}
    except Exception as e:  # noqa
        out['err'] = k2.classify_exception(e)
    return out


def trace_unit(uid, unit, o, checksched=True):
    byname = {s['name']: s for s in unit['script']}
    ordered = [byname[n] for n in o['order']]
    return {'id': uid, 'rop': unit['rop'], 'checksched': checksched,
            'script': [{'name': s['name'], 'reads': sorted(s['reads']), 'pers': s['pers']} for s in ordered],
            'sched': o['sched'], 'events': o['events'], 'returned': o['returned']}


def validate_traces(chk, tunits, label):
    path = engine.sub_dir('traces') + '/sched-%s.json' % label
    json.dump(tunits, open(path, 'w'))
    r = tlc.must(tlc.run('VTLSchedule_Trace', 'VTLSchedule_Trace.cfg', env={'TRACE_FILE': path}, workers=12), 'VTLSchedule_Trace')
    chk.add('states', r.states)
    chk.add('transitions', r.generated)
    verdicts = {}
    for line in r.lines:
        v = json.loads(line)
        verdicts[v['id']] = v
    missing = [t['id'] for t in tunits if t['id'] not in verdicts]
    if missing:
        raise RuntimeError('no verdict for %d trace units, e.g. %s' % (len(missing), missing[:3]))
    return verdicts


def main(chk):
    rnd = random.Random(chk.seed)
    quick = chk.tier == 'quick'
    # B3: the transcription of the code refines the abstract store for every script of the family
    r = tlc.run('VTLSchedule', 'VTLSchedule_quick.cfg' if quick else 'VTLSchedule_thorough.cfg', workers=14, timeout=14000, coverage=True)
    if r.violated:
        chk.violation('model %s' % r.violated, 'TLC: %s violated by the transcription of _ds_usage_analysis/execute_queries' % r.violated,
                      r.output[-4000:])
    else:
        tlc.must(r, 'VTLSchedule')
        # FinalFetch ("final results not yet processed") is dead in the model: every selected result is in the deletion list of
        # its last reader (or of its own statement), so it is fetched during a cleanup - DESIGN.md, C13
        tlc.vacuity(chk, r, 'VTLSchedule', dead_ok=('FinalFetch',))
    chk.add('states', r.states)
    chk.add('transitions', r.generated)
    chk.cov['exhaustive'] = True
    scripts = [json.loads(x) for x in sorted(set(r.lines))]
    chk.notes['model'] = {'scripts_enumerated': len(scripts), 'states': r.states}
    sample = rnd.sample(scripts, min(len(scripts), 600 if quick else 6000))
    units = [{'script': s['script'], 'rop': s['rop']} for s in sample]
    # scripts whose dependencies run through clause bodies (scalars used in calc / filter of several statements), in several textual orders
    fam = dagscripts.generate(rnd, 40 if quick else 400)
    famterms = {}
    for sc in fam:
        stm = [{'name': x['name'], 'reads': x['reads'], 'pers': x['pers'], 'text': x['text']} for x in sc['stmts']]
        for rep in range(2):
            order = list(stm)
            if rep:
                rnd.shuffle(order)
            famterms[len(units)] = sc['terms']
            units.append({'script': order, 'rop': rnd.random() < 0.5})
    obs = k2.pmap('props.c13:observe', units)
    tunits, vunits, vobs = [], [], []
    for i, (u, o) in enumerate(zip(units, obs)):
        chk.add('evaluations')
        if 'err' in o:
            chk.violation('run failed | %s' % o['text'], 'valid script rejected: %s' % o['err'], {'script': o['text'], 'err': o['err']})
            continue
        if o['sched'].get('dupdel'):
            chk.violation('schedule lists a dataset twice | %s' % o['text'], 'deletion list contains duplicates', o)
        tunits.append(trace_unit('t%d' % i, u, o))
        # results are computed from the full script: inline every returned result down to the inputs
        env = {n: input_ds(int(n.split('_')[1])) for n in o['inputs']}
        for name, res in o['results'].items():
            if i in famterms:
                if name not in famterms[i]:
                    continue
                term = famterms[i][name]
            else:
                term = inline_term(u['script'], name)
            vunits.append({'id': 't%d.%s' % (i, name), 'env': env, 'term': term, 'cc': False, 'text': o['text']})
            vobs.append(dict(res, text=o['text'] + ' -- ' + name))
    verdicts = validate_traces(chk, tunits, 'gen')
    distinct = set()
    for t in tunits:
        v = verdicts[t['id']]
        chk.add('traces_validated_against_impl')
        distinct.add(json.dumps([t['script'], t['rop']], sort_keys=True))
        if not v['ok']:
            chk.violation('%s | %s' % (v['why'].split(':')[0], ' '.join(stmt_text(s) for s in t['script']) if not any(x.get('scalarfam') for x in t['script']) else 'clause-scalar script'),
                          '%s (event %s)' % (v['why'], v.get('at')), t)
        else:
            chk.sample({'script': [stmt_text(s) for s in t['script']], 'rop': t['rop'], 'events': ['%s %s' % (e['ev'], e['name']) for e in t['events']]})
    chk.add('distinct_nontrivial', len(distinct))
    # values of the returned results
    vs, st, gn = k2.validate(vunits, vobs)
    chk.add('states', st)
    chk.add('transitions', gn)
    for u, v in zip(vunits, vs):
        chk.add('result_values_checked')
        if not v['ok']:
            chk.violation('result value | %s' % u['text'], 'returned result %s is not the value of the full script: %s' % (u['id'], v['why']),
                          {'script': u['text'], 'expected': v.get('exp')})
    # binding demonstration: drop one release event / reorder -> must be rejected
    if tunits:
        bad = json.loads(json.dumps(tunits[0]))
        bad['id'] = 'demo'
        idx = [j for j, e in enumerate(bad['events']) if e['ev'] == 'release']
        del bad['events'][idx[0]]
        v = validate_traces(chk, [bad], 'demo')['demo']
        if v['ok']:
            raise RuntimeError('binding demonstration failed: trace without a release event accepted')
        chk.notes['binding_demo'] = {'removed': 'first release event', 'rejected_because': v['why']}
    chk.cov['rule'] = ('B3: TLC checks that the transcription of _ds_usage_analysis + the execute_queries loop refines the abstract '
                       'table store for EVERY script with <= %d statements over 2 inputs (all read sets, persistence mixes, both '
                       'return_only_persistent values); B1/B2: a seeded sample of those scripts is run with the hooks on and each '
                       'event trace (with catalog snapshots), the real DatasetSchedule and the returned values are validated by TLC '
                       '(VTLSchedule_Trace, VTLOperators_Trace). distinct = distinct (script, rop)') % (3 if quick else 4)
    chk.assumptions += ['reads of generated scripts are known by construction', 'parser stand-in']
