"""C30 Numeric precision settings are applied and validated as documented."""
import json
import os
import random
import subprocess
import sys
from decimal import Decimal, getcontext

from harness import bulk, engine, k2, tlc

LEVEL = 'model_checking'
UNSET = -99
WVAR, SVAR = 'VTL_DUCKDB_DECIMAL_WIDTH', 'OUTPUT_NUMBER_SIGNIFICANT_DIGITS'
getcontext().prec = 60


def text_of(x):
    """probe decimal {neg, int, frac} -> exact input text"""
    i = ''.join(str(d) for d in x['int']) or '0'
    f = ''.join(str(d) for d in x['frac'])
    return ('-' if x['neg'] else '') + i + ('.' + f if f else '')


def sig_digits(text):
    return len(text.replace('-', '').replace('.', '').lstrip('0')) or 1


def exact_of(stored, scale):
    d = Decimal(''.join(str(k) for k in stored['digits']) or '0').scaleb(-scale)
    return -d if stored['neg'] else d


def child():
    """Runs inside a fresh interpreter with the setting in the environment: argv[2] = json {steps: [...]}"""
    arg = json.loads(sys.argv[2])
    out = []
    st1 = bulk.struct('DS_1', [('Id_1', 'Integer', 'I'), ('Me_1', 'Number', 'M')])
    stp = bulk.struct('DS_P', [('Id_1', 'Integer', 'I'), ('Me_a', 'Number', 'M'), ('Me_b', 'Number', 'M')])
    for step in arg['steps']:
        for k, v in step.get('env', {}).items():
            if v is None:
                os.environ.pop(k, None)
            else:
                os.environ[k] = v
        fl = step.get('form') == 'df-float'        # the same numbers as a float64 DataFrame column instead of CSV text
        form = 'df' if fl else 'csv'
        if step['kind'] == 'values':
            r = bulk.run_tables({'script': 'R := DS_1;', 'structures': [st1], 'form': form,
                                 'tables': {'DS_1': {'cols': ['Id_1', 'Me_1'], 'rows': step['rows'], 'floatcols': ['Me_1'] if fl else []}}})
        elif step['kind'] == 'sums':
            r = bulk.run_tables({'script': 'R := DS_P[calc s := Me_a + Me_b, d := Me_a - Me_b];', 'structures': [stp], 'form': form,
                                 'tables': {'DS_P': {'cols': ['Id_1', 'Me_a', 'Me_b'], 'rows': step['rows'], 'floatcols': ['Me_a', 'Me_b'] if fl else []}}})
        else:
            raise ValueError(step['kind'])
        if 'results' in r:
            tb = r['results']['R']
            r = {'cols': tb['cols'], 'rows': [[repr(x) if isinstance(x, float) else x for x in row] for row in tb['rows']]}
        out.append(r)
    sys.stdout.write('\n@@RESULT@@' + json.dumps(out) + '\n')
    sys.stdout.flush()
    os._exit(0)


def run_setting(arg):
    """Worker: spawn a fresh interpreter for the steps of one setting (the engine keeps module-level decimal state)."""
    env = dict(os.environ)
    env['PYTHONPATH'] = engine.VERIF + os.pathsep + env.get('PYTHONPATH', '')
    for k in (WVAR, SVAR):
        env.pop(k, None)
    p = subprocess.run([sys.executable, '-c', 'from props import c30; c30.child()', 'child', json.dumps(arg)], cwd=engine.VERIF, env=env,
                       stdout=subprocess.PIPE, stderr=subprocess.PIPE, text=True, timeout=600)
    for line in p.stdout.splitlines():
        if line.startswith('@@RESULT@@'):
            return json.loads(line[len('@@RESULT@@'):])
    return [{'err': 'RAW:child-failed', 'msg': (p.stderr or p.stdout)[-400:]}]


def envof(w, s):
    return {WVAR: None if w == UNSET else str(w), SVAR: None if s == UNSET else str(s)}


def main(chk):
    rnd = random.Random(chk.seed)
    quick = chk.tier == 'quick'
    rng = list(range(-5, 46))
    if quick:
        border = (-5, -2, -1, 0, 5, 6, 7, 10, 14, 15, 16, 17, 27, 28, 29, 37, 38, 39, 40, 45)
        settings = {(w, UNSET) for w in border} | {(UNSET, s) for s in border}
        settings |= {(w, s) for w in (-1, 5, 6, 16, 38, 39) for s in (-1, 5, 6, 15, 16, 39)}
        settings |= {(rnd.choice(rng), rnd.choice(rng)) for _ in range(8)}
    else:
        settings = {(w, s) for w in rng for s in rng} | {(w, UNSET) for w in rng} | {(UNSET, s) for s in rng}
    settings = sorted(settings | {(UNSET, UNSET)})
    path = os.path.join(engine.sub_dir('traces'), 'cfg-%d.json' % os.getpid())
    json.dump({'settings': [list(x) for x in settings]}, open(path, 'w'))
    r = tlc.run('GenConfig', 'GenConfig.cfg', env={'CFG_FILE': path}, workers=1, timeout=3000)
    if r.violated:
        chk.violation('model %s' % r.violated, 'TLC: digit arithmetic sanity violated (%s)' % r.violated, r.output[-1500:])
        return
    tlc.must(r, 'GenConfig')
    chk.add('states', r.states)
    chk.add('transitions', r.generated)
    chk.cov['exhaustive'] = not quick
    exp = {}
    for line in r.lines:
        x = json.loads(line)
        exp[(x['w'], x['s'])] = x
    args, meta = [], []
    for (w, s) in settings:
        e = exp[(w, s)]
        steps = []
        if e['verdict'] != 'ok':
            steps.append({'kind': 'values', 'env': envof(w, s), 'rows': [[1, '1.5']]})
            plan = [('setting', None)]
        else:
            good = [p for p in e['probes'] if p['stored']['digits'] != [-1]]
            bad = [p for p in e['probes'] if p['stored']['digits'] == [-1]]
            steps.append({'kind': 'values', 'env': envof(w, s), 'rows': [[k, text_of(p['x'])] for k, p in enumerate(good)]})
            plan = [('good', good)]
            # the same values as a float64 column (those a double represents: at most 15 significant digits)
            g15 = [p for p in good if sig_digits(text_of(p['x'])) <= 15]
            if g15:
                steps.append({'kind': 'values', 'form': 'df-float', 'rows': [[k, text_of(p['x'])] for k, p in enumerate(g15)]})
                plan.append(('good float64', g15))
            for p in bad:
                steps.append({'kind': 'values', 'rows': [[0, text_of(p['x'])]]})
                plan.append(('bad', p))
            byid = {p['id']: p for p in e['probes']}
            sums = [x for x in e['sums'] if not x['skip']]
            if sums:
                steps.append({'kind': 'sums', 'rows': [[k, text_of(byid[x['a']]['x']), text_of(byid[x['b']]['x'])] for k, x in enumerate(sums)]})
                plan.append(('sums', sums))
                s15 = [x for x in sums if sig_digits(text_of(byid[x['a']]['x'])) <= 15 and sig_digits(text_of(byid[x['b']]['x'])) <= 15]
                if s15:
                    steps.append({'kind': 'sums', 'form': 'df-float', 'rows': [[k, text_of(byid[x['a']]['x']), text_of(byid[x['b']]['x'])] for k, x in enumerate(s15)]})
                    plan.append(('sums float64', s15))
        args.append({'steps': steps})
        meta.append(((w, s), e, plan))
    # history: an accepted non-default setting, then the variables removed again -> the documented defaults apply
    hist = [((38, 15), (UNSET, UNSET)), ((6, 6), (UNSET, UNSET)), ((-1, -1), (28, 10)), ((UNSET, 6), (UNSET, UNSET))]
    for a, b in hist:
        e = exp.get(b) or exp[(UNSET, UNSET)]
        good = [p for p in e['probes'] if p['stored']['digits'] != [-1]]
        args.append({'steps': [{'kind': 'values', 'env': envof(*a), 'rows': [[1, '1.5']]},
                               {'kind': 'values', 'env': envof(*b), 'rows': [[k, text_of(p['x'])] for k, p in enumerate(good)]}]})
        meta.append(((a, b), e, [('skip', None), ('good', good)]))
    obs = k2.pmap('props.c30:run_setting', args, 14)
    distinct = set()

    def lab(ws):
        return 'width=%s scale=%s' % tuple('unset' if x == UNSET else x for x in ws)

    for (ws, e, plan), o in zip(meta, obs):
        hist_case = isinstance(ws[0], tuple)
        name = ('after %s: %s' % (lab(ws[0]), lab(ws[1]))) if hist_case else lab(ws)
        es = e.get('es')
        for (kind, data), res in zip(plan, o + [{'err': 'RAW:missing-step', 'msg': ''}] * (len(plan) - len(o))):
            chk.add('evaluations')
            form = ' float64' if kind.endswith(' float64') else ''
            kind = kind.split(' ')[0]
            if kind == 'skip':
                continue
            raw = 'err' in res and res['err'].startswith('RAW')
            if kind == 'setting':
                if e['verdict'] == 'undetermined':
                    if raw:
                        chk.violation('raw | scale above width | %s' % name, 'setting %s: raw error %s %s' % (name, res['err'], res['msg'][:200]), {})
                    else:
                        chk.add('undetermined_not_judged')
                    continue
                if 'err' not in res:
                    chk.violation('out-of-range accepted | %s' % name, 'setting %s is outside the documented range: the configuration error is required, run() succeeded' % name, {})
                elif raw or res.get('code') != '0-4-1-1':
                    chk.violation('wrong error | %s' % name, 'setting %s: expected the configuration error 0-4-1-1, got %s %s %s' % (name, res['err'], res.get('code'), res['msg'][:160]), {})
                else:
                    chk.add('traces_validated_against_impl')
                    distinct.add(('reject', ws))
                continue
            if kind == 'bad':
                if 'err' not in res:
                    chk.violation('unfit value accepted %s | %s' % (data['id'], name), 'setting %s: %s needs more digits than DECIMAL(%s,%s) has; run() stored %s' % (name, text_of(data['x']), e['ew'], es, res['rows']), {})
                elif raw:
                    chk.violation('raw | unfit value %s | %s' % (data['id'], name), 'setting %s, value %s: raw error %s %s' % (name, text_of(data['x']), res['err'], res['msg'][:200]), {})
                else:
                    chk.add('traces_validated_against_impl')
                    distinct.add(('unfit', data['id'], ws))
                continue
            if 'err' in res:
                chk.violation('%s | documented setting rejected (%s%s) | %s' % ('raw' if raw else 'error', kind, form, name),
                              'setting %s is inside the documented range; run() raised %s %s %s' % (name, res['err'], res.get('code'), res['msg'][:200]), {})
                continue
            c = {n: k for k, n in enumerate(res['cols'])}
            if kind == 'good':
                got = {row[c['Id_1']]: row[c['Me_1']] for row in res['rows']}
                for k, p in enumerate(data):
                    want = exact_of(p['stored'], es)
                    g = got.get(k)
                    if g is None or not close(Decimal(g), want):
                        chk.violation('stored value %s%s | %s' % (p['id'], form, name if hist_case else 'scale=%s' % es), 'setting %s: input %s must be stored as %s, engine returned %s' % (name, text_of(p['x']), want, g), {'input': text_of(p['x'])})
                    else:
                        chk.add('traces_validated_against_impl')
                        distinct.add(('stored', p['id'], ws))
            else:
                for k, x in enumerate(data):
                    row = [rr for rr in res['rows'] if rr[c['Id_1']] == k]
                    ws_ = exact_of(x['sum'], es)
                    wd = exact_of(x['diff'], es)
                    if not row or not close(Decimal(row[0][c['s']]), ws_) or not close(Decimal(row[0][c['d']]), wd):
                        chk.violation('sum/difference %s%s%s | scale=%s' % (x['a'], x['b'], form, es), 'setting %s: %s +/- %s must be %s / %s exactly at scale %s, engine %s' %
                                      (name, x['a'], x['b'], ws_, wd, es, row[0] if row else None), {})
                    else:
                        chk.add('traces_validated_against_impl')
                        distinct.add(('sum', x['a'], x['b'], ws))
        if len(chk.cov['samples']) < 4 and e['verdict'] == 'ok' and not hist_case:
            chk.sample({'setting': name, 'decimal': 'DECIMAL(%s,%s)' % (e['ew'], es), 'probe': text_of(e['probes'][3]['x']), 'stored_digits': e['probes'][3]['stored']})
    chk.add('distinct_nontrivial', len(distinct))
    chk.notes['settings'] = len(settings)
    chk.notes['binding_demo'] = 'expected stored digits and exact sums come from TLC (VTLConfig digit arithmetic); each setting runs in a fresh interpreter'
    chk.cov['rule'] = ('TLC (GenConfig over VTLConfig, schoolbook decimal arithmetic on digit sequences) emits for every setting of both variables (quick: each variable over its border values with the other '
                       'unset, a grid of border pairs and seeded pairs; thorough: all 51x51 pairs and unset) the documented verdict and, for accepted settings, the stored form of 11 probe '
                       'values (all configured digits, one integer digit too many, half-way rounding both signs, rounding that overflows the width, ...) and exact sums / differences; each '
                       'setting is replayed in a fresh interpreter with exact CSV inputs: out-of-range settings must raise 0-4-1-1, unfit values a VTL input error, stored values and '
                       'sums must equal the exact decimals up to double conversion; removing the variables again must restore the documented defaults. distinct = (kind, probe, setting)')
    chk.assumptions += ['returned doubles are compared with the exact decimal at 1e-13 relative tolerance', 'a scale above the width (both inside their documented ranges) is not determined; only a raw error is reported there']


def close(g, want):
    if want == 0:
        return abs(g) <= Decimal('1e-30')
    return abs(g - want) <= abs(want) * Decimal('1e-13')
