"""C17 Concurrent API calls behave like sequential ones."""
import itertools
import json
import os
import random

from harness import engine, k2, thrcalls, tlc

LEVEL = 'model_checking'


def tla_programs(progs):
    def seq(ops):
        return '<<' + ', '.join('[p |-> "%s", err |-> %s]' % (o['p'], 'TRUE' if o['err'] else 'FALSE') for o in ops) + '>>'
    keys = sorted(progs)
    return '[c \\in {%s} |-> CASE %s]' % (', '.join('"%s"' % k for k in keys), ' [] '.join('c = "%s" -> %s' % (k, seq(progs[k])) for k in keys))


def model(chk, progs, cfg, expect_violation=False):
    """model-check VTLThreads for these programs (emitted as a literal constant of a generated instance module)"""
    d = engine.sub_dir('gen-%d-%d' % (os.getpid(), random.randrange(10 ** 6)))
    path = os.path.join(d, 'VTLThreads_MC.tla')
    with open(path, 'w') as f:
        f.write('--------------------------- MODULE VTLThreads_MC ---------------------------\n'
                '(* generated: the programs are the point sequences recorded from the real calls executed alone *)\n'
                'EXTENDS VTLThreads\nProgramsFromFile == %s\n=============================================================================\n' % tla_programs(progs))
    r = tlc.run(path, cfg, workers=4, timeout=3000)
    if expect_violation:
        return r
    if r.violated:
        chk.violation('model %s | %s' % (r.violated, '+'.join(sorted(progs))), 'TLC: %s violated in VTLThreads for calls %s' % (r.violated, sorted(progs)), r.output[-2500:])
        return r
    tlc.must(r, 'VTLThreads')
    chk.add('states', r.states)
    chk.add('transitions', r.generated)
    return r


def validate_execs(chk, execs):
    """TLC verdict for every recorded execution (in batches: the trace file is re-read by TLC while it evaluates)"""
    if not execs:
        return []
    if len(execs) > 800:
        out = []
        for a in range(0, len(execs), 800):
            out += validate_execs(chk, execs[a:a + 800])
        return out
    path = os.path.join(engine.sub_dir('traces'), 'thr-%d-%d.json' % (os.getpid(), random.randrange(10 ** 6)))
    json.dump(execs, open(path, 'w'))
    r = tlc.run('VTLThreads_Trace', 'VTLThreads_Trace.cfg', env={'TRACE_FILE': path}, workers=16, timeout=3000)
    os.unlink(path)
    tlc.must(r, 'VTLThreads_Trace')
    chk.add('states', r.states)
    verdicts = {}
    for line in r.lines:
        v = json.loads(line)
        verdicts[v['id']] = v
    out = []
    for x in execs:
        v = verdicts.get(x['id'])
        if v is None:
            raise tlc.TLCError('no verdict for execution %s' % x['id'])
        out.append(v)
    return out


def main(chk):
    rnd = random.Random(chk.seed)
    quick = chk.tier == 'quick'
    names = list(thrcalls.catalogue())
    solo = {}
    for part in k2.pmap('harness.thrcalls:solo_all', [names[i::8] for i in range(8)]):
        solo.update(part)
    points = {n: solo[n]['points'] for n in names}
    alone = {n: solo[n]['outcome'] for n in names}
    # the call executed alone twice must give the same outcome (else "what it returns alone" is not defined)
    again = {}
    for part in k2.pmap('harness.thrcalls:solo_all', [names[i::8] for i in range(8)]):
        again.update(part)
    for n in names:
        if again[n]['outcome'] != alone[n] or again[n]['points'] != points[n]:
            raise RuntimeError('call %s is not deterministic when executed alone' % n)
    progs = {n: [{'p': p, 'err': (j == len(points[n]) - 1 and 'err' in alone[n])} for j, p in enumerate(points[n])] for n in names}
    chk.notes['programs'] = {n: ' '.join(points[n]) for n in names}

    # (1) the design: TLC over ALL interleavings (no preemption bound) of the programs, per-thread state
    interesting = [('run.viralA', 'run.viralB'), ('run.viralA', 'sem.norule'), ('run.viralMax', 'sem.viralA'), ('sem.error', 'run.plain'), ('run.error', 'sem.error'),
                   ('run.periodSdmx', 'run.periodVtl'), ('run.periodNatural', 'run.periodSdmx'), ('pretty.ok', 'ast.bad'), ('pretty.bad', 'run.plain'),
                   ('pretty.ok', 'pretty.ok'), ('run.viralA', 'run.viralA'), ('ast.ok', 'sem.plain')]
    triples = [('run.viralA', 'run.viralB', 'sem.norule'), ('pretty.ok', 'ast.bad', 'sem.error'), ('run.periodSdmx', 'run.periodVtl', 'pretty.bad'), ('sem.error', 'run.error', 'run.plain')]
    groups = interesting + triples if quick else interesting + triples + [p for p in itertools.combinations(names, 2) if p not in interesting]
    for g in (groups if not quick else interesting[:6] + triples[:2]):
        model(chk, {'t%d' % i: progs[n] for i, n in enumerate(g)}, 'VTLThreads_local.cfg')
    chk.cov['exhaustive'] = True
    # the same model with process-global state must violate Isolation (the model tells the two designs apart)
    r = model(chk, {'t0': progs['run.viralA'], 't1': progs['sem.error']}, 'VTLThreads_global.cfg', expect_violation=True)
    if r.violated != 'Isolation':
        raise RuntimeError('binding demonstration failed: VTLThreads with process-global state does not violate Isolation (%s)' % r.violated)
    chk.notes['design_demo'] = 'VTLThreads with Shared = TRUE (process-global registry / counters / result name) violates Isolation; with Shared = FALSE TLC proves it for every interleaving'

    # (2) the code: every schedule with a bounded number of preemptions, forced at the engine's yield points
    args = []
    for g in groups:
        bound = (1 if len(g) == 2 else 1) if quick else (2 if len(g) == 2 else 1)
        args.append({'names': list(g), 'bound': bound, 'limit': 150 if quick else 1500, 'solo': alone, 'points': points})
    if quick:
        args = args[:12] + args[12:14]
    res = k2.pmap('harness.thrcalls:explore_group', args, 12)
    execs = []
    distinct = 0
    for a, r in zip(args, res):
        chk.add('evaluations', r['schedules'] * len(a['names']))
        distinct += r['schedules']
        if len(chk.cov['samples']) < 5 and r['execs']:
            chk.sample({'calls': a['names'], 'schedules_executed': r['schedules'], 'one_schedule': ''.join(e['t'][1:] for e in r['execs'][-1]['events'])})
        for b in r['bad']:
            chk.violation('outcome differs | %s | next to %s' % (b['call'], '+'.join(b['others'])),
                          'call %s returned %s under schedule %s; alone it returns %s' % (b['call'], b['got'], b['sched'], b['alone']), b)
        execs += r['execs']
    verdicts = validate_execs(chk, execs)
    rejected = {}
    for x, v in zip(execs, verdicts):
        if v['ok']:
            chk.add('traces_validated_against_impl')
        else:
            rejected.setdefault((v['why'], x['id'].split('#')[0]), (x, v))
    for (why, grp), (x, v) in rejected.items():
        chk.violation('execution rejected by VTLThreads | %s | %s' % (why, grp), 'step %d (%s at %s) of a recorded concurrent execution is not a step of the specification: %s' % (
            v['at'], x['events'][v['at'] - 1]['t'] if v['at'] and v['at'] <= len(x['events']) else '-', x['events'][v['at'] - 1]['p'] if v['at'] and v['at'] <= len(x['events']) else 'end', why),
            {'execution': x['id'], 'events': [(e['t'], e['p']) for e in x['events']]})
    chk.add('distinct_nontrivial', distinct)
    # binding demonstration: a recorded execution with one corrupted view must be rejected
    ok = [x for x, v in zip(execs, verdicts) if v['ok'] and len(x['events']) > 12]
    if ok:
        bad = json.loads(json.dumps(ok[0]))
        k = next(i for i, e in enumerate(bad['events']) if e['p'] == 'vc.new') if any(e['p'] == 'vc.new' for e in bad['events']) else 5
        bad['events'][k]['after']['vds'] += 1
        bad['id'] = 'corrupted'
        v = validate_execs(chk, [bad])[0]
        if v['ok']:
            raise RuntimeError('binding demonstration failed: corrupted execution accepted')
        chk.notes['binding_demo'] = {'corrupted': 'the counter of virtual names advanced by 2 in one step', 'rejected_because': v['why']}
    # (3) randomized stress: real threads, microsecond switch interval, no scheduler
    rounds = [[rnd.choice(names) for _ in range(rnd.choice([2, 3, 4]))] for _ in range(40 if quick else 600)]
    sres = k2.pmap('harness.thrcalls:stress', [{'rounds': rounds[i::4], 'solo': alone} for i in range(4)], 4)
    for r in sres:
        chk.add('evaluations', r['rounds'])
        for b in r['bad']:
            chk.violation('outcome differs (stress) | %s | next to %s' % (b['call'], '+'.join(sorted(b['others']))), 'call %s returned %s; alone it returns %s' % (b['call'], b['got'], b['alone']), b)
    chk.cov['rule'] = ('VTLThreads: a call is the sequence of the engine\'s shared-state access points it passes (recorded from the call alone); TLC explores EVERY interleaving of pairs / triples of calls '
                       '(run with viral rules, different Time_Period formats, failing scripts, semantic_analysis, prettify, create_ast; lock re-entrancy) and proves Isolation (every value a call reads '
                       'was written by itself), lock consistency, progress and termination for the per-thread design - and refutes Isolation for the process-global design. The code is driven through '
                       'every schedule with a bounded number of preemptions at the guarded yield points (deterministic scheduler, the parser lock modelled); each call\'s outcome must equal its outcome '
                       'alone and each recorded execution (steps + the stepping thread\'s view of registry / counters / result name / Time_Period cell) is validated by TLC (VTLThreads_Trace); plus '
                       'randomized stress with real threads at a microsecond switch interval. distinct = schedules executed')
    chk.assumptions += ['quick: 14 groups with at most one preemption (150 schedules each); thorough: all pairs of the 17 calls with two preemptions and triples with one',
                        'outcomes are compared in full (results, values, error class, code and message)']
