"""C20 validate_dataset agrees with run() on which inputs are valid."""
from props import tables

LEVEL = 'model_checking'
JUDGED = ['df-str', 'df-native', 'csv']


def main(chk):
    tabs = tables.model(chk)
    if not tabs:
        return
    obs = tables.observe_all(chk, tabs, JUDGED)
    distinct = set()
    for t in tabs:
        for f in JUDGED:
            o = obs[(t['id'], f)]
            chk.add('evaluations')
            r, v = o['run'], o['validate']
            key = '%s | %s' % (t['id'], f)
            if v['outcome'] == 'raw':
                chk.violation('validate raw | %s' % key, 'validate_dataset raised a raw error %s %s' % (v['err'], v['msg']), {'table': t, 'form': f})
                continue
            ra = r['outcome'] == 'accept'
            va = v['outcome'] == 'accept'
            if ra != va:
                chk.violation('%s | %s' % ('validate accepts, run rejects' if va else 'validate rejects, run accepts', key),
                              'validate_dataset %s while run() %s (%s)' % ('accepts' if va else 'raises', 'accepts' if ra else 'raises', (r if va else v).get('msg')), {'table': t, 'form': f})
            else:
                chk.add('traces_validated_against_impl')
                distinct.add((t['id'], f, ra))
                if len(chk.cov['samples']) < 5 and not ra:
                    chk.sample({'table': t['id'], 'form': f, 'both': 'reject', 'validate_error': v.get('msg')})
    chk.add('distinct_nontrivial', len(distinct))
    chk.notes['tables'] = len(tabs)
    chk.notes['binding_demo'] = 'both functions are observed on the identical TLC-enumerated table; one event per (table, form)'
    chk.cov['rule'] = ('every table TLC enumerates from VTLFormats (GenTables: every cell pool in three roles, duplicate spellings, structural violations) as string DataFrame, native DataFrame '
                       'and CSV: validate_dataset() raises <=> run() of a script reading the dataset rejects it. distinct = (table, form, outcome) agreed')
