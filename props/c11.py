"""C11 Semantic type rules follow the documented implicit-cast table."""
import json
import os
import random

from harness import engine, k2, tlc

LEVEL = 'model_checking'
TYPES = ['String', 'Number', 'Integer', 'Boolean', 'Time', 'Date', 'Time_Period', 'Duration', 'Null']
ENG = {'String': 'String', 'Number': 'Number', 'Integer': 'Integer', 'Boolean': 'Boolean', 'Time': 'TimeInterval', 'Date': 'Date',
       'Time_Period': 'TimePeriod', 'Duration': 'Duration', 'Null': 'Null'}
ENG_R = {v: k for k, v in ENG.items()}
REGISTRIES = [('BINARY_MAPPING', 2), ('UNARY_MAPPING', 1), ('AGGREGATION_MAPPING', 1), ('ANALYTIC_MAPPING', 1),
              ('HR_COMP_MAPPING', 2), ('HR_NUM_BINARY_MAPPING', 2), ('HR_UNARY_MAPPING', 1)]

# operator token -> script templates per level (l, r = operand expressions)
INFIX = {'+', '-', '*', '/', '=', '<>', '>', '>=', '<', '<=', 'and', 'or', 'xor', '||'}
FUNC2 = {'mod', 'power', 'log', 'nvl', 'match_characters', 'datediff'}
TIME_UNARY = {'flow_to_stock', 'stock_to_flow', 'period_indicator', 'getyear', 'getmonth', 'dayofmonth', 'dayofyear', 'daytoyear', 'daytomonth', 'yeartoday', 'monthtoday'}
PREFIX1 = {'+', '-', 'not'}
COMMUTATIVE = {'+', '*', '=', '<>', 'and', 'or', 'xor'}


def registry_classes():
    engine.boot()
    from vtlengine import Utils
    out, seen = [], set()
    for reg, arity0 in REGISTRIES:
        for tok, cls in getattr(Utils, reg).items():
            arity = arity0
            ttc, rt = getattr(cls, 'type_to_check', None), getattr(cls, 'return_type', None)
            key = (cls.__module__, cls.__name__)
            from vtlengine import Operators as _Ops
            if issubclass(cls, _Ops.Unary):
                arity = 1
            elif issubclass(cls, _Ops.Binary):
                arity = 2
            ent = {'name': '%s.%s' % (reg, cls.__name__), 'cls': cls.__name__, 'module': cls.__module__, 'reg': reg, 'tok': str(tok), 'arity': arity,
                   'ttc': ENG_R[ttc.__name__] if ttc else 'none', 'rt': ENG_R[rt.__name__] if rt else 'none',
                   'own_check': 'validate_type_compatibility' in cls.__dict__ or any('validate_type_compatibility' in b.__dict__ for b in cls.__mro__[1:] if b.__name__ not in ('Operator', 'object')),
                   'typed_operands': reg != 'BINARY_MAPPING' or str(tok) in INFIX or str(tok) in ('mod', 'power', 'log', 'nvl', 'datediff', 'match_characters')}
            if (reg, cls.__name__) in seen:
                continue
            seen.add((reg, cls.__name__))
            out.append(ent)
    return out


def direct(arg):
    """Worker: class-level check / promotion for every operand type combination of one class."""
    engine.boot()
    import importlib
    from vtlengine import DataTypes
    from vtlengine.Exceptions import SemanticError
    cls = getattr(importlib.import_module(arg['module']), arg['cls'])
    out = []
    T = {t: getattr(DataTypes, ENG[t]) for t in TYPES}
    combos = [(l, r) for l in TYPES for r in TYPES] if arg['arity'] == 2 else [(x, None) for x in TYPES]
    for l, r in combos:
        a = (T[l], T[r]) if r else (T[l],)
        rec = {'l': l, 'r': r or '-'}
        try:
            rec['check'] = bool(cls.validate_type_compatibility(*a))
        except SemanticError:
            rec['check'] = False
        except Exception as e:  # noqa
            rec['check'] = 'RAW:%r' % e
        try:
            t = cls.type_validation(*a)
            rec['promote'] = ENG_R.get(getattr(t, '__name__', str(t)), str(t))
        except SemanticError:
            rec['promote'] = 'error'
        except Exception as e:  # noqa
            rec['promote'] = 'RAW:%r' % e
        out.append(rec)
    return out


LIT = {'String': '"a"', 'Number': '1.5', 'Integer': '2', 'Boolean': 'true', 'Null': 'null'}


def _struct(name, t):
    return {'name': name, 'DataStructure': [{'name': 'Id_1', 'type': 'Integer', 'role': 'Identifier', 'nullable': False},
                                            {'name': 'Me_1', 'type': t, 'role': 'Measure', 'nullable': True}]}


def script_points(classes):
    """(class, level, l, r) -> script + structures for semantic_analysis()."""
    pts = []
    for c in classes:
        tok = c['tok']
        if c['reg'] == 'BINARY_MAPPING' and (tok in INFIX or tok in FUNC2):
            for l in TYPES[:-1]:
                for r in TYPES[:-1]:
                    f = (lambda a, b: '%s %s %s' % (a, tok, b)) if tok in INFIX else (lambda a, b: '%s(%s, %s)' % (tok, a, b))
                    pts.append({'c': c['name'], 'tok': tok, 'level': 'scalar', 'l': l, 'r': r, 'script': 'R := %s;' % f('sc_l', 'sc_r'),
                                'ds': {'datasets': [], 'scalars': [{'name': 'sc_l', 'type': l}, {'name': 'sc_r', 'type': r}]}})
                    pts.append({'c': c['name'], 'tok': tok, 'level': 'component', 'l': l, 'r': r, 'script': 'R := DS_1[calc x := %s];' % f('Me_l', 'Me_r'),
                                'ds': {'datasets': [{'name': 'DS_1', 'DataStructure': [{'name': 'Id_1', 'type': 'Integer', 'role': 'Identifier', 'nullable': False},
                                                                                        {'name': 'Me_l', 'type': l, 'role': 'Measure', 'nullable': True},
                                                                                        {'name': 'Me_r', 'type': r, 'role': 'Measure', 'nullable': True}]}]}})
                    if tok not in ('nvl', 'datediff', 'match_characters'):
                        pts.append({'c': c['name'], 'tok': tok, 'level': 'dataset', 'l': l, 'r': r, 'script': 'R := %s;' % f('DS_l', 'DS_r'),
                                    'ds': {'datasets': [_struct('DS_l', l), _struct('DS_r', r)]}})
        elif c['reg'] == 'UNARY_MAPPING':
            if tok in TIME_UNARY:      # own admission rules, not expressed by type_to_check (covered by C08)
                continue
            for x in TYPES[:-1]:
                f = (lambda a: '%s %s' % (tok, a)) if tok in PREFIX1 else (lambda a: '%s(%s)' % (tok, a))
                pts.append({'c': c['name'], 'tok': tok, 'level': 'scalar', 'l': x, 'r': '-', 'script': 'R := %s;' % f('sc_l'),
                            'ds': {'datasets': [], 'scalars': [{'name': 'sc_l', 'type': x}]}})
                pts.append({'c': c['name'], 'tok': tok, 'level': 'component', 'l': x, 'r': '-', 'script': 'R := DS_l[calc x := %s];' % f('Me_1'),
                            'ds': {'datasets': [_struct('DS_l', x)]}})
                pts.append({'c': c['name'], 'tok': tok, 'level': 'dataset', 'l': x, 'r': '-', 'script': 'R := %s;' % f('DS_l'),
                            'ds': {'datasets': [_struct('DS_l', x)]}})
        elif c['reg'] == 'AGGREGATION_MAPPING':
            for x in [t for t in TYPES[:-1] if t != 'Time']:      # aggregates have their own rule for Time intervals (not expressed by type_to_check)
                pts.append({'c': c['name'], 'tok': tok, 'level': 'dataset', 'l': x, 'r': '-', 'script': 'R := %s(DS_l);' % tok, 'ds': {'datasets': [_struct('DS_l', x)]}})
                pts.append({'c': c['name'], 'tok': tok, 'level': 'component', 'l': x, 'r': '-', 'script': 'R := DS_l[aggr x := %s(Me_1)];' % tok, 'ds': {'datasets': [_struct('DS_l', x)]}})
        elif c['reg'] == 'ANALYTIC_MAPPING' and tok not in ('rank', 'lag', 'lead'):
            for x in [t for t in TYPES[:-1] if t != 'Time']:
                over = 'partition by Id_1' if tok == 'ratio_to_report' else 'order by Id_1'
                pts.append({'c': c['name'], 'tok': tok, 'level': 'component', 'l': x, 'r': '-', 'script': 'R := DS_l[calc x := %s(Me_1 over (%s))];' % (tok, over),
                            'ds': {'datasets': [_struct('DS_l', x)]}})
    return pts


def grid_direct():
    engine.boot()
    from vtlengine import DataTypes
    from vtlengine.Exceptions import SemanticError
    T = {t: getattr(DataTypes, ENG[t]) for t in TYPES}
    out = []
    for ttc in TYPES + ['none']:
        for rt in ('none', 'Boolean'):
            for l in TYPES:
                for r in TYPES:
                    a = (T[l], T[r], T.get(ttc), T.get(rt))
                    rec = {'ttc': ttc, 'rt': rt, 'l': l, 'r': r}
                    try:
                        rec['check'] = bool(DataTypes.check_binary_implicit_promotion(*a))
                    except SemanticError:
                        rec['check'] = False
                    try:
                        t = DataTypes.binary_implicit_promotion(*a)
                        rec['promote'] = ENG_R.get(t.__name__, t.__name__)
                    except SemanticError:
                        rec['promote'] = 'error'
                    out.append(rec)
    return out


def sem(arg):
    """Worker: semantic_analysis outcome of one script: accepted?, result type of R / of the new component."""
    engine.boot()
    from vtlengine import semantic_analysis
    from harness import values
    out = []
    for p in arg:
        try:
            r = semantic_analysis(script=p['script'], data_structures=p['ds'])['R']
            if hasattr(r, 'components'):
                if p['level'] == 'component':
                    t = values.type_name(r.components['x'].data_type)
                else:
                    ms = [c for c in r.components.values() if c.role.value == 'Measure']
                    t = values.type_name(ms[0].data_type) if len(ms) == 1 else 'measures:%d' % len(ms)
            else:
                t = values.type_name(r.data_type)
            out.append({'acc': True, 'res': t})
        except Exception as e:  # noqa
            c = k2.classify_exception(e)
            out.append({'acc': False, 'res': 'error', 'err': c['err'], 'code': c.get('code'), 'msg': c['msg'][:160]})
    return out


def main(chk):
    quick = chk.tier == 'quick'
    classes = registry_classes()
    path = os.path.join(engine.sub_dir('traces'), 'classes.json')
    json.dump([{k: c[k] for k in ('name', 'arity', 'ttc', 'rt')} for c in classes], open(path, 'w'))
    r = tlc.run('GenTypes', 'GenTypes.cfg', env={'CLASSES_FILE': path}, workers=1)
    if r.violated:
        chk.violation('model theorem %s' % r.violated, 'TLC: %s violated: the documented tables are not symmetric / total' % r.violated, r.output[-2000:])
    else:
        tlc.must(r, 'GenTypes')
    chk.add('states', r.states)
    chk.add('transitions', r.generated)
    chk.cov['exhaustive'] = True
    exp = {}
    for line in r.lines:
        p = json.loads(line)
        exp[(p['c'], p['l'], p['r'])] = p
    chk.notes['model'] = {'classes': len(classes), 'points': len(exp)}
    # B1 (a): class level (classes whose two positional operands are typed values)
    judged = [c for c in classes if c['typed_operands']]
    obs = k2.pmap('props.c11:direct', judged)
    distinct = set()
    for c, recs in zip(judged, obs):
        for rec in recs:
            chk.add('evaluations')
            chk.add('traces_validated_against_impl')
            e = exp[(c['name'], rec['l'], rec['r'])]
            distinct.add((c['ttc'], c['rt'], rec['l'], rec['r']))
            key = '%s(%s,%s) ttc=%s rt=%s' % (c['cls'], rec['l'], rec['r'], c['ttc'], c['rt'])
            if isinstance(rec['check'], str) or str(rec['promote']).startswith('RAW'):
                chk.violation('class raw | %s' % key, 'type check raised a raw exception: %s / %s' % (rec['check'], rec['promote']), {'class': c, 'obs': rec})
            elif not c['own_check'] and rec['check'] != (rec['promote'] != 'error'):
                chk.violation('class check-vs-promotion | %s' % key, 'the check says %s but the promotion %s' % (rec['check'], 'raises' if rec['promote'] == 'error' else 'returns ' + rec['promote']), {'class': c, 'obs': rec})
            elif (rec['promote'] != 'error') != e['acc']:
                chk.violation('class acceptance | %s' % key, 'documented table: %s, engine: %s' % ('accepted' if e['acc'] else 'rejected', 'accepted' if rec['promote'] != 'error' else 'rejected'), {'class': c, 'obs': rec, 'expected': e})
            elif e['acc'] and e['res'] != 'any' and rec['promote'] != e['res']:
                chk.violation('class result type | %s' % key, 'documented result type %s, engine %s' % (e['res'], rec['promote']), {'class': c, 'obs': rec, 'expected': e})
            elif len(chk.cov['samples']) < 4 and rec['l'] != rec['r']:
                chk.sample({'class': c['cls'], 'operands': [rec['l'], rec['r']], 'accepted': rec['check'], 'result': rec['promote']})
    # commutativity at class level
    for c, recs in zip(judged, obs):
        if c['arity'] == 2 and c['tok'] in COMMUTATIVE:
            m = {(x['l'], x['r']): x['promote'] for x in recs}
            for (l, rr), v in sorted(m.items()):
                if l < rr and m[(rr, l)] != v:
                    chk.violation('class commutativity | %s(%s,%s)' % (c['cls'], l, rr), 'result type depends on operand order: %s vs %s' % (v, m[(rr, l)]), {'class': c})
    # the two promotion functions themselves over the full grid (type_to_check x return_type x 9 x 9): check <=> promotion, acceptance = table
    for g in grid_direct():
        chk.add('evaluations')
        chk.add('traces_validated_against_impl')
        e = exp[('grid:' + g['ttc'], g['l'], g['r'])]
        key = 'ttc=%s rt=%s (%s,%s)' % (g['ttc'], g['rt'], g['l'], g['r'])
        if g['check'] != (g['promote'] != 'error'):
            chk.violation('grid check-vs-promotion | %s' % key, 'check_binary_implicit_promotion says %s but binary_implicit_promotion %s' % (g['check'], 'raises' if g['promote'] == 'error' else 'returns ' + g['promote']), g)
        elif g['check'] != e['acc']:
            chk.violation('grid acceptance | %s' % key, 'documented table: %s, engine: %s' % (e['acc'], g['check']), g)
    # B1 (b): through semantic_analysis at scalar, component and dataset level
    pts = script_points(classes)
    chunks = [pts[i:i + 60] for i in range(0, len(pts), 60)]
    sobs = [o for ch in k2.pmap('props.c11:sem', chunks) for o in ch]
    bykey = {}
    for p, o in zip(pts, sobs):
        chk.add('evaluations')
        chk.add('traces_validated_against_impl')
        e = exp[(p['c'], p['l'], p['r'])]
        bykey[(p['c'], p['level'], p['l'], p['r'])] = o
        key = '%s %s(%s,%s)' % (p['level'], p['tok'], p['l'], p['r'])
        if (o.get('err') or '').startswith('RAW'):
            chk.violation('script raw | %s' % key, 'semantic_analysis raised a raw exception: %s %s' % (o['err'], o.get('msg')), {'point': p, 'obs': o})
        elif o['acc'] != e['acc']:
            chk.violation('script acceptance | %s' % key, 'documented table: %s, semantic_analysis: %s %s' % ('accepted' if e['acc'] else 'rejected', 'accepted' if o['acc'] else 'rejected', o.get('msg', '')), {'point': p, 'obs': o, 'expected': e})
        elif e['acc'] and e['res'] != 'any' and o['res'] != e['res']:
            chk.violation('script result type | %s' % key, 'documented result type %s, semantic_analysis %s' % (e['res'], o['res']), {'point': p, 'obs': o, 'expected': e})
    for (cn, lvl, l, rr), o in bykey.items():
        tok = [c['tok'] for c in classes if c['name'] == cn][0]
        if tok in COMMUTATIVE and rr != '-' and (cn, lvl, rr, l) in bykey:
            o2 = bykey[(cn, lvl, rr, l)]
            if (o['acc'], o['res']) != (o2['acc'], o2['res']):
                chk.violation('script commutativity | %s %s(%s,%s)' % (lvl, tok, l, rr), 'outcome depends on operand order: %s vs %s' % ((o['acc'], o['res']), (o2['acc'], o2['res'])), {'l': l, 'r': rr})
    chk.add('distinct_nontrivial', len(distinct))
    chk.notes['script_points'] = len(pts)
    # binding demonstration: a wrong documented cell must disagree with the engine
    flipped = dict(exp[('BINARY_MAPPING.BinPlus', 'Integer', 'String')])
    if flipped['acc']:
        raise RuntimeError('binding demonstration failed (C11): Integer + String documented as accepted?')
    chk.notes['binding_demo'] = 'expected verdicts come from TLC over the documented table; e.g. BinPlus(Integer, String) is rejected by both'
    # the result type of a call is a function of the call alone: parameter forms of one operator class (round / trunc with and without
    # decimals - Integer without, Number with, READINGS.md 10) evaluated in ONE process, in every order
    import itertools
    forms = [('round(%s)', 'Integer'), ('round(%s, 2)', 'Number'), ('trunc(%s)', 'Integer'), ('trunc(%s, 1)', 'Number')]
    seqs = []
    for order in itertools.permutations(range(len(forms))):
        for level, operand, ds in (('scalar', 'sc_l', {'datasets': [], 'scalars': [{'name': 'sc_l', 'type': 'Number'}]}),
                                   ('component', 'Me_1', {'datasets': [_struct('DS_l', 'Number')]}), ('dataset', 'DS_l', {'datasets': [_struct('DS_l', 'Number')]})):
            pts = []
            for j in list(order) + list(order):
                f, want = forms[j]
                script = 'R := %s;' % (f % operand) if level != 'component' else 'R := DS_l[calc x := %s];' % (f % operand)
                pts.append({'script': script, 'ds': ds, 'level': level, 'want': want, 'form': f % 'x'})
            seqs.append(pts)
    if quick:
        seqs = seqs[::3]
    for pts, outs in zip(seqs, k2.pmap('props.c11:sem', seqs)):
        for j, (pt, o) in enumerate(zip(pts, outs)):
            chk.add('evaluations')
            if o.get('res') == pt['want']:
                chk.add('traces_validated_against_impl')
            else:
                chk.violation('parameter forms in one process | %s %s' % (pt['level'], pt['form']), 'after %s in the same process, %s is typed %s (documented %s)' % (
                    [q['form'] for q in pts[:j]], pt['form'], o.get('res') if o.get('acc') else o.get('msg'), pt['want']), {'sequence': [q['script'] for q in pts[:j + 1]]})
    chk.cov['rule'] = ('TLC enumerates every operator class of the engine registries (read at check time: type_to_check, return_type) x all 9x9 (9 for unary) operand '
                       'types and emits the documented verdict; each point is replayed (a) on the class (validate_type_compatibility vs type_validation vs table) and '
                       '(b) through semantic_analysis() with generated scalar, component and dataset scripts; commutative operators are compared under swapped operands. '
                       'distinct = distinct (type_to_check, return_type, left, right)')
    chk.assumptions += ['the documented implicit table of docs/data_types.rst is transcribed by hand into spec/VTLTypes.tla',
                        'result type when nothing is fixed: least common type (Integer is a subtype of Number)']
