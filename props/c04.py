"""C04 Joins combine datasets as specified."""
import random

from harness import b1, termgen
from props import c01

LEVEL = 'model_checking'


def keyfn(u):
    return termgen.shape(u['term'])


def main(chk):
    rnd = random.Random(chk.seed)
    quick = chk.tier == 'quick'
    units, r = b1.generate('GenJoins', 'GenJoins_quick.cfg' if quick else 'GenJoins_thorough.cfg', workers=14, timeout=3000)
    if r.violated:
        chk.violation('model invariant %s' % r.violated, 'TLC: %s violated in GenJoins' % r.violated, r.output[-3000:])
    chk.add('states', r.states)
    chk.add('transitions', r.generated)
    chk.cov['exhaustive'] = True
    chk.notes['model'] = {'joins_enumerated': len(units)}
    b1.replay(chk, units, keyfn, sample=1500 if quick else 12000, seed=chk.seed, label='g')
    ru = termgen.random_join_units(rnd, 400 if quick else 5000)
    lu, lo, _ = b1.validate(chk, ru, keyfn)
    # `apply a op b` in the body of a join (growth: JoinApply in VTLOperators); the shapes for which the engine has known
    # findings are generated apart, so that the plain shapes are judged on their own
    n = 60 if quick else 800
    au = termgen.random_apply_units(rnd, n) + termgen.random_apply_units(rnd, n // 4, attrs=True) + \
        termgen.random_apply_units(rnd, n // 4, three=True) + termgen.random_apply_units(rnd, n // 4, cmp_ops=True)
    for j, u in enumerate(au):
        u['id'] = 'ap%d' % j
    b1.validate(chk, au, lambda u: 'join apply [%s]' % u['applyclass'], pack=1)
    b1.binding_demo(chk, lu, lo, c01.corrupt)
    chk.cov['rule'] = ('B1: TLC (GenJoins) enumerates inner / left / full / cross joins of A, B (same identifiers, clashing Me_1) and C (nested identifier set) over EVERY subset of the key space '
                       'per operand (every partial key-overlap pattern), with and without aliases, using, and bodies that resolve the clash (drop / keep / rename), filter on either side, calc '
                       'over both sides, aggr; thorough adds three-operand joins; a seeded sample of the transitions is replayed into run(); B2: random joins of 2-3 random datasets '
                       '(equal / nested identifier sets, operands in any order for inner joins, 0-8 datapoints) validated by VTLOperators_Trace; joins whose body ends with `apply a op b` (alone, after filter, before keep / rename, with non-homonymous measures, attributes, three operands, comparison operators). distinct = distinct (term, result)')
    chk.assumptions += ['identifier sets are equal or nested (the engine rejects other shapes at semantic analysis); using names the common identifiers',
                        'joins over expressions with viral attributes are not modelled here (viral attributes: C28)']
