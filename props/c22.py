"""C22 Public API calls never modify the caller's arguments."""
import json
import random

from harness import apicalls, corpus, gen, k2, render, variants

LEVEL = 'model_checking'

VD = {'name': 'Countries', 'type': 'String', 'setlist': ['DE', 'FR', 'IT']}
ROUTINE = {'name': 'SQL_1', 'query': 'SELECT Id_1, Me_1 * 2 AS Me_1 FROM DS_1;'}


def struct(name, comps):
    return {'name': name, 'DataStructure': [{'name': n, 'type': t, 'role': r, 'nullable': nl} for n, t, r, nl in comps]}


def df(columns, data, dtype=None):
    return {'columns': columns, 'data': data, 'dtype': dtype}


def shaped_calls(rnd):
    """Hand-shaped argument forms: valid and invalid inputs for every API function the property names."""
    S1 = struct('DS_1', [('Id_1', 'Integer', 'Identifier', False), ('Me_1', 'Number', 'Measure', True), ('At_1', 'String', 'Attribute', True)])
    S2 = struct('DS_2', [('Id_1', 'Integer', 'Identifier', False), ('Me_1', 'Number', 'Measure', True)])
    ST = struct('DS_T', [('Id_1', 'Time_Period', 'Identifier', False), ('Id_2', 'Date', 'Identifier', False), ('Me_1', 'Integer', 'Measure', True),
                         ('Me_2', 'Boolean', 'Measure', True), ('Me_3', 'Duration', 'Measure', True), ('Me_4', 'Time', 'Measure', True)])
    good1 = df(['Id_1', 'Me_1', 'At_1'], [[1, 1.5, 'a'], [2, None, ''], [3, 2.0, None]])
    tables = {
        'valid': good1,
        'valid-str': df(['Id_1', 'Me_1', 'At_1'], [['1', '1.5', 'a'], ['2', '', 'b']], 'object'),
        'missing-nullable-column': df(['Id_1', 'Me_1'], [[1, 1.5], [2, 2.5]]),
        'missing-measure-and-attr': df(['Id_1'], [[1], [2]]),
        'missing-identifier': df(['Me_1', 'At_1'], [[1.5, 'a']]),
        'extra-column': df(['Id_1', 'Me_1', 'At_1', 'Zz'], [[1, 1.5, 'a', 9]]),
        'bom-column': df(['﻿Id_1', 'Me_1', 'At_1'], [[1, 1.5, 'a']]),
        'reordered-columns': df(['At_1', 'Me_1', 'Id_1'], [['a', 1.5, 1], ['b', 2.5, 2]]),
        'duplicate-ids': df(['Id_1', 'Me_1', 'At_1'], [[1, 1.5, 'a'], [1, 2.5, 'b']]),
        'null-id': df(['Id_1', 'Me_1', 'At_1'], [[None, 1.5, 'a']]),
        'bad-number': df(['Id_1', 'Me_1', 'At_1'], [[1, 'abc', 'a']], 'object'),
        'empty-string-number': df(['Id_1', 'Me_1', 'At_1'], [[1, '', 'a'], [2, '3', '']], 'object'),
        'quoted-strings': df(['Id_1', 'Me_1', 'At_1'], [[1, 1.0, '"q"']]),
        'empty': df(['Id_1', 'Me_1', 'At_1'], []),
        'custom-index': df(['Id_1', 'Me_1', 'At_1'], [[5, 1.5, 'a'], [6, 2.5, 'b']]),
    }
    tt = df(['Id_1', 'Id_2', 'Me_1', 'Me_2', 'Me_3', 'Me_4'],
            [['2020Q1', '2020-01-15', 1, True, 'P1M', '2020-01-01/2020-12-31'], ['2020-M02', '2020-02-01', None, None, None, None],
             ['2021', '2021-03-01 10:30:00', '3', 'false', 'A', '2021']], 'object')
    calls = []
    scripts = {'ok': 'R <- DS_1 * 2;', 'calc': 'R <- DS_1[calc Me_2 := Me_1 + 1];', 'semantic-error': 'R <- DS_1 + "a";',
               'syntax-error': 'R <- DS_1 + ;', 'unknown-dataset': 'R <- DS_9;', 'runtime-error': 'R <- DS_1 / 0;'}
    for tn, t in tables.items():
        for sn, sc in scripts.items():
            if sn != 'ok' and tn not in ('valid', 'missing-nullable-column'):
                continue
            calls.append({'id': 'run.%s.%s' % (tn, sn), 'api': 'run', 'script': sc, 'raw': {'ds': {'datasets': [S1]}, 'dps': {'DS_1': t}}})
        calls.append({'id': 'vd.%s' % tn, 'api': 'validate_dataset', 'raw': {'ds': {'datasets': [S1]}, 'dps': {'DS_1': t}}})
    calls.append({'id': 'run.time', 'api': 'run', 'script': 'R <- DS_T;', 'raw': {'ds': {'datasets': [ST]}, 'dps': {'DS_T': tt}}})
    calls.append({'id': 'vd.time', 'api': 'validate_dataset', 'raw': {'ds': {'datasets': [ST]}, 'dps': {'DS_T': tt}}})
    for fmt in ('vtl', 'sdmx_gregorian', 'sdmx_reporting', 'natural'):
        calls.append({'id': 'run.time.%s' % fmt, 'api': 'run', 'script': 'R <- DS_T;', 'kw': {'time_period_output_format': fmt},
                      'raw': {'ds': {'datasets': [ST]}, 'dps': {'DS_T': tt}}})
    # several datasets, list of structure dicts, scalars, value domains, external routines
    two = {'ds': [{'datasets': [S1]}, {'datasets': [S2], 'scalars': [{'name': 'sc_1', 'type': 'Integer'}]}],
           'dps': {'DS_1': good1, 'DS_2': df(['Id_1', 'Me_1'], [[1, 10.0], [4, 40.0]])}, 'scalars': {'sc_1': 3}}
    calls.append({'id': 'run.two', 'api': 'run', 'script': 'R <- DS_1[keep Me_1] + DS_2 * sc_1;', 'raw': two})
    calls.append({'id': 'run.two.nodata', 'api': 'run', 'script': 'R <- DS_1[keep Me_1] + DS_2;', 'raw': {'ds': two['ds'], 'dps': {'DS_1': good1}}})
    calls.append({'id': 'sem.two', 'api': 'semantic_analysis', 'script': 'R <- DS_1[keep Me_1] + DS_2 * sc_1;', 'raw': two})
    calls.append({'id': 'sem.err', 'api': 'semantic_analysis', 'script': 'R <- DS_1 + "a";', 'raw': two})
    calls.append({'id': 'vd.two', 'api': 'validate_dataset', 'raw': two})
    calls.append({'id': 'run.vd', 'api': 'run', 'script': 'R <- DS_1[filter At_1 in Countries];', 'extra': {'value_domains': VD},
                  'raw': {'ds': {'datasets': [S1]}, 'dps': {'DS_1': good1}}})
    calls.append({'id': 'run.vdlist', 'api': 'run', 'script': 'R <- DS_1[filter At_1 in Countries];', 'extra': {'value_domains': [VD]},
                  'raw': {'ds': {'datasets': [S1]}, 'dps': {'DS_1': good1}}})
    calls.append({'id': 'sem.vd', 'api': 'semantic_analysis', 'script': 'R <- DS_1[filter At_1 in Countries];', 'extra': {'value_domains': VD},
                  'raw': {'ds': {'datasets': [S1]}}})
    calls.append({'id': 'run.eval', 'api': 'run', 'extra': {'external_routines': ROUTINE},
                  'script': 'R <- eval(SQL_1(DS_1) language "SQL" returns dataset {identifier<integer> Id_1, measure<number> Me_1});',
                  'raw': {'ds': {'datasets': [S1]}, 'dps': {'DS_1': good1}}})
    calls.append({'id': 'sem.eval', 'api': 'semantic_analysis', 'extra': {'external_routines': [ROUTINE]},
                  'script': 'R <- eval(SQL_1(DS_1) language "SQL" returns dataset {identifier<integer> Id_1, measure<number> Me_1});',
                  'raw': {'ds': {'datasets': [S1]}}})
    # other accepted spellings of the structure dictionary; each call is made TWICE with the same objects
    legacy = {'datasets': [{'name': 'DS_1', 'DataStructure': [{'name': 'Id_1', 'data_type': 'Integer', 'role': 'Identifier', 'nullable': False},
                                                              {'name': 'Me_1', 'data_type': 'Number', 'role': 'Measure', 'nullable': True},
                                                              {'name': 'At_1', 'data_type': 'String', 'role': 'Attribute', 'nullable': True}]}],
              'scalars': [{'name': 'sc_1', 'data_type': 'Integer'}]}
    byref = {'structures': [{'name': 'STR_1', 'components': [{'name': 'Id_1', 'type': 'Integer', 'role': 'Identifier', 'nullable': False},
                                                             {'name': 'Me_1', 'type': 'Number', 'role': 'Measure', 'nullable': True},
                                                             {'name': 'At_1', 'type': 'String', 'role': 'ViralAttribute', 'nullable': True, 'description': 'a viral attribute'}]}],
             'datasets': [{'name': 'DS_1', 'structure': 'STR_1', 'description': 'by reference'}]}
    nonull = {'datasets': [{'name': 'DS_1', 'DataStructure': [{'name': 'Id_1', 'type': 'Integer', 'role': 'Identifier'},
                                                              {'name': 'Me_1', 'type': 'Number', 'role': 'Measure'}, {'name': 'At_1', 'type': 'String', 'role': 'Attribute'}]}]}
    for vn, dsv in (('legacy-data_type', legacy), ('structure-by-reference', byref), ('no-nullable-key', nonull)):
        for api, sc in (('run', 'R <- DS_1 * 2;'), ('semantic_analysis', 'R <- DS_1 * 2;'), ('validate_dataset', None), ('run', 'R <- DS_1 + "a";')):
            call = {'id': '%s.%s.%s' % ({'run': 'run', 'semantic_analysis': 'sem', 'validate_dataset': 'vd'}[api], vn, 'ok' if sc != 'R <- DS_1 + "a";' else 'err'),
                    'api': api, 'raw': {'ds': dsv, 'dps': {'DS_1': good1}}, 'repeat': 2}
            if sc:
                call['script'] = sc
            calls.append(call)
    for tn in ('valid', 'missing-nullable-column', 'bom-column', 'empty-string-number', 'duplicate-ids'):
        calls.append({'id': 'run2.%s' % tn, 'api': 'run', 'script': 'R <- DS_1 * 2;', 'raw': {'ds': {'datasets': [S1]}, 'dps': {'DS_1': tables[tn]}}, 'repeat': 2})
        calls.append({'id': 'vd2.%s' % tn, 'api': 'validate_dataset', 'raw': {'ds': {'datasets': [S1]}, 'dps': {'DS_1': tables[tn]}}, 'repeat': 2})
    for fmt in ('csv', 'parquet'):
        calls.append({'id': 'run.folder.%s' % fmt, 'api': 'run', 'script': 'R <- DS_1 * 2; S := 1 + 1;', 'folder': fmt,
                      'raw': {'ds': {'datasets': [S1]}, 'dps': {'DS_1': good1}}})
    for sn, sc in list(scripts.items()) + [('comments', '/* a */ R <- DS_1 * 2; // b\nT := R;'), ('define', 'define operator f (x dataset) returns dataset is x * 2 end operator; R <- f(DS_1);')]:
        calls.append({'id': 'pretty.%s' % sn, 'api': 'prettify', 'script': sc, 'raw': {'ds': {}}})
        calls.append({'id': 'gensdmx.%s' % sn, 'api': 'generate_sdmx', 'script': sc, 'raw': {'ds': {}}})
    return calls


def main(chk):
    rnd = random.Random(chk.seed)
    quick = chk.tier == 'quick'
    apicalls.model_check(chk)
    calls = shaped_calls(rnd)
    base = variants.mixed_units(rnd, 40 if quick else 400)
    for i, u in enumerate(base):
        text = 'R <- %s;' % render.expr(u['term'])
        for form, native in (('df', True), ('df', False)) + ((('csv', True), ('parquet', True)) if not quick else ()):
            calls.append({'id': 'g%d.run.%s%d' % (i, form, native), 'api': 'run', 'script': text, 'env': u['env'], 'form': form, 'native': native})
        calls.append({'id': 'g%d.sem' % i, 'api': 'semantic_analysis', 'script': text, 'env': u['env']})
        calls.append({'id': 'g%d.vd' % i, 'api': 'validate_dataset', 'script': text, 'env': u['env'], 'native': rnd.random() < 0.5})
        if all('comps' in x for x in u['env'].values()) and i % 2 == 0:
            calls.append({'id': 'g%d.sdmx' % i, 'api': 'run_sdmx', 'script': text, 'env': u['env']})
        if i % 4 == 0:
            calls.append({'id': 'g%d.pretty' % i, 'api': 'prettify', 'script': text, 'env': u['env']})
            calls.append({'id': 'g%d.gensdmx' % i, 'api': 'generate_sdmx', 'script': text, 'env': u['env']})
    cases = corpus.discover()
    rnd.shuffle(cases)
    for c in cases[:(30 if quick else 600)]:
        calls.append({'id': 'c:%s.run' % c['id'], 'api': 'run', 'case': c})
        calls.append({'id': 'c:%s.sem' % c['id'], 'api': 'semantic_analysis', 'case': c})
    units = k2.pmap('harness.apicalls:observe', calls)
    chk.add('skipped_pysdmx_input', len([u for u in units if 'skip' in u]))
    calls = [c for c, u in zip(calls, units) if 'skip' not in u]
    units = [u for u in units if 'skip' not in u]
    for u in units:
        if 'machinery' in u:
            raise RuntimeError(u['machinery'])
    verd = apicalls.validate(chk, units)
    distinct = set()
    byapi = {}
    for c, u in zip(calls, units):
        chk.add('evaluations')
        chk.add('traces_validated_against_impl')
        v = verd[u['id']]
        byapi.setdefault(u['api'], {'ok': 0, 'failed': 0})['ok' if u['outcome']['kind'] == 'ok' else 'failed'] += 1
        distinct.add(json.dumps([u['api'], sorted(u['before']), u['outcome']['kind'], u['outcome']['code'], u['id'].split('.')[1] if not u['id'].startswith(('g', 'c:')) else '']))
        if u.get('repeat_same_outcome') is False and not v['c22']:
            chk.violation('%s second call differs | %s' % (u['api'], u['id']), 'calling %s twice with the same argument objects: first %s, then %s' % (u['api'], u['first_outcome'], u['outcome']),
                          {'api': u['api'], 'script': u.get('text')})
        if v['c22']:
            shape = u['id'] if not u['id'].startswith(('g', 'c:')) else ('generated' if u['id'].startswith('g') else 'corpus')
            chk.violation('%s %s | %s | outcome=%s' % (u['api'], v['c22'], shape, u['outcome']['kind']), v['c22'],
                          {'api': u['api'], 'script': u.get('text'), 'outcome': u['outcome'],
                           'changed': {a: {'before': u['before'][a][:600], 'after': u['after'].get(a, '')[:600]} for a in u['before'] if u['before'][a] != u['after'].get(a)}})
        elif len(chk.cov['samples']) < 5 and u['api'] != 'prettify':
            chk.sample({'api': u['api'], 'id': u['id'], 'arguments': sorted(u['before']), 'outcome': u['outcome']['kind']})
    chk.add('distinct_nontrivial', len(distinct))
    chk.notes['calls_by_api'] = byapi
    demo = json.loads(json.dumps(units[0]))
    demo['id'] = 'demo'
    k = sorted(demo['after'])[0]
    demo['after'][k] = demo['after'][k] + ' '
    if not apicalls.validate(chk, [demo])['demo']['c22']:
        raise RuntimeError('binding demonstration failed (C22)')
    chk.notes['binding_demo'] = 'one after-projection altered by one character is rejected'
    chk.cov['rule'] = ('every argument of every call is projected deeply (dict key order, list items, DataFrame columns/dtypes/index/values, paths, '
                       'pysdmx datasets) before and after the call; TLC (VTLApi_Trace, obligation ArgsUnchanged of VTLApi) compares per argument. Calls: '
                       'hand-shaped valid/invalid tables (missing/extra/BOM/reordered columns, duplicates, null ids, bad values, empty strings, temporal '
                       'types, all period output formats) x succeeding and failing scripts for run / validate_dataset / semantic_analysis, value domains, '
                       'external routines, scalar values, output folders, prettify, generate_sdmx, run_sdmx with pysdmx datasets, random units in every '
                       'input form, corpus scripts. distinct = distinct (api, argument names, outcome, shape)')
    chk.assumptions += ['DataFrames are projected on their first 2000 rows', 'pysdmx objects are projected by repr()']
