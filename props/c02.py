"""C02 Clause operators (filter, calc, keep, drop, rename, sub) behave as specified."""
import random

from harness import b1, termgen
from props import c01

LEVEL = 'model_checking'


def keyfn(u):
    t, ops = u['term'], []
    while t.get('k') == 'clause':
        ops.append(t['op'])
        t = t['ds']
    return 'chain ' + '>'.join(reversed(ops))


def main(chk):
    rnd = random.Random(chk.seed)
    quick = chk.tier == 'quick'
    units, r = b1.generate('GenClauses', 'GenClauses_quick.cfg' if quick else 'GenClauses_thorough.cfg', workers=10)
    if r.violated:
        chk.violation('model invariant %s' % r.violated, 'TLC: %s violated in GenClauses' % r.violated, r.output[-3000:])
    chk.add('states', r.states)
    chk.add('transitions', r.generated)
    chk.cov['exhaustive'] = True
    chk.notes['model'] = {'chains_enumerated': len(units)}
    b1.replay(chk, units, keyfn, sample=None if quick else 6000, seed=chk.seed, label='g')
    ru = termgen.random_chain_units(rnd, 400 if quick else 5000) + termgen.random_unpivot_units(rnd, 60 if quick else 800)
    lu, lo, _ = b1.validate(chk, ru, keyfn)
    b1.binding_demo(chk, lu, lo, c01.corrupt)
    chk.cov['rule'] = ('B1: every well-formed chain of 1-%d clauses (filter with true/false/null outcomes, calc add / overwrite / role change, '
                       'keep, drop, rename of measures and identifiers, sub on each identifier) over a 4-row and an empty dataset, each chain '
                       'ONE statement, enumerated by TLC (GenClauses) and replayed; B2: random chains of length 1-4 with random well-typed '
                       'expressions over random datasets validated by VTLOperators_Trace. distinct = distinct (term, result)') % (2 if quick else 3)
    chk.assumptions += ['clauses on join results are exercised by C04', 'unpivot is modelled (Unpivot); pivot is not implemented by the engine (NotImplementedError), apply is not modelled']
