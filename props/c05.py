"""C05 Set operators match datapoints by identifiers across all operands."""
import random

from harness import termgen, b1, gen

LEVEL = 'model_checking'


def keyfn(u):
    t = u['term']
    if t['k'] != 'set':
        return t['k']
    inner = [o['op'] for o in t['ops'] if o.get('k') == 'set']
    return 'set %s arity=%d%s' % (t['op'], len(t['ops']), (' nested ' + '+'.join(inner)) if inner else '')


def random_units(rnd, n):
    units = []
    for i in range(n):
        ids = [('Id_1', 'Integer')] + ([('Id_2', 'String')] if rnd.random() < 0.5 else [])
        others = [('Me_1', 'M', rnd.choice(['Integer', 'Number', 'String'])),
                  ('Me_2', 'M', rnd.choice(['Boolean', 'Integer']))][:rnd.choice([1, 2])]
        if rnd.random() < 0.4:
            others.append(('At_1', 'A', 'String'))
        op = rnd.choice(['union', 'intersect', 'setdiff', 'symdiff'])
        arity = rnd.choice([2, 3, 4]) if op in ('union', 'intersect') else 2
        env, names = {}, []
        for k in range(arity):
            nm = 'DS_%d' % (k + 1)
            nrows = rnd.choice([0, 1, 2, 4, 6, 12, 40])
            env[nm] = gen.shuffled(rnd, gen.dataset(rnd, ids, others, nrows, keyspace=rnd.choice([3, 5, 9])))
            names.append(nm)
        term = {'k': 'set', 'op': op, 'ops': [gen.var(x) for x in names]}
        if rnd.random() < 0.35:
            # nest a set operator inside (same or different operator, left or right)
            nm = 'DS_%d' % (arity + 1)
            env[nm] = gen.shuffled(rnd, gen.dataset(rnd, ids, others, rnd.choice([0, 2, 5, 9]), keyspace=rnd.choice([3, 5, 9])))
            outer = rnd.choice([op, op, 'union', 'intersect', 'setdiff', 'symdiff'])
            term = {'k': 'set', 'op': outer, 'ops': [term, gen.var(nm)] if rnd.random() < 0.6 else [gen.var(nm), term]}
        if rnd.random() < 0.3 and all(t in ('Integer', 'Number') for _, r_, t in others if r_ == 'M'):
            # an operand that is itself a dataset-dataset expression (its columns come out in the expression's own order)
            def wrap(t):
                if t.get('k') == 'var' and rnd.random() < 0.6:
                    return {'k': 'bin', 'op': rnd.choice(['+', '-', '*']), 'l': t, 'r': gen.var(rnd.choice(names))}
                return t
            if term['ops'][0].get('k') == 'set' or term['ops'][-1].get('k') == 'set':
                term = dict(term, ops=[wrap(o) for o in term['ops']])
            else:
                term = dict(term, ops=[wrap(o) for o in term['ops']])
        units.append({'id': 'r%d' % i, 'env': env, 'cc': True, 'term': term})
    return units


def corrupt(o):
    for r in o['rows']:
        for c, v in r.items():
            if v[0] == 1 and c.startswith('Me'):
                v[1] += 1
                return o
    o['rows'] = o['rows'][1:]
    return o


def main(chk):
    rnd = random.Random(chk.seed)
    quick = chk.tier == 'quick'
    # B3 + B1: exhaustive model (3 operands over 3 keys; 4 operands in the thorough tier)
    units, r = b1.generate('GenSets', 'GenSets_quick.cfg' if quick else 'GenSets_thorough.cfg', workers=12)
    if r.violated:
        chk.violation('model invariant %s' % r.violated, 'TLC: invariant %s violated in GenSets' % r.violated, r.output[-3000:])
    chk.add('states', r.states)
    chk.add('transitions', r.generated)
    chk.cov['exhaustive'] = True
    chk.notes['model'] = {'module': 'GenSets', 'distinct_states': r.states, 'transitions_emitted': len(units)}
    b1.replay(chk, units, keyfn, sample=1500 if quick else 15000, seed=chk.seed, label='g')
    # B2: random larger inputs validated by the trace spec
    ru = random_units(rnd, 300 if quick else 3000) + termgen.random_exists_units(rnd, 60 if quick else 800)     # + exists_in (key presence across datasets)
    lu, lo, _ = b1.validate(chk, ru, keyfn)
    b1.binding_demo(chk, lu, lo, corrupt)
    chk.cov['rule'] = ('B1: every transition of the TLC model GenSets (all subsets of 3 keys per operand, 2-%d operands in every '
                       'order, conflicting measures, chained second statement) is a candidate, a seeded sample is replayed; '
                       'B2: random datasets (0-40 rows, 1-2 identifiers, 1-2 measures) validated by VTLOperators_Trace. '
                       'distinct = distinct (term, result) pairs with a non-error verdict') % (3 if quick else 4)
    chk.assumptions += ['parser stand-in (ATN interpreted by ANTLR Java runtime)',
                        'set operands are structurally equal datasets (as the property states)']
