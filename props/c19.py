"""C19 run() rejects every input that violates its declared structure."""
from props import tables

LEVEL = 'model_checking'
JUDGED = ['csv', 'df-str']      # the forms whose accepted spellings the documentation lists cell by cell


def main(chk):
    tabs = tables.model(chk)
    if not tabs:
        return
    obs = tables.observe_all(chk, tabs, JUDGED)
    distinct = set()
    for t in tabs:
        for f in JUDGED:
            o = obs[(t['id'], f)]['run']
            chk.add('evaluations')
            key = '%s | %s' % (t['id'], f)
            if o['outcome'] == 'raw':
                chk.violation('raw | %s' % key, 'run() raised a raw error %s %s' % (o['err'], o['msg']), {'table': t, 'form': f})
                continue
            if t['verdict'] == 'undetermined':
                chk.add('undetermined_not_judged')
                continue
            if t['verdict'] == 'reject':
                if o['outcome'] == 'accept':
                    chk.violation('violation accepted | %s' % key, 'the table violates its declared structure (%s) but run() accepted it and returned %s' % (t['id'], o.get('raw_rows')), {'table': t, 'form': f})
                elif o['outcome'] != 'reject':
                    chk.violation('wrong error class | %s' % key, 'a VTL input error (data-load / input-validation) is required, run() raised %s %s' % (o['err'], o['msg']), {'table': t, 'form': f})
                else:
                    chk.add('traces_validated_against_impl')
                    distinct.add((t['id'], f))
                continue
            if o['outcome'] != 'accept':
                chk.violation('valid rejected | %s' % key, 'the table has no violation and every cell is a documented representation, run() raised %s %s' % (o['err'], o['msg']), {'table': t, 'form': f})
                continue
            ok, why = tables.rows_match(tables.expected_rows(t), o['rows'])
            if not ok:
                chk.violation('value | %s' % key, 'accepted, but the returned values are not the denoted ones: %s' % why, {'table': t, 'form': f, 'returned': o.get('raw_rows')})
            else:
                chk.add('traces_validated_against_impl')
                distinct.add((t['id'], f))
                if len(chk.cov['samples']) < 5 and t['id'].startswith('cell.Date'):
                    chk.sample({'table': t['id'], 'form': f, 'cells': [[c['text'] for c in r] for r in t['rows']], 'returned': o.get('raw_rows')})
    chk.add('distinct_nontrivial', len(distinct))
    chk.notes['tables'] = len(tabs)
    chk.notes['binding_demo'] = 'verdicts and denoted values come from TLC (VTLFormats!TableVerdict over the documented cell pools)'
    chk.cov['rule'] = ('TLC (GenTables over VTLFormats/VTLCalendar) enumerates every cell of every type - documented spellings, boundary values (leap day, W53, D366, years 1800 / 9999), invalid values '
                       '(month 13, 30 February, week 54, week 53 of a 52-week year, day 366 of a common year, years 1799 / 10000, partial times, reversed intervals, fractional / hexadecimal '
                       'integers ...) and cells the documentation leaves open - as nullable measure, non-nullable measure and identifier, pairs of different spellings of one identifier value, '
                       'and the structural violations alone and combined; each table is written as CSV and as a string DataFrame and run(): reject <=> the documented verdict, and accepted '
                       'values must be the denoted ones. distinct = (table, form) judged and agreed')
    chk.assumptions += ['cells the documentation does not determine (padding, "+5", "3.0", "1e3" for Integer, lowercase indicators ...) are not judged here; C18 / C20 compare them across forms']
