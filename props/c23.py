"""C23 The parser never crashes and locates syntax errors."""
import json
import os
import random

from harness import corpus, engine, k2, parsing, tlc

LEVEL = 'model_checking'


def main(chk):
    rnd = random.Random(chk.seed)
    quick = chk.tier == 'quick'
    # the design: a parser whose global state is fully overwritten by every parse is history-free; one that is not, is not
    r = tlc.run('VTLParser', 'VTLParser_ok.cfg', workers=2)
    if r.violated:
        chk.violation('model %s' % r.violated, 'TLC: %s violated in VTLParser' % r.violated, r.output[-1500:])
    tlc.must(r, 'VTLParser')
    chk.add('states', r.states)
    chk.add('transitions', r.generated)
    r2 = tlc.run('VTLParser', 'VTLParser_stale.cfg', workers=2)
    if r2.violated != 'HistoryFree':
        raise RuntimeError('binding demonstration failed: the stale-state parser model does not violate HistoryFree')
    chk.notes['design_demo'] = 'VTLParser with Overwrites = FALSE (a successful parse leaves the previous error in place) violates HistoryFree'
    chk.cov['exhaustive'] = True
    # the texts
    cases = corpus.discover()
    rnd.shuffle(cases)
    texts = []
    for c in cases[:(120 if quick else len(cases))]:
        try:
            t = open(c['vtl'], encoding='utf-8').read()
        except Exception:
            continue
        texts.append(('corpus', t))
        for _ in range(2 if quick else 4):
            texts.append(('mutation', parsing.mutate(t, rnd)))
    for _ in range(200 if quick else 4000):
        texts.append(('random', parsing.random_text(rnd)))
    for t in parsing.deep_texts():
        texts.append(('deep', t))
    from props import forms
    for x in forms.literal_scripts():
        if x['what'] == 'comments':
            texts.append(('comments', x['text']))
    uniq = {}
    for cls, t in texts:
        uniq.setdefault(t, cls)
    texts = [(c, t) for t, c in uniq.items()]
    # every text through create_ast; the texts with comments and a sample of the others ALSO through prettify (the parser's second entry
    # point): the same text then occurs several times in one history, parsed through both entry points in both orders
    calls_ = [('create_ast', c, t) for c, t in texts]
    calls_ += [('prettify', c, t) for c, t in texts if c == 'comments' or ('/*' in t or '//' in t) or rnd.random() < (0.15 if quick else 0.3)]
    texts = [(c + ('' if op == 'create_ast' else ' via prettify'), (op, t)) for op, c, t in calls_]
    # reference history: every text parsed in a fixed order; other histories: shuffled, so that valid and invalid texts alternate in every possible way
    order = list(range(len(texts)))
    hist = [order]
    for _ in range(2 if quick else 5):
        o = list(order)
        rnd.shuffle(o)
        hist.append(o)
    args = []
    for h in hist:
        for part in range(0, len(h), 400):
            args.append({'texts': [texts[i][1] for i in h[part:part + 400]], 'idx': h[part:part + 400]})
    obs = k2.pmap('harness.parsing:parse_history', args)
    ref = {}
    calls = []
    for hi, (a, o) in enumerate(zip(args, obs)):
        for i, oc in zip(a['idx'], o):
            if oc['kind'] == 'stand-in':
                chk.add('stand_in_gave_up')
                continue
            if i not in ref:
                ref[i] = oc
            t = texts[i][1][1]
            lines = t.split('\n')
            ln = oc.get('line', 0)
            # the engine reports the column in the line as it displays it: tabs expanded to 4 columns, carriage returns dropped
            width = len(lines[ln - 1].replace('\r', '').replace('\t', '    ')) if isinstance(ln, int) and 1 <= ln <= len(lines) else 0
            calls.append({'id': '%d.%d' % (hi, i), 'kind': oc['kind'] if not oc['kind'].startswith('raw') else 'raw', 'digest': oc['digest'], 'line': oc.get('line', 0), 'col': oc.get('col', 0),
                          'nlines': len(lines), 'width': width, 'ref_kind': ref[i]['kind'] if not ref[i]['kind'].startswith('raw') else 'raw', 'ref_digest': ref[i]['digest'], '_i': i, '_raw': oc})
    path = os.path.join(engine.sub_dir('traces'), 'parse-%d.json' % os.getpid())
    json.dump([{k: v for k, v in c.items() if not k.startswith('_')} for c in calls], open(path, 'w'))
    r = tlc.run('VTLParser_Trace', 'VTLParser_Trace.cfg', env={'TRACE_FILE': path}, workers=16, timeout=3000)
    os.unlink(path)
    tlc.must(r, 'VTLParser_Trace')
    chk.add('states', r.states)
    verdict = {}
    for line in r.lines:
        v = json.loads(line)
        verdict[v['id']] = v
    distinct = set()
    for c in calls:
        chk.add('evaluations')
        v = verdict[c['id']]
        cls, (op_, t) = texts[c['_i']]
        if v['ok']:
            chk.add('traces_validated_against_impl')
            distinct.add((c['_i'], c['kind']))
        else:
            kind = c['_raw']['kind']
            chk.violation('%s | %s | %s' % (v['why'], cls, kind if kind.startswith('raw') else c['kind']), '%s: text %r -> %s' % (v['why'], t[:200], json.dumps(c['_raw'])[:300]), {'text': t, 'outcome': c['_raw']})
    chk.add('distinct_nontrivial', len(distinct))
    import collections
    chk.notes['texts'] = dict(collections.Counter(c for c, _ in texts))
    chk.notes['outcomes'] = dict(collections.Counter(o['kind'] for o in ref.values()))
    chk.notes['binding_demo'] = 'VTLParser_stale.cfg (state not overwritten) is refuted by TLC; a call whose outcome differs between two histories is rejected by VTLParser_Trace'
    chk.cov['rule'] = ('VTLParser: create_ast as a call on process-global parser state (tree, error, comments), overwritten by every parse; TLC proves HistoryFree and OutcomeAlphabet for that design and '
                       'refutes HistoryFree when a successful parse leaves the previous error in place. Corpus scripts, grammar-aware mutations of them (token deleted / duplicated / swapped / replaced, '
                       'brackets unbalanced, truncated), random byte strings and control characters, and deeply nested expressions are parsed in several histories (fixed order and shuffles, valid and '
                       'invalid texts alternating); every call is validated by TLC (VTLParser_Trace): same outcome as in the reference history, an AST or a VTL error, syntax-error position inside the text')
    chk.assumptions += ['the column of a syntax error is the column in the displayed source line (tabs expanded to 4 columns, as bindings.cpp does)', 'the compiled C++ parser cannot be built in this sandbox: the calls go through the stand-in (the repository\'s serialized ATN interpreted by the ANTLR Java runtime in SLL mode), so '
                        'what is exercised is the grammar, create_ast, the error construction and the Python tree walk - not bindings.cpp; where the stand-in itself gives up (time-out) the call is not judged']
