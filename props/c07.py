"""C07 Validation and hierarchy operators report exactly the failing datapoints."""
import json
import random

from harness import b1, termgen
from props import c01

LEVEL = 'model_checking'
MOD, CFG = 'VTLValidation_Trace', 'VTLValidation_Trace.cfg'


def keyfn(u):
    t = u['term']
    if t['k'] == 'hier':
        return '%s %s %s %s' % ('check_hierarchy' if t['check'] else 'hierarchy', t['mode'], t['input'] if not t['check'] else '-', t['out'])
    if t['k'] == 'check':
        return 'check %s %s' % ('imbalance' if t.get('imb') else 'plain', t['out'])
    return 'check_datapoint %d rules %s' % (len(t['rules']), t['out'])


def permuted(units, rnd):
    """the same invocation over the input rows in another order (the spec has no row order)"""
    out = []
    for u in units:
        v = json.loads(json.dumps(u))
        for d in v['env'].values():
            if isinstance(d, dict) and 'rows' in d:
                rnd.shuffle(d['rows'])
        out.append(v)
    return out


def main(chk):
    rnd = random.Random(chk.seed)
    quick = chk.tier == 'quick'
    units, r = b1.generate('GenValidation', 'GenValidation_quick.cfg' if quick else 'GenValidation_thorough.cfg', workers=8, timeout=3000)
    if r.violated:
        chk.violation('model invariant %s' % r.violated, 'TLC: %s violated in GenValidation' % r.violated, r.output[-3000:])
    chk.add('states', r.states)
    chk.add('transitions', r.generated)
    chk.cov['exhaustive'] = True
    chk.notes['model'] = {'invocations_enumerated': len(units),
                          'invariants': ['InvalidSubsetOfAll', 'ErrorsOnlyWhereFalse', 'ImbalanceIsDifference']}
    b1.replay(chk, units, keyfn, seed=chk.seed, label='g', pack=1)
    b1.replay(chk, permuted(units, rnd), keyfn, seed=chk.seed, label='p', pack=1)
    ru = termgen.random_validation_units(rnd, 150 if quick else 2500)
    lu, lo, _ = b1.validate(chk, ru, keyfn, pack=1, module=MOD, cfg=CFG)
    b1.binding_demo(chk, lu, lo, c01.corrupt, module=MOD, cfg=CFG)
    chk.cov['rule'] = ('B1: TLC (GenValidation) evaluates check_hierarchy (6 modes x 3 outputs x rule shapes) and hierarchy (6 modes x 3 input modes x 2 outputs, two-level ruleset in both '
                       'declaration orders) over datasets holding EVERY combination of absent / null / 0 / 2 / -2 of the rule\'s items, check with every combination of error code, level, imbalance '
                       'operand and output, check_datapoint over every combination of two measures in {null,0,1,3} with and without when-conditions in rulesets of 1, 3, 5 rules; model invariants '
                       'InvalidSubsetOfAll, ErrorsOnlyWhereFalse, ImbalanceIsDifference; every term replayed (twice, second time with permuted input rows) and compared datapoint by datapoint and '
                       'component by component. B2: random rulesets of 1-5 rules over random datasets validated by VTLValidation_Trace. distinct = distinct (term, result)')
    chk.assumptions += ['where the reference manual leaves a mode undetermined the engine reading is adopted and named (READINGS.md 20-22): which keys always_* reports, hierarchy looking at the right '
                        'side only, input "dataset" not distinguished from "rule", errorlevel typed Number by the ruleset operators',
                        'hierarchical rules are sums / differences of code items without when-conditions; one measure; cyclic rulesets are rejected by the engine and counted as rejected']
