"""C32 Execution failures surface as VTL errors, not raw engine errors."""
import json
import random

from harness import apicalls, corpus, k2, render, variants
from props import c22

LEVEL = 'model_checking'

DS_N = c22.struct('DS_N', [('Id_1', 'Integer', 'Identifier', False), ('Me_1', 'Number', 'Measure', True), ('Me_2', 'Integer', 'Measure', True)])
DS_S = c22.struct('DS_S', [('Id_1', 'Integer', 'Identifier', False), ('Me_1', 'String', 'Measure', True)])
DS_T = c22.struct('DS_T', [('Id_1', 'Integer', 'Identifier', False), ('Me_1', 'Time_Period', 'Measure', True)])
DS_TI = c22.struct('DS_TI', [('Id_1', 'Time_Period', 'Identifier', False), ('Me_1', 'Number', 'Measure', True)])
DS_D = c22.struct('DS_D', [('Id_1', 'Integer', 'Identifier', False), ('Me_1', 'Date', 'Measure', True), ('Me_2', 'Time', 'Measure', True), ('Me_3', 'Duration', 'Measure', True)])
DS_B = c22.struct('DS_B', [('Id_1', 'Integer', 'Identifier', False), ('Me_1', 'Boolean', 'Measure', True)])

NUMS = [0.0, -1.0, 1.0, 2.5, -0.5, 1e-300, 1e300, -1e300, 123456789.123, None, 1e15, 0.1]
INTS = [0, -1, 1, 7, -7, 2**31, -2**31, 2**62, -2**62, None, 9223372036854775807, 1000000]
STRS = ['', 'abc', '12', '1.5', ' 7 ', '0x1F', '1e5', 'true', '2020-01-01', '2020Q1', '2020-13-01', '€', 'a%b_c', '(', '[a-', '\\', "it's", None, 'NaN', 'inf', '9' * 30]
PERIODS = ['2020', '2020A', '2020S1', '2020S2', '2020Q1', '2020Q4', '2020M01', '2020M12', '2020W01', '2020W53', '2021W52', '2020D001', '2020D366', '9999M12', '0001M01', '2020-Q3', '2020-M06', None]
DATES = ['2020-01-01', '2020-02-29', '1900-01-01', '9999-12-31', '2020-12-31 23:59:59', '1800-01-01', None]
TIMES = ['2020-01-01/2020-12-31', '2020-01-01/2020-01-01', '2020-02-01/2020-02-29', '2020', '2020-Q1', None]
DURS = ['A', 'S', 'Q', 'M', 'W', 'D', 'P1Y', 'P1M', 'P1D', None]

NUM_SCRIPTS = ['DS_N[calc x := cast("2020M7", time_period)]', 'DS_N[calc x := cast("2020-01-01/2020-12-31", time), y := cast("2021W53", time_period)]', 'DS_N / 0', '1 / DS_N', 'DS_N / DS_N', 'DS_N[calc x := Me_1 / Me_2]', 'ln(DS_N)', 'DS_N[calc x := ln(Me_1)]', 'log(DS_N, 10)', 'log(DS_N, 0)', 'log(DS_N, -2)',
               'log(DS_N, 1)', 'DS_N[calc x := log(10, Me_1)]', 'sqrt(DS_N)', 'DS_N[calc x := sqrt(Me_2)]', 'power(DS_N, 400)', 'power(DS_N, 0.5)', 'power(DS_N, -1)',
               'DS_N[calc x := power(Me_1, Me_2)]', 'exp(DS_N)', 'DS_N[calc x := exp(Me_2)]', 'DS_N * DS_N', 'DS_N[calc x := Me_2 * Me_2]', 'DS_N[calc x := Me_2 + Me_2]',
               'DS_N[calc x := Me_2 * 4]', 'DS_N[calc x := Me_2 - 9223372036854775807]', 'mod(DS_N, 0)', 'DS_N[calc x := mod(Me_2, Me_2)]', 'round(DS_N, 400)', 'round(DS_N, -400)',
               'trunc(DS_N, 20)', 'DS_N[calc x := round(Me_1, Me_2)]', 'abs(DS_N)', 'ceil(DS_N)', 'floor(DS_N)', 'DS_N[calc x := ceil(Me_1)]', '-DS_N', 'cast(DS_N, integer)',
               'DS_N[calc x := cast(Me_1, integer)]', 'cast(DS_N, string)', 'DS_N[calc x := cast(Me_1, boolean)]', 'sum(DS_N)', 'avg(DS_N)', 'DS_N[aggr x := sum(Me_2)]',
               'DS_N[aggr x := stddev_samp(Me_1), y := var_pop(Me_1)]', 'median(DS_N)', 'sum(DS_N[keep Me_2] over (order by Id_1))', 'ratio_to_report(DS_N over (partition by Id_1))',
               'DS_N[calc x := ratio_to_report(Me_1 over ())]', 'DS_N[calc x := sum(Me_2 over (order by Id_1 data points between 1 preceding and 1 following))]',
               'DS_N[filter Me_1 / Me_2 > 1]', 'DS_N[calc x := if Me_2 = 0 then 0 else Me_1 / Me_2]', 'between(DS_N, 0, 1)', 'DS_N in {0, 1}', 'nvl(DS_N, 0)', 'isnull(DS_N)',
               'DS_N[calc x := cast(Me_2, string) || "a"]', 'DS_N[calc x := Me_1 > Me_2 and Me_2 / Me_2 = 1]', 'random(DS_N, 3)', 'DS_N[calc x := random(Me_2, 1)]',
               'DS_N[calc x := cast(Me_2, date, "YYYY")]', 'DS_N[calc x := cast(Me_1, duration)]', 'DS_N[calc x := cast(Me_2, time_period)]']
STR_SCRIPTS = ['cast(DS_S, integer)', 'cast(DS_S, number)', 'DS_S[calc x := cast(Me_1, integer)]', 'DS_S[calc x := cast(Me_1, number)]', 'DS_S[calc x := cast(Me_1, boolean)]',
               'DS_S[calc x := cast(Me_1, date)]', 'DS_S[calc x := cast(Me_1, date, "YYYY-MM-DD")]', 'DS_S[calc x := cast(Me_1, time_period)]', 'DS_S[calc x := cast(Me_1, time)]',
               'DS_S[calc x := cast(Me_1, duration)]', 'substr(DS_S, 0, 1)', 'substr(DS_S, -1, 2)', 'substr(DS_S, 2, -1)', 'substr(DS_S, 100)', 'DS_S[calc x := substr(Me_1, Id_1, Id_1)]',
               'instr(DS_S, "a", 0)', 'instr(DS_S, "", 1, 1)', 'instr(DS_S, "a", 1, 0)', 'instr(DS_S, "a", -1, 2)', 'replace(DS_S, "", "x")', 'replace(DS_S, "a")', 'DS_S[calc x := replace(Me_1, Me_1, Me_1)]',
               'match_characters(DS_S, "[a-")', 'match_characters(DS_S, "(")', 'match_characters(DS_S, "\\\\")', 'DS_S[calc x := match_characters(Me_1, "^[0-9]+$")]', 'DS_S[calc x := match_characters(Me_1, Me_1)]',
               'length(DS_S)', 'upper(DS_S)', 'trim(DS_S)', 'DS_S || DS_S', 'DS_S[calc x := Me_1 || null]', 'DS_S = "abc"', 'DS_S > DS_S', 'DS_S in {"abc", ""}', 'between(DS_S, "a", "z")',
               'levenshtein(DS_S, DS_S)', 'DS_S[calc x := levenshtein(Me_1, "abc")]', 'DS_S[calc x := hamming(Me_1, "abc")]', 'DS_S[calc x := jaro_winkler(Me_1, "abc")]',
               'min(DS_S)', 'max(DS_S)', 'count(DS_S)', 'DS_S[aggr x := max(Me_1)]', 'first_value(DS_S over (order by Id_1))', 'lag(DS_S, 1 over (order by Id_1))',
               'DS_S[calc x := lag(Me_1, 1000000 over (order by Id_1))]', 'DS_S[calc x := lead(Me_1, 0 over (order by Id_1))]', 'DS_S[sub Id_1 = 1]', 'DS_S[pivot Id_1, Me_1]', 'DS_S[unpivot Id_2, Me_9]']
TP_SCRIPTS = ['DS_T', 'timeshift(DS_TI, 1)', 'timeshift(DS_TI, -100000)', 'timeshift(DS_TI, 100000)', 'period_indicator(DS_TI)', 'DS_T[calc x := period_indicator(Me_1)]',
              'time_agg("A", DS_TI)', 'time_agg("M", DS_TI)', 'time_agg("D", DS_TI)', 'time_agg("W", DS_TI)', 'DS_T[calc x := time_agg("Q", Me_1)]', 'DS_T[calc x := time_agg("A", Me_1, first)]',
              'fill_time_series(DS_TI, all)', 'fill_time_series(DS_TI, single)', 'flow_to_stock(DS_TI)', 'stock_to_flow(DS_TI)', 'DS_T[calc x := cast(Me_1, date)]', 'DS_T[calc x := cast(Me_1, string)]',
              'DS_T[calc x := cast(Me_1, time)]', 'DS_T[calc x := getyear(Me_1)]', 'DS_T[calc x := getmonth(Me_1)]', 'DS_T[calc x := dayofmonth(Me_1)]', 'DS_T[calc x := dayofyear(Me_1)]',
              'min(DS_T)', 'max(DS_T)', 'DS_T[aggr x := max(Me_1)]', 'DS_T[calc x := Me_1 > cast("2020Q1", time_period)]', 'DS_T[filter Me_1 = cast("2020M01", time_period)]',
              'DS_T[calc x := Me_1 < Me_1]', 'DS_T = DS_T', 'DS_T < DS_T', 'sum(DS_TI group all time_agg("A", Id_1))', 'DS_T[calc x := datediff(Me_1, Me_1)]',
              'DS_T[calc x := dateadd(Me_1, 1, "M")]', 'DS_T[calc x := dateadd(Me_1, 100000, "A")]', 'DS_T[calc x := timeshift(Me_1, 1)]', 'union(DS_T, DS_T)', 'DS_T[calc identifier x := Me_1]']
D_SCRIPTS = ['DS_D', 'DS_D[calc x := getyear(Me_1), y := getmonth(Me_1), z := dayofmonth(Me_1), w := dayofyear(Me_1)]', 'DS_D[calc x := datediff(Me_1, cast("2000-01-01", date))]',
             'DS_D[calc x := dateadd(Me_1, 1, "M")]', 'DS_D[calc x := dateadd(Me_1, 1000000, "A")]', 'DS_D[calc x := dateadd(Me_1, -1000000, "D")]', 'DS_D[calc x := dateadd(Me_1, 1, "X")]',
             'DS_D[calc x := cast(Me_1, time_period)]', 'DS_D[calc x := cast(Me_1, string, "YYYY")]', 'DS_D[calc x := cast(Me_2, date)]', 'DS_D[calc x := cast(Me_2, time_period)]',
             'DS_D[calc x := cast(Me_2, string)]', 'DS_D[calc x := cast(Me_3, integer)]', 'DS_D[calc x := cast(Me_3, string)]', 'DS_D[calc x := daytoyear(cast(Me_3, integer))]',
             'DS_D[calc x := yeartoday(Me_3)]', 'DS_D[calc x := monthtoday(Me_3)]', 'DS_D[calc x := daytoyear(-5)]', 'DS_D[calc x := daytomonth(-1)]', 'DS_D[calc x := daytoyear(400)]',
             'DS_D[calc x := time_agg("M", Me_1)]', 'DS_D[calc x := time_agg("A", Me_1, last)]', 'DS_D[calc x := Me_1 > cast("2020-01-01", date)]', 'DS_D[calc x := Me_3 > cast("M", duration)]',
             'DS_D[calc x := Me_2 = Me_2]', 'min(DS_D[keep Me_1])', 'max(DS_D[keep Me_3])', 'DS_D[aggr x := min(Me_3), y := max(Me_2)]', 'DS_D[calc x := period_indicator(cast(Me_1, time_period))]',
             'DS_D[calc x := current_date() > Me_1]', 'DS_D[calc x := datediff(Me_1, Me_2)]', 'DS_D[calc x := getyear(Me_2)]']
B_SCRIPTS = ['not DS_B', 'DS_B and DS_B', 'DS_B or true', 'DS_B xor null', 'if DS_B then 1 else 0', 'if DS_B then DS_N else DS_N * 2', 'DS_B[calc x := if Me_1 then 1 / 0 else 1]',
             'case when DS_B then DS_N else DS_N', 'check(DS_B errorcode "e" errorlevel 1)', 'check(DS_N > 0 errorcode "e" errorlevel 1 imbalance DS_N)', 'cast(DS_B, integer)', 'cast(DS_B, string)',
             'DS_B[calc x := cast(Me_1, number)]', 'exists_in(DS_B, DS_N)', 'exists_in(DS_B, DS_N, false)', 'DS_B[calc x := Me_1 and null]', 'sum(DS_B)', 'DS_B = true', 'DS_B[filter Me_1]']
FORMATS = ['vtl', 'sdmx_gregorian', 'sdmx_reporting', 'natural']


def _table(rnd, cols_pools, n):
    rows = []
    for i in range(n):
        rows.append([i + 1] + [rnd.choice(p) for p in cols_pools])
    return rows


def _periods_table(rnd, n):
    """Time_Period identifier: one indicator per table most of the time (mixed indicators are their own case)."""
    fam = rnd.choice(['A', 'S', 'Q', 'M', 'W', 'D', 'mixed'])
    pool = [p for p in PERIODS if p and (fam == 'mixed' or (fam == 'A' and (len(p) == 4 or p.endswith('A'))) or (fam != 'A' and fam in p[4:]))]
    pool = sorted(set(pool)) or ['2020']
    rnd.shuffle(pool)
    return [[p, rnd.choice(NUMS[:6] + [None])] for p in pool[:n]]


def failing_calls(rnd, n):
    """Scripts that pass (or may pass) semantic analysis over inputs that pass load validation, with runtime-hostile values."""
    calls = []
    fams = [(NUM_SCRIPTS, 'N'), (STR_SCRIPTS, 'S'), (TP_SCRIPTS, 'T'), (D_SCRIPTS, 'D'), (B_SCRIPTS, 'B')]
    for i in range(n):
        scripts, fam = fams[i % len(fams)]
        sc = scripts[(i // len(fams)) % len(scripts)] if i < len(fams) * max(len(s) for s, _ in fams) else rnd.choice(scripts)
        dps = {'DS_N': c22.df(['Id_1', 'Me_1', 'Me_2'], _table(rnd, [NUMS, INTS], rnd.choice([0, 1, 3, 6])), 'object'),
               'DS_S': c22.df(['Id_1', 'Me_1'], _table(rnd, [STRS], rnd.choice([0, 2, 5])), 'object'),
               'DS_T': c22.df(['Id_1', 'Me_1'], _table(rnd, [PERIODS], rnd.choice([1, 3, 6])), 'object'),
               'DS_TI': c22.df(['Id_1', 'Me_1'], _periods_table(rnd, rnd.choice([1, 3, 5])), 'object'),
               'DS_D': c22.df(['Id_1', 'Me_1', 'Me_2', 'Me_3'], _table(rnd, [DATES, TIMES, DURS], rnd.choice([1, 3])), 'object'),
               'DS_B': c22.df(['Id_1', 'Me_1'], _table(rnd, [[True, False, None]], rnd.choice([0, 3])), 'object')}
        used = [d for d in (DS_N, DS_S, DS_T, DS_TI, DS_D, DS_B) if d['name'] in sc.replace('(', ' ').replace(',', ' ').replace('[', ' ').replace(')', ' ').split()]
        call = {'id': 'f%d' % i, 'api': 'run', 'script': 'R <- %s;' % sc, 'rop': False, 'check_sem': True,
                'raw': {'ds': {'datasets': used}, 'dps': {d['name']: dps[d['name']] for d in used}}}
        if fam in ('T', 'D'):
            call['kw'] = {'time_period_output_format': FORMATS[(i // 5) % 4]}
        if i % 7 == 3:
            call['folder'] = rnd.choice(['csv', 'parquet'])
        calls.append(call)
    return calls


def _extreme(c):
    """tag: the call involves a period before year 1000 or a shift of 100000 periods (identifies the known finding)"""
    txt = json.dumps(c.get('raw', {}).get('dps', {})) + c.get('script', '')
    return ' extreme-years' if ('"0001' in txt or '100000' in txt) else ''


def main(chk):
    rnd = random.Random(chk.seed)
    quick = chk.tier == 'quick'
    apicalls.model_check(chk)
    calls = failing_calls(rnd, 450 if quick else 4000)
    base = variants.mixed_units(rnd, 60 if quick else 600)
    for i, u in enumerate(base):
        calls.append({'id': 'g%d' % i, 'api': 'run', 'script': 'R <- %s;' % render.expr(u['term']), 'env': u['env'], 'check_sem': True})
    cases = corpus.discover()
    rnd.shuffle(cases)
    for c in cases[:(120 if quick else len(cases))]:
        calls.append({'id': 'c:%s' % c['id'], 'api': 'run', 'case': c, 'check_sem': True})
    units = k2.pmap('harness.apicalls:observe', calls)
    chk.add('skipped_pysdmx_input', len([u for u in units if 'skip' in u]))
    calls = [c for c, u in zip(calls, units) if 'skip' not in u]
    units = [u for u in units if 'skip' not in u]
    for u in units:
        if 'machinery' in u:
            raise RuntimeError(u['machinery'])
        u.pop('before', None)
        u.pop('after', None)
        for k in ('files', 'mem', 'returned', 'expected', 'scalars', 'scalarfile', 'memscalars', 'retscalars', 'tofolder', 'ext'):
            u.pop(k, None)
    verd = apicalls.validate(chk, units)
    kinds = {}
    distinct = set()
    for c, u in zip(calls, units):
        chk.add('evaluations')
        chk.add('traces_validated_against_impl')
        o = u['outcome']
        kinds[o['kind']] = kinds.get(o['kind'], 0) + 1
        distinct.add((o['kind'], o['cls'], o['code'], (u.get('text') or '')[:60]))
        v = verd[u['id']]
        if u.get('sem') != 'ok':
            chk.add('outside_antecedent_semantic_analysis_fails')      # the property speaks of scripts that pass semantic analysis
            if v['c32']:
                chk.add('raw_errors_inside_semantic_analysis_not_judged')
                chk.notes.setdefault('raw_in_semantic_analysis', [])
                if len(chk.notes['raw_in_semantic_analysis']) < 12:
                    chk.notes['raw_in_semantic_analysis'].append({'script': u.get('text'), 'error': o['cls'], 'msg': o['msg'][:120]})
            continue
        if v['c32']:
            shape = ('corpus ' + u['id'][2:].rsplit('.', 1)[0]) if u['id'].startswith('c:') else u.get('text', '')[:110]
            fmt = c.get('kw', {}).get('time_period_output_format', '')
            chk.violation('raw:%s | %s | fmt=%s folder=%s%s' % (o['cls'], shape, fmt, c.get('folder'), _extreme(c)), '%s: %s' % (v['c32'], o['msg']),
                          {'script': u.get('text'), 'call': {k: c[k] for k in c if k in ('kw', 'folder', 'raw')}, 'outcome': o})
        elif o['kind'] == 'vtl' and len(chk.cov['samples']) < 5:
            chk.sample({'script': u.get('text'), 'raised': o['cls'], 'code': o['code']})
    chk.add('distinct_nontrivial', len(distinct))
    chk.notes['outcomes'] = kinds
    demo = json.loads(json.dumps(units[0]))
    demo['id'] = 'demo'
    demo['outcome'] = {'kind': 'raw', 'cls': 'duckdb.Error', 'code': '', 'rendered': True}
    if not apicalls.validate(chk, [demo])['demo']['c32']:
        raise RuntimeError('binding demonstration failed (C32)')
    chk.notes['binding_demo'] = 'an observation with a raw outcome is rejected'
    chk.cov['rule'] = ('runtime-hostile generator: %d script templates (numeric domain errors, overflows, zero divisors at dataset/component/scalar level, string casts of '
                       'unparsable text, regex operators with malformed patterns, substr/instr edge arguments, every time operator over periods of every indicator incl. W53/D366/'
                       'year 9999, date arithmetic overflow, duration conversions, conditionals) x value pools x the four time-period output formats x memory/csv/parquet delivery; '
                       'plus random units and corpus scripts.  Every call is one event validated by TLC (VTLApi_Trace, obligation OutcomeAlphabet of VTLApi): ok or a VTL error; '
                       'a raw exception has no enabling action. distinct = distinct (outcome, class, code, script)') % (len(NUM_SCRIPTS) + len(STR_SCRIPTS) + len(TP_SCRIPTS) + len(D_SCRIPTS) + len(B_SCRIPTS))
    chk.assumptions += ['inputs are generated valid for their declared structure (load validation passes); scripts rejected by semantic analysis count as VTL errors']
