"""C09 cast converts values according to the documented conversion table."""
import datetime
import json
from fractions import Fraction

from harness import bulk, k2, tlc
from props.c08 import parse_period

LEVEL = 'model_checking'
VTLNAME = {'String': 'string', 'Number': 'number', 'Integer': 'integer', 'Boolean': 'boolean', 'Time': 'time', 'Date': 'date',
           'Time_Period': 'time_period', 'Duration': 'duration'}


def src_text(p):
    """input text of the source value of a point (None = null)"""
    v = p['src']
    if v[0] == 0:
        return None
    if p['from'] == 'Number':
        f = Fraction(v[1][0], v[1][1])
        return repr(float(f))
    if p['from'] == 'String':
        return v[1]
    return p['text']


def literal(p):
    """VTL literal for scalar-level casts (None if the source type has no literal)"""
    v = p['src']
    if v[0] == 0:
        return 'null'
    if p['from'] == 'String':
        return '"%s"' % v[1]
    if p['from'] == 'Integer':
        return str(v[1])
    if p['from'] == 'Number':
        s = repr(float(Fraction(v[1][0], v[1][1])))
        return s
    if p['from'] == 'Boolean':
        return 'true' if v[1] else 'false'
    return None


def decode(x, t):
    """engine result value -> tagged value comparable with the spec's (strings as text)"""
    if x is None:
        return [0, 0]
    try:
        if t == 'Integer':
            return [1, int(x)] if float(x) == int(x) else [2, str(x)]
        if t == 'Number':
            f = Fraction(repr(float(x))).limit_denominator(10000)
            return [2, [f.numerator, f.denominator]]
        if t == 'Boolean':
            return [3, bool(x)]
        if t == 'String':
            return [4, str(x)]
        if t == 'Date':
            s = str(x)
            if len(s) > 10 and s[11:19] not in ('00:00:00', ''):
                return [13, s]
            return [5, datetime.date.fromisoformat(s[:10]).toordinal()]
        if t == 'Time_Period':
            y, i, n = parse_period(x)
            return [6, [y, i, n]]
        if t == 'Time':
            a, b = str(x).split('/')
            return [7, [datetime.date.fromisoformat(a[:10]).toordinal(), datetime.date.fromisoformat(b[:10]).toordinal()]]
        if t == 'Duration':
            return [8, str(x)]
    except Exception:
        pass
    return [13, str(x)]


def same(exp, got):
    if exp[0] == 14:
        return True
    if exp[0] == 2 and got[0] in (1, 2):
        g = Fraction(got[1]) if got[0] == 1 else Fraction(got[1][0], got[1][1])
        return Fraction(exp[1][0], exp[1][1]) == g
    return exp == got


def struct1(name, t, as_id=False):
    return bulk.struct(name, [('Id_1', 'Integer', 'I'), ('Me_1', t, 'M')])


def main(chk):
    quick = chk.tier == 'quick'
    r = tlc.run('GenCast', 'GenCast.cfg', workers=1)
    if r.violated:
        chk.violation('model %s' % r.violated, 'TLC: %s violated in GenCast' % r.violated, r.output[-2000:])
        return
    tlc.must(r, 'GenCast')
    chk.add('states', r.states)
    chk.add('transitions', r.generated)
    chk.cov['exhaustive'] = True
    pts = [json.loads(x) for x in r.lines]
    pairs = {}
    for p in pts:
        pairs.setdefault((p['from'], p['to']), []).append(p)
    args, meta = [], []
    for (f, t), ps in sorted(pairs.items()):
        st = struct1('DS_1', f)
        good = [p for p in ps if p['exp'] != [9, 'runtime'] and p['exp'] != [9, 'semantic']]
        bad = [p for p in ps if p['exp'] == [9, 'runtime']]
        comp = 'R := DS_1[calc x := cast(Me_1, %s)];' % VTLNAME[t]
        dsl = 'R := cast(DS_1, %s);' % VTLNAME[t]
        if not ps[0]['accepted'] and any(p.get('beyond', [14, 0])[0] != 14 for p in ps):
            # the documentation forbids the pair; where the engine converts anyway the values are still checked (one value per run)
            for p in ps:
                args.append({'script': comp, 'structures': [st], 'tables': {'DS_1': {'cols': ['Id_1', 'Me_1'], 'rows': [[0, src_text(p)]]}}})
                meta.append(('beyond', 'component', f, t, [p]))
        if not ps[0]['accepted']:
            rows = [[k, src_text(p)] for k, p in enumerate(ps) if p['src'][0] != 0][:3] or [[0, None]]
            for lvl, sc in (('component', comp), ('dataset', dsl)):
                args.append({'script': sc, 'structures': [st], 'tables': {'DS_1': {'cols': ['Id_1', 'Me_1'], 'rows': rows}}, 'sem': True})
                meta.append(('semantic', lvl, f, t, ps))
            lit = [literal(p) for p in ps if literal(p) and p['src'][0] != 0][:1]
            if lit:
                args.append({'script': 'R := cast(%s, %s);' % (lit[0], VTLNAME[t]), 'structures': [st], 'tables': {}, 'sem': True})
                meta.append(('semantic', 'scalar', f, t, ps))
            continue
        rows = [[k, src_text(p)] for k, p in enumerate(good)]
        for lvl, sc in (('component', comp), ('dataset', dsl)):
            args.append({'script': sc, 'structures': [st], 'tables': {'DS_1': {'cols': ['Id_1', 'Me_1'], 'rows': rows}}})
            meta.append(('values', lvl, f, t, good))
        lits = [(p, literal(p)) for p in good if literal(p)]
        if lits:
            args.append({'script': '\n'.join('R_%d := cast(%s, %s);' % (k, l, VTLNAME[t]) for k, (p, l) in enumerate(lits)), 'structures': [st], 'tables': {}})
            meta.append(('values', 'scalar', f, t, [p for p, _ in lits]))
        for p in bad:
            args.append({'script': comp, 'structures': [st], 'tables': {'DS_1': {'cols': ['Id_1', 'Me_1'], 'rows': [[0, src_text(p)]]}}})
            meta.append(('runtime', 'component', f, t, [p]))
            if literal(p):
                args.append({'script': 'R := cast(%s, %s);' % (literal(p), VTLNAME[t]), 'structures': [st], 'tables': {}})
                meta.append(('runtime', 'scalar', f, t, [p]))
    obs = k2.pmap('props.c09:run_point', args)
    distinct = set()
    for (kind, lvl, f, t, ps), a, o in zip(meta, args, obs):
        key = '%s cast(%s -> %s)' % (lvl, f, t)
        chk.add('evaluations', len(ps))
        if 'err' in o and o['err'].startswith('RAW'):
            chk.violation('raw | %s | %s' % (key, ps[0]['text'] if kind == 'runtime' else ''), 'raw error escaped: %s %s' % (o['err'], o['msg'][:200]), {'script': a['script'], 'input': a['tables']})
            continue
        if kind == 'beyond':
            p = ps[0]
            if o.get('sem') == 'SemanticError':
                continue                      # the engine follows the documented table for this pair
            want = p['beyond']
            if 'err' in o:
                if want != [9, 'runtime']:
                    chk.violation('value (pair beyond the table) | %s | %r' % (key, p['text']), 'the engine admits cast %s -> %s; %s converts to %s but the engine raised %s %s' % (f, t, p['text'], want, o['err'], o['msg'][:120]), {'script': a['script']})
                else:
                    chk.add('traces_validated_against_impl')
                continue
            tb = o['results']['R']
            got = decode(tb['rows'][0][tb['cols'].index('x')] if tb['rows'] else None, t)
            if want == [9, 'runtime']:
                chk.violation('unconvertible accepted (pair beyond the table) | %s | %r' % (key, p['text']), 'cast of %s (%s) to %s has no calendar-correct value, engine returned %s' % (p['text'], f, t, got), {'script': a['script']})
            elif want[0] == 5 and got[0] == 5 and got[1] == want[1] or same(want, got):
                chk.add('traces_validated_against_impl')
                distinct.add((f, t, 'beyond', p['k']))
            else:
                chk.violation('value (pair beyond the table) | %s | %r' % (key, p['text']), 'the engine admits cast %s -> %s: %s must convert to %s, engine %s' % (f, t, p['text'], want, got), {'script': a['script']})
            continue
        if kind == 'semantic':
            if o.get('sem') != 'SemanticError':
                chk.violation('forbidden accepted | %s' % key, 'the documented table forbids cast %s -> %s: a semantic error is required; semantic_analysis: %s, run: %s' %
                              (f, t, o.get('sem'), o.get('err') or 'returned a result'), {'script': a['script']})
            else:
                chk.add('traces_validated_against_impl', len(ps))
                distinct.add((f, t, lvl, 'semantic'))
            continue
        if kind == 'runtime':
            p = ps[0]
            if 'err' not in o:
                got = o['results']['R']
                val = got.get('scalar') if 'scalar' in got else (got['rows'][0][got['cols'].index('x')] if got['rows'] else None)
                chk.violation('unconvertible accepted | %s | %r' % (key, p['text']), 'cast(%r, %s) must be a runtime error (the text is not a documented %s representation), engine returned %r' % (p['text'], VTLNAME[t], t, val),
                              {'script': a['script'], 'input': p['text'], 'returned': val})
            elif o.get('sem') == 'SemanticError' and lvl != 'scalar':
                chk.violation('pair rejected | %s' % key, 'the documented table admits cast %s -> %s but semantic analysis rejects it: %s' % (f, t, o['msg'][:200]), {'script': a['script']})
            else:
                chk.add('traces_validated_against_impl')
                distinct.add((f, t, lvl, 'runtime', p['text']))
            continue
        # values
        if 'err' in o:
            what = 'pair rejected' if o.get('sem') == 'SemanticError' else 'values rejected'
            chk.violation('%s | %s' % (what, key), 'the documented table admits cast %s -> %s for these values, engine raised %s %s' % (f, t, o['err'], o['msg'][:200]),
                          {'script': a['script'], 'inputs': [p['text'] for p in ps]})
            continue
        res = o['results']
        if lvl == 'scalar':
            for k, p in enumerate(ps):
                g = res['R_%d' % k]
                got = decode(g['scalar'], t)
                if not same(p['exp'], got):
                    chk.violation('value | %s | %r' % (key, p['text']), 'cast(%s, %s): documented %s, engine %s' % (literal(p), VTLNAME[t], p['exp'], got), {'script': a['script']})
                else:
                    chk.add('traces_validated_against_impl')
                    distinct.add((f, t, lvl, p['k']))
            continue
        tb = res['R']
        col = 'x' if lvl == 'component' else ps[0]['name']
        if col not in tb['cols']:
            ms = [c for c in tb['cols'] if tb['roles'].get(c) == 'M']
            chk.violation('measure name | %s' % key, 'cast(DS, %s) of a %s measure: documented measure name %s, engine measures %s' % (VTLNAME[t], f, col, ms), {'script': a['script']})
            continue
        if lvl == 'dataset' and [c for c in tb['cols'] if tb['roles'].get(c) == 'M'] != [col]:
            chk.violation('measure name | %s' % key, 'cast(DS, %s): expected exactly the measure %s, engine %s' % (VTLNAME[t], col, tb['cols']), {'script': a['script']})
            continue
        ci, cx = tb['cols'].index('Id_1'), tb['cols'].index(col)
        gotm = {r_[ci]: r_[cx] for r_ in tb['rows']}
        if tb['types'].get(col) != t:
            chk.violation('result type | %s' % key, 'result component %s has type %s, expected %s' % (col, tb['types'].get(col), t), {'script': a['script']})
            continue
        for k, p in enumerate(ps):
            got = decode(gotm.get(k), t)
            if not same(p['exp'], got):
                chk.violation('value | %s | %r' % (key, p['text']), 'cast of %r (%s) to %s: documented %s, engine %s' % (src_text(p), f, t, p['exp'], got), {'script': a['script'], 'input': src_text(p)})
            else:
                chk.add('traces_validated_against_impl')
                distinct.add((f, t, lvl, p['k']))
                if len(chk.cov['samples']) < 5 and p['exp'][0] not in (0, 14) and f != t:
                    chk.sample({'cast': '%s -> %s' % (f, t), 'level': lvl, 'input': src_text(p), 'documented': p['exp'], 'engine': got})
    chk.add('distinct_nontrivial', len(distinct))
    chk.notes['points'] = len(pts)
    chk.notes['binding_demo'] = 'expected outcomes are computed by TLC from the documented table (VTLCast); e.g. cast("3.5", integer) is expected to be a runtime error'
    chk.cov['rule'] = ('TLC (GenCast over VTLCast/VTLTypes/VTLFormats/VTLCalendar) enumerates all 8x8 (source, target) pairs x the value pool of the source type and emits the documented '
                       'outcome (value, semantic error, runtime error, or not determined) and the measure name of the dataset form; each point is replayed at component level '
                       '(calc), dataset level (single measure) and, where the source type has literals, scalar level; forbidden pairs must already fail in semantic_analysis(); '
                       'unconvertible values are run one by one and must raise a VTL error. distinct = (pair, level, value) points agreed')
    chk.assumptions += ['a pair of the implicit table is accepted by cast (Date -> Time, Time_Period -> Time) although the explicit table shows a dash',
                        'not determined by the documentation: Number -> String / Date -> String / Time_Period -> String formatting, Number -> Integer of a fractional value']


def run_point(arg):
    """Worker: semantic_analysis outcome + run outcome."""
    from harness import engine
    engine.boot()
    from vtlengine import semantic_analysis
    o = {}
    try:
        semantic_analysis(script=arg['script'], data_structures={'datasets': arg['structures']})
        o['sem'] = 'ok'
    except Exception as e:  # noqa
        o['sem'] = k2.classify_exception(e)['err']
    o.update(bulk.run_tables(arg))
    return o
