"""C18 CSV, DataFrame and Parquet inputs with the same content behave identically."""
from props import tables

LEVEL = 'model_checking'


def main(chk):
    tabs = tables.model(chk)
    if not tabs:
        return
    obs = tables.observe_all(chk, tabs)
    distinct = set()
    for t in tabs:
        outs = {}
        for f in tables.FORMS:
            o = obs[(t['id'], f)]['run']
            chk.add('evaluations')
            outs[f] = ('accept', tuple(tables.canon_rows(o['rows']))) if o['outcome'] == 'accept' else (('reject',) if o['outcome'] in ('reject', 'other-vtl') else ('raw', o['err']))
        kinds = {f: v[0] for f, v in outs.items()}
        if 'raw' in kinds.values():
            bad = [f for f, k in kinds.items() if k == 'raw']
            chk.violation('form %s raw | %s' % ('+'.join(bad), t['id']), 'a raw error escaped in form(s) %s: %s' % (bad, outs[bad[0]][1]), {'table': t})
            continue
        if len(set(kinds.values())) > 1:
            acc = [f for f, k in kinds.items() if k == 'accept']
            rej = [f for f, k in kinds.items() if k == 'reject']
            chk.violation('form %s accepted, %s rejected | %s' % ('+'.join(acc), '+'.join(rej), t['id']),
                          'same table, different outcome: accepted as %s, rejected as %s (%s)' % (acc, rej, obs[(t['id'], rej[0])]['run'].get('msg')), {'table': t})
            continue
        if kinds['csv'] == 'accept' and len({v[1] for v in outs.values()}) > 1:
            ref = outs['csv'][1]
            dif = [f for f, v in outs.items() if v[1] != ref]
            chk.violation('form %s values differ from csv | %s' % ('+'.join(dif), t['id']), 'same table accepted in every form but the results differ: csv %s, %s %s' % (ref[:3], dif[0], outs[dif[0]][1][:3]), {'table': t})
            continue
        chk.add('traces_validated_against_impl', len(tables.FORMS))
        distinct.add((t['id'], kinds['csv']))
        if len(chk.cov['samples']) < 5 and t['verdict'] == 'undetermined':
            chk.sample({'table': t['id'], 'cells': [[c['text'] for c in r] for r in t['rows']], 'outcome_in_all_forms': kinds['csv']})
    chk.add('distinct_nontrivial', len(distinct))
    chk.notes['tables'] = len(tabs)
    chk.notes['binding_demo'] = 'the tables are the TLC-enumerated ones of GenTables; every form of a table is one observation of the same abstract table'
    chk.cov['rule'] = ('every table TLC enumerates from VTLFormats (all cell pools incl. the cells whose validity the documentation leaves open - padded, hexadecimal, fractional, empty - in three roles, '
                       'duplicate spellings, structural violations) is written as CSV, DataFrame with string columns, DataFrame with native dtypes (Int64 / Float64 / boolean where every cell is a '
                       'value) and Parquet; all four must be rejected with a VTL input error, or all accepted with the same values. distinct = tables agreed in all forms')
    chk.assumptions += ['a null cell is an empty unquoted CSV field / None in a DataFrame; the empty STRING is the cell StringCells.empty (quoted "" in CSV)']
