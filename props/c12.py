"""C12 Results do not depend on the textual order of statements."""
import hashlib
import itertools
import json
import random

from harness import corpus, dagscripts, engine, k2, tlc
from props import c13

LEVEL = 'model_checking'


def digest(obj):
    return hashlib.sha1(json.dumps(obj, sort_keys=True).encode()).hexdigest()[:16]


def canon_result(enc):
    """order-free canonical form of an encoded result"""
    if 'rows' in enc:
        return {'comps': enc['comps'], 'rows': sorted(json.dumps(r, sort_keys=True) for r in enc['rows'])}
    return enc


def observe(unit):
    """Worker: outcomes of semantic_analysis and run for one script text."""
    engine.boot()
    from vtlengine import run, semantic_analysis
    from harness import values
    out = {}
    if 'case' in unit:
        text0, structures, dps, _ = corpus.load_case(unit['case'])
        text = unit['text']
        ds = structures
    else:
        text = unit['text']
        env = {n: c13.input_ds(int(n.split('_')[1])) for n in unit['inputs']}
        ds, dps, _ = k2.build_inputs(env)
    try:
        r = semantic_analysis(script=text, data_structures=ds)
        st = {k: (values.comps_of(v) if hasattr(v, 'components') else values.type_name(v.data_type)) for k, v in r.items()}
        out['sem'] = {'outcome': 'ok', 'digest': digest(sorted(st.items())), 'n': len(st)}
    except Exception as e:  # noqa
        c = k2.classify_exception(e)
        out['sem'] = {'outcome': c.get('code') or c['err'], 'digest': '', 'msg': c['msg'][:200]}
    try:
        r = run(script=text, data_structures=ds, datapoints=dps, return_only_persistent=False)
        enc = {k: canon_result(values.enc_result(v)) for k, v in r.items()}
        out['run'] = {'outcome': 'ok', 'digest': digest(enc), 'n': len(enc)}
        if unit.get('want_results'):
            out['results'] = {k: values.enc_result(v) for k, v in r.items()}
    except Exception as e:  # noqa
        c = k2.classify_exception(e)
        out['run'] = {'outcome': c.get('code') or c['err'], 'digest': '', 'msg': c['msg'][:200]}
    return out


def gen_text(reads, perm, dup=None):
    """reads: list (per statement) of name lists; perm: textual order (1-based statement indices)."""
    lines = []
    for i in perm:
        lines.append('S_%d := %s;' % (i, ' + '.join(sorted(reads[i - 1]))))
    if dup:     # a second assignment to an existing name (reads an input only: no new dependency), at position dup[1]
        lines.insert(dup[1] % (len(lines) + 1), 'S_%d := In_1;' % dup[0])
    return '\n'.join(lines)


def split_statements(text):
    """Top-level statements of a script (by the parser stand-in's parse tree) -> list of source texts."""
    from harness import vtl_cpp_parser_shim as shim
    r = shim.raw_parse(text + '\n')
    if r.get('error') or 'tree' not in r:
        return None
    lines = (text + '\n').split('\n')
    offs = [0]
    for ln in lines:
        offs.append(offs[-1] + len(ln) + 1)
    out = []
    kids = r['tree']['c']
    i = 0
    while i < len(kids):
        k = kids[i]
        if 'r' in k and 's' in k and 'p' in k:
            a = offs[k['s'][0] - 1] + k['s'][1]
            b = offs[k['p'][0] - 1] + k['p'][1] + len(k['p'][2])
            out.append(text[a:b] if b <= len(text) else (text + '\n')[a:b])
        i += 1
    return out


def validate(chk, tunits):
    if not tunits:
        return {}
    path = engine.sub_dir('traces') + '/order-%d.json' % len(tunits)
    json.dump(tunits, open(path, 'w'))
    r = tlc.must(tlc.run('VTLOrder_Trace', 'VTLOrder_Trace.cfg', env={'TRACE_FILE': path}, workers=8), 'VTLOrder_Trace')
    chk.add('states', r.states)
    chk.add('transitions', r.generated)
    v = {}
    for line in r.lines:
        x = json.loads(line)
        v[x['id']] = x
    if len(v) != len(tunits):
        raise RuntimeError('missing verdicts from VTLOrder_Trace')
    return v


def main(chk):
    rnd = random.Random(chk.seed)
    quick = chk.tier == 'quick'
    r = tlc.run('VTLOrder', 'VTLOrder_quick.cfg' if quick else 'VTLOrder_thorough.cfg', workers=12, timeout=3000, coverage=True)
    if r.violated:
        chk.violation('model %s' % r.violated, 'TLC: %s violated in VTLOrder' % r.violated, r.output[-3000:])
    else:
        tlc.must(r, 'VTLOrder')
        tlc.vacuity(chk, r, 'VTLOrder')
    chk.add('states', r.states)
    chk.add('transitions', r.generated)
    chk.cov['exhaustive'] = True
    emitted = [json.loads(x) for x in sorted(set(r.lines))]
    # group the emitted (script, text order) pairs by script
    groups = {}
    for e in emitted:
        groups.setdefault(json.dumps(e['reads']), []).append(e)
    keys = sorted(groups)
    acyc = [k for k in keys if groups[k][0]['acyclic']]
    cyc = [k for k in keys if not groups[k][0]['acyclic']]
    pick = rnd.sample(acyc, min(len(acyc), 40 if quick else 400)) + rnd.sample(cyc, min(len(cyc), 25 if quick else 250))
    units, meta = [], []
    for k in pick:
        reads = json.loads(k)
        n = len(reads)
        perms = [g['text'] for g in groups[k]] if len(groups[k]) > 1 else list(itertools.permutations(range(1, n + 1)))
        if not quick and n >= 4:
            perms = rnd.sample(perms, 12)
        inputs = sorted({x for rs in reads for x in rs if x.startswith('In_')})
        for p in perms:
            units.append({'text': gen_text(reads, p), 'inputs': inputs, 'want_results': list(p) == sorted(p)})
            meta.append((k, list(p), None))
        # redefinition: statement a renamed to b's name (only for acyclic scripts with >= 2 statements)
        if groups[k][0]['acyclic'] and n >= 2:
            a = rnd.randrange(1, n + 1)
            for p in rnd.sample(perms, min(3, len(perms))):
                pos = rnd.randrange(0, n + 1)
                units.append({'text': gen_text(reads, p, dup=(a, pos)), 'inputs': sorted(set(inputs) | {'In_1'})})
                meta.append((k, list(p) + [pos], (a, 0)))
    # dependencies through clause bodies: scalars defined by statements and used inside calc / filter of several statements
    fam = dagscripts.generate(rnd, 25 if quick else 250)
    famof = {}
    for gi, sc in enumerate(fam):
        n = len(sc['stmts'])
        allp = list(itertools.permutations(range(n)))
        perms = [tuple(range(n)), tuple(reversed(range(n)))] + rnd.sample(allp, min(len(allp), 6 if quick else 30))
        for p in dict.fromkeys(perms):
            famof[len(units)] = (gi, sc)
            units.append({'text': '\n'.join(sc['stmts'][i]['text'] for i in p), 'inputs': sc['inputs'], 'want_results': p == tuple(range(n))})
            meta.append(('fam%d' % gi, [i + 1 for i in p], None))
    obs = k2.pmap('props.c12:observe', units)
    tun = {}
    vunits, vobs = [], []
    for ui, (u, (k, p, dup), o) in enumerate(zip(units, meta, obs)):
        chk.add('evaluations')
        if ui in famof:
            gi, sc = famof[ui]
            gid = 'k%d' % gi
            t = tun.setdefault(gid, {'id': gid, 'n': len(sc['stmts']), 'reads': [x['reads'] for x in sc['stmts']], 'dup': False, 'obs': [], 'texts': [], 'clause_scalars': True})
            for api in ('sem', 'run'):
                t['obs'].append({'perm': p, 'api': api, 'outcome': o[api]['outcome'], 'digest': o[api]['digest']})
            t['texts'].append(u['text'])
            if o.get('results'):
                env = {n: c13.input_ds(int(n.split('_')[1])) for n in u['inputs']}
                for name, res in o['results'].items():
                    if name in sc['terms']:
                        vunits.append({'id': '%s.%s' % (gid, name), 'env': env, 'term': sc['terms'][name], 'cc': False, 'text': u['text']})
                        vobs.append(dict(res, text=u['text']))
            continue
        gid = 'g%s%s' % (digest(k), '-dup%d%d' % dup if dup else '')
        t = tun.setdefault(gid, {'id': gid, 'n': len(json.loads(k)), 'reads': json.loads(k), 'dup': bool(dup), 'obs': [], 'texts': []})
        for api in ('sem', 'run'):
            t['obs'].append({'perm': p, 'api': api, 'outcome': o[api]['outcome'], 'digest': o[api]['digest']})
        t['texts'].append(u['text'])
        if o.get('results'):
            reads = json.loads(k)
            script = [{'name': 'S_%d' % (i + 1), 'reads': reads[i], 'pers': False} for i in range(len(reads))]
            env = {n: c13.input_ds(int(n.split('_')[1])) for n in u['inputs']}
            for name, res in o['results'].items():
                vunits.append({'id': '%s.%s' % (gid, name), 'env': env, 'term': c13.inline_term(script, name), 'cc': False, 'text': u['text']})
                vobs.append(dict(res, text=u['text']))
    # corpus: permutations of multi-statement scripts
    cases = [c for c in corpus.discover()]
    rnd.shuffle(cases)
    engine.boot()
    cunits, cmeta = [], []
    want = 25 if quick else 250
    got = 0
    for c in cases:
        if got >= want:
            break
        text = open(c['vtl'], encoding='utf-8').read()
        if 'define ' in text or text.count(';') < 2 or text.count(';') > 12:
            continue
        parts = split_statements(text)
        if not parts or len(parts) < 2:
            continue
        got += 1
        perms = list(itertools.permutations(range(len(parts)))) if len(parts) <= (3 if quick else 6) else \
            [tuple(rnd.sample(range(len(parts)), len(parts))) for _ in range(6 if quick else 50)]
        perms = [tuple(range(len(parts)))] + [p for p in rnd.sample(perms, min(len(perms), 3 if quick else 30)) if p != tuple(range(len(parts)))]
        for p in perms:
            cunits.append({'case': c, 'text': '\n'.join(parts[i] + ';' for i in p)})
            cmeta.append((c['id'], list(p)))
    cobs = k2.pmap('props.c12:observe', cunits)
    for u, (cid, p), o in zip(cunits, cmeta, cobs):
        chk.add('evaluations')
        gid = 'c' + digest(cid)
        t = tun.setdefault(gid, {'id': gid, 'n': 0, 'reads': [], 'dup': False, 'obs': [], 'texts': [], 'corpus': cid})
        for api in ('sem', 'run'):
            t['obs'].append({'perm': p, 'api': api, 'outcome': o[api]['outcome'], 'digest': o[api]['digest']})
        t['texts'].append(u['text'])
    tlist = list(tun.values())
    verdicts = validate(chk, [{k: v for k, v in t.items() if k not in ('texts', 'corpus', 'clause_scalars')} for t in tlist])
    nontrivial = 0
    for t in tlist:
        v = verdicts[t['id']]
        chk.add('traces_validated_against_impl', len(t['obs']))
        if len({json.dumps(o['perm']) for o in t['obs']}) > 1:
            nontrivial += 1
        if not v['ok']:
            kind = 'corpus %s' % t['corpus'] if 'corpus' in t else ('redefinition' if t['dup'] else 'clause-scalars' if t.get('clause_scalars') else 'generated')
            chk.violation('%s | %s' % (v['why'][:60], kind), v['why'], {'texts': t['texts'][:6], 'obs': t['obs'][:12]})
        else:
            chk.sample({'script': t['texts'][0], 'permutations_observed': len(t['texts']), 'outcome': t['obs'][0]['outcome']})
    chk.add('distinct_nontrivial', nontrivial)
    vs, st, gn = k2.validate(vunits, vobs)
    chk.add('states', st)
    chk.add('transitions', gn)
    for u, v in zip(vunits, vs):
        chk.add('result_values_checked')
        if not v['ok']:
            chk.violation('result value | %s' % u['text'], 'result %s differs from the denotation of the script: %s' % (u['id'], v['why']), u)
    # binding demonstration
    demo = json.loads(json.dumps({k: v for k, v in tlist[0].items() if k not in ('texts', 'corpus', 'clause_scalars')}))
    demo['id'] = 'demo'
    demo['obs'][-1]['digest'] = 'corrupted'
    demo['obs'][-1]['outcome'] = 'ok'
    if validate(chk, [demo])['demo']['ok']:
        raise RuntimeError('binding demonstration failed (C12)')
    chk.notes['binding_demo'] = 'one observation digest corrupted -> rejected'
    chk.notes['groups'] = {'generated_acyclic': len([k for k in pick if groups[k][0]['acyclic']]), 'generated_cyclic': len([k for k in pick if not groups[k][0]['acyclic']]), 'corpus_scripts': got}
    chk.cov['rule'] = ('TLC explores every dependency structure on %d statements (cycles included) x every textual order and checks '
                       'Confluence/Completion of the abstract machine; a seeded sample of scripts is replayed under all their '
                       'permutations through semantic_analysis() and run(); each group of observations is validated by '
                       'VTLOrder_Trace (expected outcome from the specification, agreement across orders); corpus scripts are split '
                       'into statements and permuted. distinct = groups observed under more than one order') % (3 if quick else 4)
