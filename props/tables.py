"""Shared driver of C18 / C19 / C20: the tables TLC enumerates from VTLFormats (GenTables), written in every input form,
observed through run() and validate_dataset()."""
import csv
import datetime
import json
import os
import re
import shutil
import tempfile
from fractions import Fraction

from harness import bulk, engine, k2, tlc, values
from props.c08 import parse_period

FORMS = ['csv', 'df-str', 'df-native', 'parquet']
ROLE = {'I': 'Identifier', 'M': 'Measure', 'A': 'Attribute'}


def model(chk):
    r = tlc.run('GenTables', 'GenTables.cfg', workers=1)
    if r.violated:
        chk.violation('model %s' % r.violated, 'TLC: %s violated in GenTables' % r.violated, r.output[-1500:])
        return []
    tlc.must(r, 'GenTables')
    chk.add('states', r.states)
    chk.add('transitions', r.generated)
    chk.cov['exhaustive'] = True
    return [json.loads(x) for x in r.lines]


def native(cell, t):
    """Python value of a VALID cell for a native-dtype DataFrame column (None = null); raises for others."""
    d = cell['den']
    if d == [0, 0]:
        return None
    if d[0] in (-1, 14):
        raise ValueError('not native')
    if t == 'Integer':
        return int(d[1])
    if t == 'Number':
        return float(Fraction(d[1][0], d[1][1]))
    if t == 'Boolean':
        return bool(d[1])
    return cell['text']


def build(table, form, tmpd):
    """-> (structure dict, datapoints value)"""
    cols = table['cols']
    has = [i for i, h in enumerate(table['has']) if h]
    st = {'name': 'DS_1', 'DataStructure': [{'name': c['n'], 'type': c['t'], 'role': ROLE[c['r']], 'nullable': c['u']} for c in cols]}
    names = [cols[i]['n'] for i in has]
    rows = [[r[i] for i in has] for r in table['rows']]
    if form == 'csv':
        path = os.path.join(tmpd, 'DS_1.csv')
        with open(path, 'w', newline='', encoding='utf-8') as f:
            f.write(','.join(names) + '\n')
            for r in rows:
                out = []
                for c in r:
                    if c['den'] == [0, 0] and c['form'] == 'null':
                        out.append('')
                    else:
                        x = c['text']
                        out.append('"' + x.replace('"', '""') + '"' if any(ch in x for ch in ',"\n') or x == '' or x != x.strip() else x)
                f.write(','.join(out) + '\n')
        return st, path
    import pandas as pd
    if form == 'df-str':
        data = [[None if (c['den'] == [0, 0] and c['form'] == 'null') else c['text'] for c in r] for r in rows]
        return st, pd.DataFrame(data, columns=names, dtype='object')
    # native dtypes where every cell of the column is a valid value, text otherwise
    colvals = {}
    for j, i in enumerate(has):
        t = cols[i]['t']
        try:
            vals = [native(r[j], t) for r in rows]
            if t == 'Integer':
                colvals[names[j]] = pd.array(vals, dtype='Int64')
            elif t == 'Number':
                colvals[names[j]] = pd.array(vals, dtype='Float64')
            elif t == 'Boolean':
                colvals[names[j]] = pd.array(vals, dtype='boolean')
            else:
                colvals[names[j]] = pd.array(vals, dtype='object')
        except ValueError:
            colvals[names[j]] = pd.array([None if (r[j]['den'] == [0, 0] and r[j]['form'] == 'null') else r[j]['text'] for r in rows], dtype='object')
    df = pd.DataFrame(colvals, columns=names)
    if form == 'df-native':
        return st, df
    path = os.path.join(tmpd, 'DS_1.parquet')
    df.to_parquet(path, index=False)
    return st, path


def decode(x, t):
    if values.is_null(x):
        return [0, 0]
    try:
        if t == 'Integer':
            return [1, int(x)] if float(x) == int(float(x)) else [13, str(x)]
        if t == 'Number':
            f = Fraction(repr(float(x))).limit_denominator(100000)
            return [2, [f.numerator, f.denominator]]
        if t == 'Boolean':
            return [3, bool(x)]
        if t == 'String':
            return [4, str(x)]
        if t == 'Date':
            return [5, values.date_pair(x)]
        if t == 'Time_Period':
            y, i, n = parse_period(x)
            return [6, [y, i, n]]
        if t == 'Time':
            s = str(x)
            if '/' in s:
                a, b = s.split('/')
                return [7, [datetime.date.fromisoformat(a[:10]).toordinal(), datetime.date.fromisoformat(b[:10]).toordinal()]]
            if re.match(r'^\d{4}$', s):
                return [7, [datetime.date(int(s), 1, 1).toordinal(), datetime.date(int(s), 12, 31).toordinal()]]
            m = re.match(r'^(\d{4})-(\d{2})$', s)
            if m:
                y, mo = int(m.group(1)), int(m.group(2))
                last = (datetime.date(y + (mo == 12), mo % 12 + 1, 1) - datetime.timedelta(days=1))
                return [7, [datetime.date(y, mo, 1).toordinal(), last.toordinal()]]
        if t == 'Duration':
            return [8, str(x)]
    except Exception:
        pass
    return [13, str(x)]


def observe(arg):
    """Worker: one table in one form -> run outcome (+ values) and validate_dataset outcome."""
    engine.boot()
    from vtlengine import run, validate_dataset
    from vtlengine.Exceptions import DataLoadError, InputValidationException
    table, form = arg['table'], arg['form']
    tmpd = tempfile.mkdtemp(prefix='tab-', dir=engine.sub_dir('tmp'))
    out = {}
    try:
        st, dp = build(table, form, tmpd)

        def cls(e):
            c = k2.classify_exception(e)
            kind = 'reject' if isinstance(e, (DataLoadError, InputValidationException)) else ('raw' if c['err'].startswith('RAW') else 'other-vtl')
            return {'outcome': kind, 'err': c['err'], 'code': c.get('code'), 'msg': c['msg'][:200]}
        try:
            r = run(script='R := DS_1;', data_structures={'datasets': [st]}, datapoints={'DS_1': dp}, return_only_persistent=False)['R']
            tmap = {c['n']: c['t'] for c in table['cols']}
            rows = []
            for rec in r.data.to_dict('records'):
                rows.append({k: decode(v, tmap[k]) for k, v in rec.items()})
            out['run'] = {'outcome': 'accept', 'rows': rows, 'raw_rows': [[None if values.is_null(v) else str(v) for v in rec.values()] for rec in r.data.to_dict('records')][:3]}
        except Exception as e:  # noqa
            out['run'] = cls(e)
        if form != 'parquet':
            try:
                _, dp2 = build(table, form, tmpd)
                validate_dataset(data_structures={'datasets': [st]}, datapoints={'DS_1': dp2})
                out['validate'] = {'outcome': 'accept'}
            except Exception as e:  # noqa
                out['validate'] = cls(e)
    finally:
        shutil.rmtree(tmpd, ignore_errors=True)
    return out


def observe_all(chk, tables, forms=FORMS):
    args = [{'table': t, 'form': f} for t in tables for f in forms]
    obs = k2.pmap('props.tables:observe', args)
    out = {}
    for a, o in zip(args, obs):
        out[(a['table']['id'], a['form'])] = o
    return out


def expected_rows(table):
    """values an accepted table denotes: list of {col: den}; a missing nullable column is null"""
    rows = []
    for r in table['rows']:
        row = {}
        for i, c in enumerate(table['cols']):
            row[c['n']] = r[i]['den'] if table['has'][i] else [0, 0]
        rows.append(row)
    return rows


def same_value(e, g):
    if e[0] == 14:
        return True
    if e[0] == 2 and g[0] in (1, 2):
        gv = Fraction(g[1]) if g[0] == 1 else Fraction(g[1][0], g[1][1])
        return abs(Fraction(e[1][0], e[1][1]) - gv) <= Fraction(1, 10 ** 9)
    return e == g


def rows_match(exp, got):
    if len(exp) != len(got):
        return False, 'row count %d vs %d' % (len(exp), len(got))
    used = set()
    for e in exp:
        hit = None
        for j, g in enumerate(got):
            if j not in used and set(e) == set(g) and all(same_value(e[k], g[k]) for k in e):
                hit = j
                break
        if hit is None:
            return False, 'no returned datapoint denotes %s (returned: %s)' % (e, got[:3])
        used.add(hit)
    return True, ''


def canon_rows(rows):
    return sorted(json.dumps(r, sort_keys=True) for r in rows)
