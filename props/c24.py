"""C24 prettify preserves meaning and is idempotent."""
from props import c01, forms
from harness import b1

LEVEL = 'model_checking'


def main(chk):
    rnd, quick = forms.drive(chk, ['pretty'], 'prettify')
    lu, lo = forms.replay_through(chk, 'prettify', rnd, quick)
    b1.binding_demo(chk, lu, lo, c01.corrupt)
    chk.cov['rule'] = ('VTLScripts specifies prettify by what it preserves: the same items (assignments with name, persistence and abstract syntax; definitions) in the same order, every comment, a '
                       'fixed point of itself, the same results. Every parseable corpus script (thorough: all ~2300, quick: a sample), scripts with numeric literals of every magnitude and '
                       'precision, null literals in every position, reserved-word names, comments in every position, and generated statements of all modelled operator families are observed in '
                       'both forms (items by re-parsing, comments, second prettify, run() on the script\'s data) and each record is validated by TLC (VTLScripts_Trace); random units are run THROUGH '
                       'prettify and validated against the operator semantics (VTLOperators_Trace)')
    chk.assumptions += ['"structurally identical" = equal abstract syntax trees without source positions; results are compared as sets of typed datapoints']
