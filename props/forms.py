"""Shared driver of C24 (prettify) and C25 (generate_sdmx): scripts in three forms, judged by VTLScripts_Trace."""
import json
import os
import random
import re

from harness import b1, corpus, engine, k2, render, termgen, tlc, variants

LITERALS = ['0', '1', '-1', '7', '0.0', '0.5', '-0.5', '1.0', '3.14159265358979', '0.000001', '0.1', '123456789', '1234567890123', '100000000000000000',
            '0.30000000000000004', '2.5e3', '1e-7', '12345.678901234567', '9007199254740993', '1.7976931348623157e308', '5e-324', '00012', '1.50',
            'null', 'true', 'false', '"text"', '""', '" padded "', '"it\'s"', '"a ""quoted"" word"', '"línea ñ 漢"']
RESERVED = ['date', 'time', 'year', 'value', 'count', 'in', 'sum', 'string', 'number', 'level', 'all', 'data', 'component', 'measure', 'result', 'errorcode', 'first', 'last', 'current_date']


def literal_scripts():
    out = []
    st = [{'name': 'DS_1', 'DataStructure': [{'name': 'Id_1', 'type': 'Integer', 'role': 'Identifier', 'nullable': False},
                                             {'name': 'Me_1', 'type': 'Number', 'role': 'Measure', 'nullable': True},
                                             {'name': 'Me_2', 'type': 'String', 'role': 'Measure', 'nullable': True}]}]
    env = {'DS_1': {'comps': [{'n': 'Id_1', 'r': 'I', 't': 'Integer'}, {'n': 'Me_1', 'r': 'M', 't': 'Number'}, {'n': 'Me_2', 'r': 'M', 't': 'String'}],
                    'rows': [{'Id_1': [1, 1], 'Me_1': [2, [3, 2]], 'Me_2': [4, [97]]}, {'Id_1': [1, 2], 'Me_1': [0, 0], 'Me_2': [0, 0]}]}}
    for i, lit in enumerate(LITERALS):
        num = lit[0] in '-0123456789'
        if num:
            texts = ['R := DS_1[calc Me_3 := Me_1 + %s];' % lit, 'R := DS_1#Me_1 * %s;' % lit, 'S := %s; R := DS_1[calc Me_3 := S];' % lit,
                     'R := DS_1[filter Me_1 > %s];' % lit, 'R := DS_1[calc Me_3 := round(Me_1 / 3, 2) + %s, Me_4 := %s];' % (lit, lit)]
        elif lit == 'null':
            texts = ['R := DS_1[calc Me_3 := null];', 'R := DS_1[calc Me_3 := nvl(Me_1, null)];', 'R := DS_1[calc Me_3 := if isnull(Me_1) then null else Me_1];',
                     'R := DS_1[calc Me_3 := Me_1 + null];', 'R := DS_1[filter Me_2 = null];', 'S := null; R := DS_1[calc Me_3 := S];',
                     'R := DS_1[calc Me_3 := Me_1 in {1, null}];', 'R := nvl(DS_1#Me_1, null);', 'R := DS_1[calc Me_3 := between(Me_1, null, 3)];']
        elif lit in ('true', 'false'):
            texts = ['R := DS_1[calc Me_3 := %s];' % lit, 'R := DS_1[calc Me_3 := if %s then Me_1 else 0];' % lit, 'R := DS_1[filter %s];' % lit]
        else:
            texts = ['R := DS_1[calc Me_3 := Me_2 || %s];' % lit, 'R := DS_1[calc Me_3 := %s];' % lit, 'R := DS_1[filter Me_2 <> %s];' % lit]
        for j, t in enumerate(texts):
            out.append({'id': 'lit%d.%d' % (i, j), 'text': t, 'env': env, 'what': 'literal %s' % lit})
    for i, w in enumerate(RESERVED):
        for j, t in enumerate(["R := DS_1[rename Me_1 to '%s'];" % w, "R := DS_1[calc '%s' := Me_1 * 2];" % w, "'%s' := DS_1; R := '%s' + 1;" % (w, w),
                               "R := DS_1[calc '%s' := Me_1][keep '%s'];" % (w, w), "/* %s */ R := DS_1[rename Me_1 to '%s'][filter '%s' > 0]; // %s" % (w, w, w, w)]):
            out.append({'id': 'res%d.%d' % (i, j), 'text': t, 'env': env, 'what': 'reserved word %s' % w})
    # every window shape, written out explicitly (also the ones equal to a default): order keys with ties, so that rows and range differ
    wenv = {'DS_1': {'comps': [{'n': 'Id_1', 'r': 'I', 't': 'Integer'}, {'n': 'Id_2', 'r': 'I', 't': 'Integer'}, {'n': 'Me_1', 'r': 'M', 't': 'Integer'}, {'n': 'Me_2', 'r': 'M', 't': 'Integer'}],
                     'rows': [{'Id_1': [1, 1], 'Id_2': [1, k], 'Me_1': [1, 10 ** (k - 1)], 'Me_2': [1, (k + 1) // 2]} for k in range(1, 5)] +
                             [{'Id_1': [1, 2], 'Id_2': [1, 1], 'Me_1': [1, 7], 'Me_2': [1, 1]}]}}
    bounds_lo = ['unbounded preceding', '1 preceding', 'current data point']
    bounds_hi = ['current data point', '1 following', 'unbounded following']
    w = 0
    for kind in ('data points', 'range'):
        for lo in bounds_lo:
            for hi in bounds_hi:
                for fn in ('sum', 'first_value'):
                    over = 'partition by Id_1 order by Me_2 asc %s between %s and %s' % (kind, lo, hi)
                    out.append({'id': 'win%d' % w, 'text': 'R := DS_1[calc Me_3 := %s(Me_1 over (%s))];' % (fn, over), 'env': wenv, 'what': 'window %s %s..%s' % (kind, lo, hi)})
                    out.append({'id': 'wind%d' % w, 'text': 'R := %s(DS_1 over (%s));' % (fn, over), 'env': wenv, 'what': 'window %s %s..%s' % (kind, lo, hi)})
                    w += 1
    for j, over in enumerate(['partition by Id_1 order by Me_2 asc', 'partition by Id_1 order by Me_2 desc', 'order by Id_1 asc, Id_2 asc', 'partition by Id_1']):
        fn = 'sum' if j < 3 else 'ratio_to_report'
        out.append({'id': 'winx%d' % j, 'text': 'R := DS_1[calc Me_3 := %s(Me_1 over (%s))];' % (fn, over), 'env': wenv, 'what': 'window implicit'})
    comments = ['// only a comment\n', '/* block */ R := DS_1; /* tail */', 'R := /* inside */ DS_1 + /* two */ 1; // end\n// next line\nS := R;',
                '/* multi\n   line */\nR := DS_1[calc Me_3 := 1 /* in clause */];', '// a\n// b\nR := DS_1;\n// c', 'R := DS_1; /* x */ /* y */ S := DS_1;',
                '/**/ R := DS_1;', '// "quoted" and := inside comment\nR := DS_1;']
    for i, t in enumerate(comments):
        out.append({'id': 'com%d' % i, 'text': t, 'env': env, 'what': 'comments'})
    return out


def generated_scripts(rnd, n):
    out = []
    us = variants.mixed_units(rnd, n) + termgen.random_join_units(rnd, n // 5) + termgen.random_analytic_units(rnd, n // 6) + termgen.random_validation_units(rnd, n // 5)
    for u in us:
        try:
            text = render.statement('R', u['term'], persistent=rnd.random() < 0.3)
        except Exception:
            continue
        out.append({'id': 'gen.' + u['id'], 'text': text, 'env': u['env'], 'what': termgen.shape(u['term'])})
    return out


def strip_aux(r):
    r = dict(r)
    for f in ('orig', 'pretty'):
        if f in r:
            r[f] = [{k: v for k, v in it.items() if k not in ('unordered', 'nocond')} for it in r[f]]
    if 'scheme' in r:
        r['scheme'] = dict(r['scheme'], definitions=[{k: v for k, v in it.items() if k not in ('unordered', 'nocond')} for it in r['scheme']['definitions']])
    return r


def unorder(items):
    return [dict(it, body=it.get('unordered', it['body'])) for it in items]


def validate(chk, recs):
    path = os.path.join(engine.sub_dir('traces'), 'forms-%d-%d.json' % (os.getpid(), random.randrange(10 ** 6)))
    keep = [strip_aux({k: v for k, v in r.items() if k not in ('text', 'what', 'fail', 'skip')}) for r in recs]
    json.dump(keep, open(path, 'w'))
    r = tlc.run('VTLScripts_Trace', 'VTLScripts_Trace.cfg', env={'TRACE_FILE': path}, workers=16, timeout=3000)
    os.unlink(path)
    tlc.must(r, 'VTLScripts_Trace')
    chk.add('states', r.states)
    chk.add('transitions', r.generated)
    v = {}
    for line in r.lines:
        x = json.loads(line)
        v[x['id']] = x
    return [v[r['id']] for r in recs]


def drive(chk, which, label):
    rnd = random.Random(chk.seed)
    quick = chk.tier == 'quick'
    cases = corpus.discover()
    if quick:
        cases = rnd.sample(cases, min(len(cases), 260))
    args = [{'id': 'corpus.%s' % c['id'], 'case': c, 'which': which + ['run'], 'what': 'corpus'} for c in cases]
    for s in literal_scripts() + generated_scripts(rnd, 150 if quick else 2500):
        args.append({'id': s['id'], 'text': s['text'], 'env': s['env'], 'which': which + ['run'], 'what': s['what']})
    obs = k2.pmap('harness.textforms:observe', args)
    recs, meta = [], {}
    for a, o in zip(args, obs):
        chk.add('evaluations')
        if 'skip' in o:
            chk.add('not_parseable')
            continue
        if 'fail' in o:
            chk.violation('%s | %s' % (o['fail'].split(':')[0] + ' raised', a['what'] if a['what'] != 'corpus' else 'corpus'), '%s on a script that parses: %s' % (o['fail'], (o.get('text') or a.get('text') or str(a.get('case')))[:300]),
                          {'id': a['id'], 'text': o.get('text') or a.get('text')})
            continue
        recs.append(o)
        meta[o['id']] = a
    verdicts = validate(chk, recs)
    distinct = set()
    for r, v in zip(recs, verdicts):
        a = meta[r['id']]
        if v['ok']:
            chk.add('traces_validated_against_impl')
            distinct.add(r.get('text1') or json.dumps(r['orig']))
            if len(chk.cov['samples']) < 4:
                chk.sample({'script': r.get('text', '')[:200], 'items': len(r['orig'])})
        else:
            where = a['what'] if not a['id'].startswith('corpus') else a['id']
            why = v['why']
            # name what differs when it is only the order of the rules inside a hierarchical ruleset
            other = r.get('pretty') if 'statements' in why else None
            if other is not None and len(other) == len(r['orig']) and all(
                    x == y or (x.get('unordered') and x.get('unordered') == y.get('unordered') and x['name'] == y['name']) for x, y in zip(unorder(r['orig']), unorder(other))):
                why += ' (only the order of the rules of a hierarchical ruleset)'
                where = a['what'] if not a['id'].startswith('corpus') else 'corpus'
            # ... or only the conditions attached to code items of hierarchical rules (A = B [cond] + C)
            cmp_to = r.get('pretty') if 'statements' in why else ([x for x in r['orig'] if x['kind'] == 'assign'] + [dict(x, kind='define') for x in r['scheme']['definitions']] if 'does not match' in why else None)
            if cmp_to is not None and 'only the order' not in why:
                a0 = sorted((x['kind'], x['name'], x.get('nocond', x['body'])) for x in r['orig'])
                a1 = sorted((x['kind'], x['name'], x.get('nocond', x['body'])) for x in cmp_to)
                if a0 == a1 and any('nocond' in x for x in r['orig']):
                    why += ' (only the conditions on code items of hierarchical rules are lost)'
                    where = a['what'] if not a['id'].startswith('corpus') else 'corpus'
            if ('statements' in why or 'does not match' in why or 'evaluates differently' in why) and re.search(r'(inner|left|full|cross)_join\s*\([^;]*\baggr\b', r.get('text') or ''):
                where = 'aggr clause inside a join'
            if 'TransformationScheme' in why and any(it.get('what') == 'viral' for it in r['orig']):
                where = 'viral propagation definitions'
            elif 'does not match' in why:
                d0 = [it for it in unorder(r['orig']) if it['kind'] == 'define']
                d1 = unorder([dict(x, kind='define') for x in r['scheme']['definitions']])
                key0 = sorted((x['what'], x['name'], x['body']) for x in d0)
                key1 = sorted((x['what'], x['name'], x['body']) for x in d1)
                exact0 = sorted((x['what'], x['name'], x['body']) for x in r['orig'] if x['kind'] == 'define')
                exact1 = sorted((x['what'], x['name'], x['body']) for x in r['scheme']['definitions'])
                if key0 == key1 and exact0 != exact1:
                    why += ' (only the order of the rules of a hierarchical ruleset)'
                    where = a['what'] if not a['id'].startswith('corpus') else 'corpus'
            chk.violation('%s | %s' % (why, where), '%s: %s' % (why, r.get('text', '')[:400]), {'id': a['id'], 'text': r.get('text')})
    chk.add('distinct_nontrivial', len(distinct))
    chk.notes['sources'] = {'corpus_scripts': len(cases), 'literal_reserved_comment_scripts': len(literal_scripts()), 'generated': len(args) - len(cases) - len(literal_scripts())}
    return rnd, quick


def replay_through(chk, via, rnd, quick):
    """B1/B2 through the form: random units whose statement is first prettified / turned into a TransformationScheme, validated by the operator spec"""
    us = variants.mixed_units(rnd, 120 if quick else 1500)
    # only units the engine gets right as they are written are judged through the form (other failures belong to C01-C08)
    from harness import report
    side = report.Check(chk.pid, chk.tier, chk.seed, 'model_checking')
    bu, _, bv = b1.validate(side, us, lambda u: '', pack=20)
    good = {u['id'] for u, v in zip(bu, bv) if v['ok']}
    us = [dict(u) for u in us if u['id'] in good]
    for u in us:
        u['via'] = via
        u['nopack'] = True
    lu, lo, _ = b1.validate(chk, us, lambda u: 'via %s | %s' % (via, termgen.shape(u['term'])), pack=1)
    return lu, lo
