"""C08 Time operators follow the real calendar."""
import datetime
import json
import os
import random
import re

from harness import bulk, engine, k2, tlc

LEVEL = 'model_checking'
INDS = ['A', 'S', 'Q', 'M', 'W', 'D']
BOUNDARY_YEARS = [1900, 1999, 2000, 2004, 2015, 2016, 2019, 2020, 2021, 2024, 2026, 2032, 2100]
PRX = re.compile(r'^(\d{1,4})(?:-?([ASQMWD])(\d{1,3}))?$')


def parse_period(s):
    """engine 'vtl' representation -> (year, ind, n)"""
    if s is None:
        return None
    m = PRX.match(str(s).strip())
    if not m:
        return ('?', str(s), 0)
    y, i, n = m.groups()
    return (int(y), i or 'A', int(n) if n else 1)


def fmt_period(y, i, n):
    return '%04d' % y if i == 'A' else '%04d%s%d' % (y, i, n)


def calendar_model(chk, years, shifts, amounts, days=True):
    path = os.path.join(engine.sub_dir('traces'), 'cal-%d.json' % os.getpid())
    json.dump({'years': years, 'shifts': shifts, 'amounts': amounts, 'days': days, 'chunk': 1 if len(years) <= 64 else 4}, open(path, 'w'))
    r = tlc.run('GenCalendar', 'GenCalendar.cfg', env={'CAL_FILE': path}, workers=14, timeout=7000)
    if r.violated:
        chk.violation('model %s' % r.violated, 'TLC: calendar theorem violated (%s)' % r.violated, r.output[-2000:])
        return None
    tlc.must(r, 'GenCalendar')
    chk.add('states', r.states)
    chk.add('transitions', r.generated)
    T = {'year': {}, 'span': {}, 'shift': {}, 'agg': {}, 'days': {}, 'pod': {}, 'dateadd': {}, 'dur': {}}
    for line in r.lines:
        x = json.loads(line)
        k = x['k']
        if k == 'year':
            T['year'][x['y']] = x
            if not x['ok']:
                chk.violation('model year %d' % x['y'], 'calendar theorem fails for %d' % x['y'], x)
        elif k == 'span':
            T['span'][(x['i'], x['y'])] = x['r']
        elif k == 'shift':
            T['shift'][(x['i'], x['y'], x['s'])] = x['r']
        elif k == 'agg':
            T['agg'][(x['i'], x['y'], x['t'])] = x['r']
        elif k == 'days':
            T['days'][x['y']] = x['r']
        elif k == 'pod':
            T['pod'][(x['y'], x['t'])] = x['r']
        elif k == 'dateadd':
            T['dateadd'][(x['y'], x['u'], x['n'])] = x['r']
        elif k == 'dur':
            T['dur'][x['y']] = x['r']
    return T


def selfcheck_calendar(chk, T):
    """Two independent implementations of the Gregorian calendar: the TLA+ module and Python's datetime."""
    n = 0
    for y, rows in T['days'].items():
        jan1 = T['year'][y]['jan1']
        if jan1 != datetime.date(y, 1, 1).toordinal():
            raise RuntimeError('spec self-check: ordinal of %d-01-01' % y)
        for d, (m, dom, wd, isoy, isow) in enumerate(rows, start=1):
            dt = datetime.date.fromordinal(jan1 + d - 1)
            iso = dt.isocalendar()
            if (m, dom, wd, isoy, isow) != (dt.month, dt.day, iso[2], iso[0], iso[1]):
                raise RuntimeError('spec self-check: VTLCalendar disagrees with datetime on %s' % dt)
            n += 1
    chk.notes['calendar_selfcheck_days'] = n


def main(chk):
    rnd = random.Random(chk.seed)
    quick = chk.tier == 'quick'
    years = sorted(set(BOUNDARY_YEARS + [rnd.randrange(1901, 2100) for _ in range(3)])) if quick else list(range(1900, 2101))
    shifts = list(range(-60, 61))
    amounts = [-13, -12, -1, 0, 1, 2, 11, 12, 13, 25]
    T = calendar_model(chk, years, shifts, amounts)
    if T is None:
        return
    chk.cov['exhaustive'] = not quick
    selfcheck_calendar(chk, T)
    distinct = set()

    # ---- timeshift over every period of every indicator -------------------------------------------------
    rows, meta = [], []
    for y in years:
        for i in INDS:
            for n in range(1, len(T['span'][(i, y)]) + 1):
                rows.append([fmt_period(y, i, n), len(rows), 1])
                meta.append((y, i, n))
    st = bulk.struct('DS_1', [('Id_1', 'Time_Period', 'I'), ('Id_2', 'Integer', 'I'), ('Me_1', 'Integer', 'M')])
    use_shifts = shifts if not quick else sorted(set([-60, -53, -52, -13, -12, -5, -2, -1, 0, 1, 2, 4, 7, 12, 13, 52, 53, 60] + rnd.sample(shifts, 6)))
    args = []
    for a in range(0, len(use_shifts), 6):
        ks = use_shifts[a:a + 6]
        args.append({'script': '\n'.join('R_%d := timeshift(DS_1, %d);' % (j, k) for j, k in enumerate(ks)), 'structures': [st],
                     'tables': {'DS_1': {'cols': ['Id_1', 'Id_2', 'Me_1'], 'rows': rows}}, 'ks': ks})
    for arg, res in zip(args, k2.pmap('harness.bulk:run_tables', args, 8)):
        if 'err' in res:
            chk.violation('timeshift error | shifts %s' % arg['ks'], 'timeshift over all periods raised %s %s' % (res['err'], res['msg']), res)
            continue
        for j, k in enumerate(arg['ks']):
            t = res['results']['R_%d' % j]
            ci, cj = t['cols'].index('Id_1'), t['cols'].index('Id_2')
            got = {r[cj]: parse_period(r[ci]) for r in t['rows']}
            bad = None
            nbad = 0
            for idx, (y, i, n) in enumerate(meta):
                ey, en = T['shift'][(i, y, k)][n - 1]
                chk.add('evaluations')
                if got.get(idx) != (ey, i, en):
                    nbad += 1
                    if bad is None or i in ('W', 'D') and bad[1] not in ('W', 'D'):
                        bad = (y, i, n, (ey, i, en), got.get(idx))
            if len(got) != len(meta):
                chk.violation('timeshift rows | shift %d' % k, 'timeshift(DS, %d): %d datapoints in, %d distinct out' % (k, len(meta), len(got)), {'k': k})
            if bad:
                y, i, n, e, g = bad
                chk.violation('timeshift %s | shift %+d' % (i if i in ('W', 'D') else 'ASQM', k),
                              'timeshift(%s, %d): expected %s, engine %s (%d of %d periods wrong)' % (fmt_period(y, i, n), k, fmt_period(*e), g, nbad, len(meta)),
                              {'period': fmt_period(y, i, n), 'shift': k, 'expected': fmt_period(*e), 'observed': g})
            else:
                chk.add('traces_validated_against_impl', len(meta))
                distinct.add(('shift', k))
    chk.sample({'timeshift': '%d periods x %d shifts' % (len(meta), len(use_shifts)), 'example': [fmt_period(2020, 'W', 52), '+1', fmt_period(*(lambda r: (r[0], 'W', r[1]))(T['shift'][('W', 2020, 1)][51])) if 2020 in years else '']})

    # ---- time_agg, period_indicator, getyear ... on periods (component level, one indicator per dataset) ----
    args, ameta = [], []
    for i in INDS:
        prow, pm = [], []
        for y in years:
            for n in range(1, len(T['span'][(i, y)]) + 1):
                prow.append([len(prow), fmt_period(y, i, n)])
                pm.append((y, n))
        stp = bulk.struct('DS_P', [('Id_1', 'Integer', 'I'), ('Me_1', 'Time_Period', 'M')])
        for t in INDS:
            args.append({'script': 'R := DS_P[calc x := time_agg("%s", Me_1)];' % t, 'structures': [stp], 'tables': {'DS_P': {'cols': ['Id_1', 'Me_1'], 'rows': prow}}})
            ameta.append(('agg', i, t, pm))
        args.append({'script': 'R := DS_P[calc x := period_indicator(Me_1), yy := getyear(Me_1), dd := dayofyear(Me_1), mm := getmonth(Me_1), dm := dayofmonth(Me_1)];', 'structures': [stp],
                     'tables': {'DS_P': {'cols': ['Id_1', 'Me_1'], 'rows': prow}}})
        ameta.append(('fields', i, None, pm))
    for (kind, i, t, pm), res in zip(ameta, k2.pmap('harness.bulk:run_tables', args, 8)):
        if kind == 'agg':
            exp = [T['agg'][(i, y, t)][n - 1] for (y, n) in pm]
            chk.add('evaluations', len(pm))
            if exp[0][1] == 'error':
                if 'err' not in res:
                    chk.violation('time_agg finer | %s -> %s' % (i, t), 'time_agg("%s") of %s periods must be a VTL error (target finer than the period), engine returned values' % (t, i), {})
                elif res['err'].startswith('RAW'):
                    chk.violation('time_agg raw | %s -> %s' % (i, t), 'raw error %s %s' % (res['err'], res['msg']), res)
                else:
                    chk.add('traces_validated_against_impl', len(pm))
                continue
            if all(e[1] == 'undetermined' for e in exp):
                chk.add('undetermined_not_judged', len(pm))
                continue
            if 'err' in res:
                chk.violation('time_agg error | %s -> %s' % (i, t), 'time_agg("%s") of %s periods raised %s %s' % (t, i, res['err'], res['msg']), res)
                continue
            tb = res['results']['R']
            ci, cx = tb['cols'].index('Id_1'), tb['cols'].index('x')
            got = {r[ci]: parse_period(r[cx]) for r in tb['rows']}
            und = sum(1 for e in exp if e[1] == 'undetermined')
            chk.add('undetermined_not_judged', und)
            bad = [(pm[idx], tuple(exp[idx]), got.get(idx)) for idx in range(len(pm))
                   if exp[idx][1] != 'undetermined' and got.get(idx) != (exp[idx][0], exp[idx][1], exp[idx][2])]
            if bad:
                (y, n), e, g = bad[0]
                chk.violation('time_agg value | %s -> %s' % (i, t), 'time_agg("%s", %s): expected %s, engine %s (%d wrong)' % (t, fmt_period(y, i, n), fmt_period(*e), g, len(bad)), {})
            else:
                chk.add('traces_validated_against_impl', len(pm))
                distinct.add(('agg', i, t))
        else:
            chk.add('evaluations', len(pm))
            if 'err' in res:
                chk.violation('period fields error | %s' % i, 'period_indicator/getyear/... over %s periods raised %s %s' % (i, res['err'], res['msg']), res)
                continue
            tb = res['results']['R']
            c = {n: tb['cols'].index(n) for n in ('Id_1', 'x', 'yy', 'dd', 'mm', 'dm')}
            bad = None
            for r in tb['rows']:
                y, n = pm[r[c['Id_1']]]
                want = {'x': i, 'yy': y}
                if i == 'D':        # a day period is a date: all four fields are determined
                    m, dom = T['days'][y][n - 1][0], T['days'][y][n - 1][1]
                    want.update({'dd': n, 'mm': m, 'dm': dom})
                for f, w in want.items():
                    if r[c[f]] != w and bad is None:
                        bad = (fmt_period(y, i, n), f, w, r[c[f]])
            if bad:
                chk.violation('period field %s | %s' % (bad[1], i), '%s of %s: expected %s, engine %s' % ({'x': 'period_indicator', 'yy': 'getyear', 'dd': 'dayofyear', 'mm': 'getmonth', 'dm': 'dayofmonth'}[bad[1]], bad[0], bad[2], bad[3]), {})
            else:
                chk.add('traces_validated_against_impl', len(pm))
                distinct.add(('fields', i))

    # ---- date functions over every day of every requested year ------------------------------------------------
    drows, dmeta = [], []
    for y in years:
        jan1 = T['year'][y]['jan1']
        for d in range(1, len(T['days'][y]) + 1):
            drows.append([len(drows), datetime.date.fromordinal(jan1 + d - 1).isoformat()])
            dmeta.append((y, d))
    std = bulk.struct('DS_D', [('Id_1', 'Integer', 'I'), ('Me_1', 'Date', 'M')])
    script = 'R := DS_D[calc yy := getyear(Me_1), mm := getmonth(Me_1), dm := dayofmonth(Me_1), dd := dayofyear(Me_1)' + \
        ''.join(', p%s := time_agg("%s", Me_1, first), q%s := time_agg("%s", Me_1, last)' % (t, t, t, t) for t in 'ASQMW') + \
        ', tp := cast(Me_1, time_period)];'
    res = bulk.run_tables({'script': script, 'structures': [std], 'tables': {'DS_D': {'cols': ['Id_1', 'Me_1'], 'rows': drows}}})
    chk.add('evaluations', len(drows))
    if 'err' in res:
        # fall back to the four field functions only (time_agg on dates may not be supported in this form)
        chk.notes['date_time_agg'] = 'not exercised: %s %s' % (res['err'], res['msg'][:200])
        script = 'R := DS_D[calc yy := getyear(Me_1), mm := getmonth(Me_1), dm := dayofmonth(Me_1), dd := dayofyear(Me_1), tp := cast(Me_1, time_period)];'
        res = bulk.run_tables({'script': script, 'structures': [std], 'tables': {'DS_D': {'cols': ['Id_1', 'Me_1'], 'rows': drows}}})
    if 'err' in res:
        chk.violation('date fields error', 'getyear/getmonth/dayofmonth/dayofyear over all days raised %s %s' % (res['err'], res['msg']), res)
    else:
        tb = res['results']['R']
        c = {n: k for k, n in enumerate(tb['cols'])}
        bad = {}
        for r in tb['rows']:
            y, d = dmeta[r[c['Id_1']]]
            m, dom, wd, isoy, isow = T['days'][y][d - 1]
            want = {'yy': y, 'mm': m, 'dm': dom, 'dd': d, 'tp': (y, 'D', d)}
            for t in 'ASQMW':
                if 'p' + t in c:
                    py, pn = T['pod'][(y, t)][d - 1]
                    if (t, py) in T['span']:
                        s, e = T['span'][(t, py)][pn - 1]
                        want['p' + t] = datetime.date.fromordinal(s).isoformat()
                        want['q' + t] = datetime.date.fromordinal(e).isoformat()
            for f, w in want.items():
                g = r[c[f]]
                g = parse_period(g) if f == 'tp' else (str(g)[:10] if f[0] in 'pq' else g)
                if g != w:
                    bad.setdefault(f, (r[c['Me_1']], w, g))
        names = {'yy': 'getyear', 'mm': 'getmonth', 'dm': 'dayofmonth', 'dd': 'dayofyear', 'tp': 'cast(date, time_period)'}
        for f, (dt, w, g) in bad.items():
            nm = names.get(f, 'time_agg("%s", date, %s)' % (f[1], 'first' if f[0] == 'p' else 'last'))
            chk.violation('date %s' % nm, '%s of %s: expected %s, engine %s' % (nm, dt, w, g), {})
        if not bad:
            chk.add('traces_validated_against_impl', len(drows))
            distinct.add(('datefields',))
        chk.sample({'date fields': '%d days' % len(drows), 'example': drows[59] if len(drows) > 59 else drows[0]})

    # ---- dateadd / datediff on boundary days ------------------------------------------------------------------
    brow, bmeta = [], []
    for (y, u, n), pairs in sorted(T['dateadd'].items()):
        if u == 'A' and n == amounts[0]:
            for o_in, _ in pairs:
                brow.append([len(brow), datetime.date.fromordinal(o_in).isoformat(), datetime.date.fromordinal(o_in - 400 + (len(brow) * 37) % 800).isoformat()])
                bmeta.append((y, o_in, o_in - 400 + ((len(brow) - 1) * 37) % 800))
    stb = bulk.struct('DS_B', [('Id_1', 'Integer', 'I'), ('Me_1', 'Date', 'M'), ('Me_2', 'Date', 'M')])
    cols = []
    for u in INDS:
        for n in amounts:
            cols.append(('a_%s_%d' % (u, n + 100), 'dateadd(Me_1, %d, "%s")' % (n, u), u, n))
    script = 'R := DS_B[calc dd := datediff(Me_1, Me_2), ' + ', '.join('%s := %s' % (a, e) for a, e, _, _ in cols) + '];'
    res = bulk.run_tables({'script': script, 'structures': [stb], 'tables': {'DS_B': {'cols': ['Id_1', 'Me_1', 'Me_2'], 'rows': brow}}})
    chk.add('evaluations', len(brow) * (len(cols) + 1))
    if 'err' in res:
        chk.violation('dateadd error', 'dateadd/datediff over boundary days raised %s %s' % (res['err'], res['msg']), res)
    else:
        tb = res['results']['R']
        c = {n: k for k, n in enumerate(tb['cols'])}
        lookup = {}
        for (y, u, n), pairs in T['dateadd'].items():
            for o_in, o_out in pairs:
                lookup[(o_in, u, n)] = o_out
        bad = {}
        for r in tb['rows']:
            y, o1, o2 = bmeta[r[c['Id_1']]]
            if r[c['dd']] != abs(o1 - o2):
                bad.setdefault('datediff', (r[c['Me_1']], r[c['Me_2']], abs(o1 - o2), r[c['dd']]))
            for a, e, u, n in cols:
                w = datetime.date.fromordinal(lookup[(o1, u, n)]).isoformat()
                if str(r[c[a]])[:10] != w:
                    bad.setdefault('dateadd %s' % u, (r[c['Me_1']], '%+d %s' % (n, u), w, r[c[a]]))
        for k, v in bad.items():
            chk.violation('%s' % k, '%s: %s %s expected %s, engine %s' % (k, v[0], v[1], v[2], v[3]), {})
        if not bad:
            chk.add('traces_validated_against_impl', len(brow) * (len(cols) + 1))
            distinct.add(('dateadd',))

    # ---- duration conversions (growth beyond the listed operators): daytoyear / daytomonth / yeartoday / monthtoday ----
    urow = []
    for y in sorted(T['dur']):
        for n, yy, yd, mm, md in T['dur'][y]:
            urow.append([n, 'P%dY%dD' % (yy, yd), 'P%dM%dD' % (mm, md)])
    if urow:
        stu = bulk.struct('DS_U', [('Id_1', 'Integer', 'I'), ('Me_2', 'String', 'M'), ('Me_3', 'String', 'M')])
        script = 'R := DS_U[calc a := daytoyear(Id_1), b := daytomonth(Id_1), c := yeartoday(Me_2), d := monthtoday(Me_3)];'
        res = bulk.run_tables({'script': script, 'structures': [stu], 'tables': {'DS_U': {'cols': ['Id_1', 'Me_2', 'Me_3'], 'rows': urow}}})
        chk.add('evaluations', len(urow) * 4)
        if 'err' in res:
            chk.violation('duration conversion error', 'daytoyear/daytomonth/yeartoday/monthtoday raised %s %s' % (res['err'], res['msg']), res)
        else:
            tb = res['results']['R']
            c = {n: k for k, n in enumerate(tb['cols'])}
            bad = {}
            for r in tb['rows']:
                n = r[c['Id_1']]
                for col, opn, want in (('a', 'daytoyear', r[c['Me_2']]), ('b', 'daytomonth', r[c['Me_3']]), ('c', 'yeartoday', n), ('d', 'monthtoday', n)):
                    if r[c[col]] != want:
                        bad.setdefault(opn, (r[c['Me_2']] if col == 'c' else r[c['Me_3']] if col == 'd' else n, want, r[c[col]]))
            for k, v in bad.items():
                chk.violation('duration %s' % k, '%s(%s): expected %s, engine %s' % (k, v[0], v[1], v[2]), {})
            if not bad:
                chk.add('traces_validated_against_impl', len(urow) * 4)
                distinct.add(('duration',))
            chk.sample({'duration conversions': '%d day counts (%d..%d)' % (len(urow), urow[0][0], urow[-1][0]), 'example': urow[min(400, len(urow) - 1)]})

    # ---- time series with gaps: timeshift / fill_time_series / flow_to_stock / stock_to_flow (trace validation) ----
    series_check(chk, rnd, 40 if quick else 400, T, years, distinct)
    chk.add('distinct_nontrivial', len(distinct))
    chk.notes['years'] = '%d..%d (%d years)' % (years[0], years[-1], len(years))
    chk.cov['rule'] = ('TLC evaluates VTLCalendar for the requested years (quick: boundary years - leap, 53-week, century - plus seeded ones; thorough: every year 1900-2100), '
                       'checks W53 <=> 53 ISO weeks, D366 <=> leap, shift round trip for every period and shift in -60..60, and emits the expected tables; the engine is run in bulk: '
                       'timeshift over ALL periods of all indicators for each shift, time_agg for every (source, target) indicator pair, period_indicator/getyear/... on periods, '
                       'the date field functions, cast(date, time_period) and time_agg(first/last) on EVERY day, dateadd (6 units x 10 amounts) and datediff on month-boundary days, daytoyear / daytomonth / yeartoday / monthtoday on 60 day counts per year (thorough: every count in 0..12059, TLC checks the round trip); '
                       'generated series with gaps are validated by VTLTimeSeries_Trace. VTLCalendar is itself checked against Python datetime on every day. '
                       'distinct = distinct (operator, shift / indicator pair) groups fully agreed')
    chk.assumptions += ['time_agg of week periods to S/Q/M and getmonth/dayofmonth/dayofyear of non-daily periods are not determined by VTL and not judged',
                        'series values are small integers without nulls (flow_to_stock/stock_to_flow null handling is not judged)']


def series_check(chk, rnd, n, T, years, distinct):
    units, args = [], []
    ys = [y for y in years if y + 2 in T['year'] or True]
    for u in range(n):
        i = rnd.choice(INDS)
        y0 = rnd.choice([y for y in years if 1901 <= y <= 2098])
        op = rnd.choice(['timeshift', 'fill_single', 'fill_all', 'flow_to_stock', 'stock_to_flow'])
        k = rnd.choice([-13, -5, -1, 1, 2, 7, 13, 53]) if op == 'timeshift' else 0
        rows, seen = [], set()
        for g in rnd.sample(['a', 'b', 'c'], rnd.choice([1, 2, 3])):
            per = {'A': 1, 'S': 2, 'Q': 4, 'M': 12, 'W': T['year'][y0]['weeks'], 'D': 366 if T['year'][y0]['leap'] else 365}[i]
            start = rnd.randrange(max(1, per - 4), per + 1) if i != 'A' else 1
            pts = sorted(rnd.sample(range(0, 9), rnd.choice([1, 2, 4, 5])))
            for off in pts:
                yy, nn = y0, start + off
                while True:
                    py = {'A': 1, 'S': 2, 'Q': 4, 'M': 12}.get(i) or (T['year'][yy]['weeks'] if i == 'W' and yy in T['year'] else None) or ((366 if T['year'][yy]['leap'] else 365) if i == 'D' and yy in T['year'] else None)
                    if py is None:
                        break
                    if nn <= py:
                        break
                    nn -= py
                    yy += 1
                if py is None:
                    continue
                rows.append({'g': g, 'p': [yy, i, nn], 'v': [1, rnd.randrange(-5, 20)]})
        if not rows:
            continue
        units.append({'id': 's%d' % u, 'op': op, 'k': k, 'rows': rows})
        st = bulk.struct('DS_1', [('Id_1', 'String', 'I'), ('Id_2', 'Time_Period', 'I'), ('Me_1', 'Integer', 'M')])
        text = {'timeshift': 'timeshift(DS_1, %d)' % k, 'fill_single': 'fill_time_series(DS_1, single)', 'fill_all': 'fill_time_series(DS_1, all)',
                'flow_to_stock': 'flow_to_stock(DS_1)', 'stock_to_flow': 'stock_to_flow(DS_1)'}[op]
        trows = [[r['g'], fmt_period(*r['p']), r['v'][1]] for r in rows]
        rnd.shuffle(trows)
        args.append({'script': 'R := %s;' % text, 'structures': [st], 'tables': {'DS_1': {'cols': ['Id_1', 'Id_2', 'Me_1'], 'rows': trows}}})
    obs = k2.pmap('harness.bulk:run_tables', args)
    live = []
    for u, a, o in zip(units, args, obs):
        chk.add('evaluations')
        if 'err' in o:
            chk.violation('series %s error | %s' % (u['op'], u['rows'][0]['p'][1]), '%s raised %s %s' % (a['script'], o['err'], o['msg']), {'script': a['script'], 'rows': a['tables']['DS_1']['rows']})
            continue
        tb = o['results']['R']
        c = {n: k for k, n in enumerate(tb['cols'])}
        u['obs'] = []
        for r in tb['rows']:
            p = parse_period(r[c['Id_2']])
            v = r[c['Me_1']]
            u['obs'].append({'g': r[c['Id_1']], 'p': [p[0], p[1], p[2]], 'v': [0, 0] if v is None else [1, int(v)]})
        u['script'] = a['script']
        live.append(u)
    if not live:
        return
    path = os.path.join(engine.sub_dir('traces'), 'series-%d.json' % os.getpid())
    json.dump([{k: v for k, v in u.items() if k != 'script'} for u in live], open(path, 'w'))
    r = tlc.must(tlc.run('VTLTimeSeries_Trace', 'VTLTimeSeries_Trace.cfg', env={'TRACE_FILE': path}, workers=12), 'VTLTimeSeries_Trace')
    chk.add('states', r.states)
    chk.add('transitions', r.generated)
    verd = {json.loads(x)['id']: json.loads(x) for x in r.lines}
    for u in live:
        v = verd[u['id']]
        chk.add('traces_validated_against_impl')
        if not v['ok']:
            chk.violation('series %s | %s' % (u['op'], u['rows'][0]['p'][1]), '%s: engine result differs from VTLTimeSeries!Apply' % u['script'],
                          {'script': u['script'], 'input': u['rows'], 'observed': u['obs'], 'expected': v.get('exp')})
        else:
            distinct.add(('series', u['op'], u['rows'][0]['p'][1]))
    chk.sample({'series': live[0]['script'], 'input': live[0]['rows'][:4]})
    # binding demonstration
    demo = json.loads(json.dumps({k: v for k, v in live[0].items() if k != 'script'}))
    demo['id'] = 'demo'
    demo['obs'][0]['v'] = [1, 9999]
    json.dump([demo], open(path, 'w'))
    r = tlc.must(tlc.run('VTLTimeSeries_Trace', 'VTLTimeSeries_Trace.cfg', env={'TRACE_FILE': path}, workers=1), 'demo')
    if json.loads(r.lines[0])['ok']:
        raise RuntimeError('binding demonstration failed (C08)')
    chk.notes['binding_demo'] = 'a corrupted measure in a recorded series result is rejected by VTLTimeSeries_Trace'
