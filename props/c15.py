"""C15 Results are deterministic and independent of engine configuration."""
import itertools
import json
import random

from harness import b1, corpus, k2, termgen, variants
from props import c05, c12

LEVEL = 'model_checking'


def configs(quick):
    if quick:
        grid = [('1', '1', None), ('4', '0', '64MB'), ('16', '1', None)]
    else:
        grid = list(itertools.product(['1', '2', '4', '16'], ['1', '0'], [None, '64MB']))
    out = []
    for th, mem, lim in grid:
        e = {'VTL_THREADS': th, 'VTL_USE_IN_MEMORY_DB': mem}
        if lim:
            e['VTL_MEMORY_LIMIT'] = lim
        out.append(e)
    return out


def cfg_label(e):
    return 'threads=%s inmem=%s limit=%s' % (e['VTL_THREADS'], e['VTL_USE_IN_MEMORY_DB'], e.get('VTL_MEMORY_LIMIT', 'default'))


def keyfn(u):
    return 'config %s | %s' % (cfg_label(u.get('osenv', {'VTL_THREADS': '?', 'VTL_USE_IN_MEMORY_DB': '?'})), termgen.shape(u['term']))


def main(chk):
    rnd = random.Random(chk.seed)
    quick = chk.tier == 'quick'
    cfgs = configs(quick)
    # (a) small random units under every configuration, repeated
    base = variants.mixed_units(rnd, 60 if quick else 400)
    units = []
    for u in base:
        for ci, e in enumerate(cfgs):
            for rep in range(1 if quick else 2):
                v = dict(u)
                v.update({'id': '%s.c%d.%d' % (u['id'], ci, rep), 'osenv': e, 'base': u['id']})
                units.append(v)
    lu, lo, _ = b1.validate(chk, units, keyfn, pack=20, raw_is_violation=False, group='base')
    # (b) large inputs: block replication (row-wise operators, clauses, set operators), judged per block by the spec
    small = termgen.random_units(rnd, 40) + termgen.random_chain_units(rnd, 20) + c05.random_units(rnd, 20)
    small = [u for u in small if 2 <= max([len(x['rows']) for x in u['env'].values() if 'rows' in x] or [0]) <= 20
             and all('rows' in x for x in u['env'].values())]
    rnd.shuffle(small)
    small = small[:(4 if quick else 24)]
    target = 100000 if quick else 1000000
    rep_units, rep_meta = [], []
    for i, u in enumerate(small):
        rows = max(len(x['rows']) for x in u['env'].values())
        blocks = max(2, target // rows)
        for ci, e in enumerate(cfgs if not quick else cfgs[1:]):
            v = dict(u)
            v.update({'id': 'big%d.c%d' % (i, ci), 'osenv': e, 'nopack': True, 'replicate': blocks})
            rep_units.append(v)
            rep_meta.append((u, blocks, e))
    robs = k2.pmap('harness.variants:run_replicated', rep_units, 4)
    vu, vo = [], []
    for (u, blocks, e), o, ru in zip(rep_meta, robs, rep_units):
        chk.add('evaluations')
        if 'err' in o:
            chk.add('skipped_engine_error')       # includes runs that do not complete under the 64MB limit
            continue
        if not o['blocks_agree'] or (o['rows'] and o['blocks_seen'] != blocks):
            chk.violation('blocks disagree | %s | %s' % (cfg_label(e), o.get('text')),
                          'replicated input (%d blocks): blocks seen %d, all equal: %s' % (blocks, o['blocks_seen'], o['blocks_agree']),
                          {'term': u['term'], 'config': e, 'blocks': blocks})
            continue
        w = dict(u)
        w.update({'id': ru['id'], 'osenv': e})
        vu.append(w)
        vo.append(o)
        chk.add('large_input_rows', o['total_rows'])
    verd, st, gn = k2.validate(vu, vo)
    chk.add('states', st)
    chk.add('transitions', gn)
    for u, o, v in zip(vu, vo, verd):
        chk.add('traces_validated_against_impl')
        if v['ok'] is False:
            chk.violation('large input | %s | %s' % (cfg_label(u['osenv']), o.get('text')), v['why'], {'term': u['term'], 'config': u['osenv'], 'expected': v.get('exp')})
    # (c) corpus under every configuration
    cases = corpus.discover()
    rnd.shuffle(cases)
    args, meta = [], []
    for c in cases[:(40 if quick else 400)]:
        if variants.order_dependent_text(open(c['vtl'], encoding='utf-8').read()):
            continue
        for ci, e in enumerate(cfgs):
            args.append({'case': c, 'seed': None, 'osenv': e})
            meta.append((c['id'], ci))
    obs = k2.pmap('harness.variants:corpus_variant', args)
    tun = {}
    for (cid, ci), o in zip(meta, obs):
        chk.add('evaluations')
        t = tun.setdefault(cid, {'id': 'c' + c12.digest(cid), 'n': 0, 'reads': [], 'dup': False, 'obs': [], 'corpus': cid})
        # runs that fail only because of the memory limit are excluded, as the property allows
        if o['outcome'] != 'ok' and 'memory' in (o.get('msg') or '').lower():
            continue
        t['obs'].append({'perm': [ci], 'api': 'run', 'outcome': o['outcome'], 'digest': o['digest']})
    tlist = [t for t in tun.values() if t['obs'] and any(o['outcome'] == 'ok' for o in t['obs'])]
    verd = c12.validate(chk, [{k: v for k, v in t.items() if k != 'corpus'} for t in tlist])
    for t in tlist:
        v = verd[t['id']]
        chk.add('traces_validated_against_impl', len(t['obs']))
        if not v['ok']:
            chk.violation('corpus %s | %s' % (t['corpus'], v['why']), 'result depends on the engine configuration: %s' % v['why'], t)
    chk.notes['configs'] = [cfg_label(e) for e in cfgs]
    chk.notes['corpus_scripts'] = len(tlist)
    chk.cov['rule'] = ('(a) random units of every modelled family under each configuration of the grid, every observation validated by TLC '
                       'against the one spec step; (b) units replicated into blocks up to %d rows (block identifier added), per-block results '
                       'required equal and one block validated by TLC; (c) corpus scripts: outcomes of all configurations grouped and compared '
                       '(VTLOrder_Trace). distinct = distinct (term, result size)') % target
    chk.assumptions += ['runs that fail under VTL_MEMORY_LIMIT=64MB are excluded (the property speaks of runs that complete)',
                        'block replication covers operators that act within a block (no cross-block aggregation)']
