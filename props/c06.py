"""C06 Analytic (window) functions compute over the specified partitions and frames."""
import itertools
import json
import random

from harness import b1, k2, termgen
from props import c01

LEVEL = 'model_checking'


def keyfn(u):
    t = u['term']
    a = t['items'][0]['expr'] if t.get('k') == 'clause' else t
    fr = a['frame'][0] if a.get('frame') else None
    return '%s %s %s' % ('calc' if t.get('k') == 'clause' else 'dataset', a['op'], ('%s %s..%s' % (fr['kind'], _b(fr['lo']), _b(fr['hi']))) if fr else 'noframe')


def _b(b):
    return 'cur' if b['d'] == 'current' else ('unb' if b['n'] == -1 else str(b['n'])) + b['d'][0]


def main(chk):
    rnd = random.Random(chk.seed)
    quick = chk.tier == 'quick'
    units, r = b1.generate('GenAnalytic', 'GenAnalytic_quick.cfg' if quick else 'GenAnalytic_thorough.cfg', workers=8, timeout=3000)
    if r.violated:
        chk.violation('model invariant %s' % r.violated, 'TLC: %s violated in GenAnalytic' % r.violated, r.output[-3000:])
    chk.add('states', r.states)
    chk.add('transitions', r.generated)
    chk.cov['exhaustive'] = True
    chk.notes['model'] = {'invocations_enumerated': len(units)}
    # every enumerated invocation is replayed under several permutations of the input rows (the spec has no row order)
    if quick:
        units = rnd.sample(units, min(len(units), 700))
    nperm = 2 if quick else 4
    for p in range(nperm):
        b1.replay(chk, units, keyfn, seed=chk.seed, label='g%d_' % p, extra_unit={'perm': rnd.randrange(1, 10 ** 6)} if p else None)
    # all 720 row orders of the six-datapoint input for a few invocations
    few = rnd.sample(units, 2 if quick else 12)
    allperm = []
    for j, u in enumerate(few):
        rows = u['env']['D']['rows']
        for pi, perm in enumerate(itertools.permutations(range(len(rows)))):
            if quick and pi % 12:
                continue
            v = json.loads(json.dumps(u))
            v['env']['D']['rows'] = [rows[i] for i in perm]
            allperm.append(v)
    b1.replay(chk, allperm, keyfn, seed=chk.seed, label='p')
    ru = termgen.random_analytic_units(rnd, 300 if quick else 4000)
    lu, lo, _ = b1.validate(chk, ru, keyfn)
    b1.binding_demo(chk, lu, lo, c01.corrupt)
    chk.cov['rule'] = ('B1: TLC (GenAnalytic) enumerates every frame shape (rows / range; unbounded, 0-3 preceding, current, 0-3 following) x every windowed function x asc / desc, lag / lead with '
                       'offsets 0-3 and default, rank, ratio_to_report, with and without partition, inside calc and (thorough) at dataset level over a partition of five datapoints with a null and a '
                       'partition of one; each invocation is replayed under several row permutations, some under ALL 720 row orders; B2: random invocations over random datasets with total '
                       'orderings validated by VTLOperators_Trace. distinct = distinct (term, result)')
    chk.assumptions += ['orderings are total (no ties) as the property requires; order keys are identifiers (or a measure with distinct values at dataset level)',
                        'defaults of an omitted order by / window clause are not judged (explicit clauses only); range frames only over Integer order keys',
                        'standard deviations are checked by squaring; numbers at 1e-6 relative tolerance']
