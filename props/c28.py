"""C28 Viral attributes propagate according to the declared rule."""
import json
import random

from harness import b1, k2, render, report, termgen, viral
from props import c01

LEVEL = 'model_checking'
MOD, CFG = 'VTLViral_Trace', 'VTLViral_Trace.cfg'
VAL = ('hier', 'dpcheck', 'check')


def rules_key(u):
    return ','.join('%s:%s' % (k, r.get('fn', 'enum')) for k, r in sorted(u['rules'].items()))


def keyfn(u):
    return '%s %s' % (termgen.shape(u['term']), rules_key(u))


def with_script(u, i, label):
    text = '\n'.join(viral.rule_text('VP_%d' % (k + 1), v, u['rules'][v]) for k, v in enumerate(sorted(u['rules'])))
    return {'id': '%s%d' % (label, i), 'env': u['env'], 'term': u['term'], 'rules': u['rules'], 'exp': u.get('exp'), 'cc': True, 'nopack': True,
            'script': text + '\n' + render.statement('R', u['term'])}


def replay(chk, units, label, perm=None):
    us = [with_script(u, i, label) for i, u in enumerate(units)]
    if perm:
        for u in us:
            u['perm'] = perm
    obs = k2.execute(us, pack=1)
    distinct = set()
    for u, o in zip(us, obs):
        if 'machinery' in o:
            raise RuntimeError(o['machinery'])
        chk.add('evaluations')
        ok, why = b1.judge(u['exp'], o, True)
        if ok is None:
            chk.add('rejected_by_engine')
            continue
        chk.add('traces_validated_against_impl')
        distinct.add(json.dumps([u['term'], u['rules']], sort_keys=True))
        if not ok:
            chk.violation('%s | %s | %s' % (b1.failure_kind(why), keyfn(u), o.get('text')), why,
                          {'env': u['env'], 'term': u['term'], 'rules': u['rules'], 'expected': u['exp'], 'observed': {k: v for k, v in o.items() if k != 'tb'}})
    chk.add('distinct_nontrivial', len(distinct))


def main(chk):
    rnd = random.Random(chk.seed)
    quick = chk.tier == 'quick'
    units, r = b1.generate('GenViral', 'GenViral.cfg', workers=11, timeout=3000)
    if r.violated:
        chk.violation('model invariant %s' % r.violated, 'TLC: %s violated in GenViral' % r.violated, r.output[-3000:])
    chk.add('states', r.states)
    chk.add('transitions', r.generated)
    chk.cov['exhaustive'] = True
    chk.notes['model'] = {'invocations_enumerated': len(units), 'invariants': ['AggConsistent', 'NoRuleRejected', 'PairSymmetric']}
    replay(chk, units, 'g')
    replay(chk, units, 'p', perm=rnd.randrange(1, 10 ** 6))          # the same with the input datapoints in another order
    # random units: only those the engine gets right WITHOUT viral attributes are judged here (other failures belong to C01-C05)
    n = 260 if quick else 4000
    ru = viral.random_viral_units(rnd, n)
    side = report.Check(chk.pid, chk.tier, chk.seed, LEVEL)
    plain = [{'id': u['id'], 'env': {k: strip(d) for k, d in u['env'].items()}, 'term': u['term'], 'cc': True} for u in ru]
    bu, _, bv = b1.validate(side, [u for u in plain if u['term']['k'] not in VAL], lambda u: '', pack=20)
    good = {u['id'] for u, v in zip(bu, bv) if v['ok']}
    hu, _, hv = b1.validate(side, [dict(u, nopack=True) for u in plain if u['term']['k'] in VAL], lambda u: '', pack=1, module='VTLValidation_Trace', cfg='VTLValidation_Trace.cfg')
    good |= {u['id'] for u, v in zip(hu, hv) if v['ok']}
    ru = [u for u in ru if u['id'] in good]
    lu, lo, _ = b1.validate(chk, ru, keyfn, pack=1, module=MOD, cfg=CFG)
    # input order: every unit again under two other orders of the input datapoints; the outcome must be the one already validated
    for p in range(2):
        pu = []
        for u in lu:
            v = dict(u)
            v.update({'id': '%s.p%d' % (u['id'], p), 'perm': rnd.randrange(1, 10 ** 6)})
            pu.append(v)
        qu, qo, _ = b1.validate(chk, pu, lambda u: 'permuted input | ' + keyfn(u), pack=1, module=MOD, cfg=CFG)
        # ... also where the spec leaves a value undetermined: the returned datapoints must be the same set as in the first order
        first = {u['id']: canon(o) for u, o in zip(lu, lo)}
        for u, o in zip(qu, qo):
            base = u['id'].rsplit('.p', 1)[0]
            if base in first and canon(o) != first[base]:
                chk.violation('depends on input order | %s | %s' % (keyfn(u), o.get('text')), 'the same statement over the same datapoints in another order returned different datapoints',
                              {'env': u['env'], 'term': u['term'], 'rules': u['rules'], 'perm': u['perm']})
    # a viral attribute without a rule is rejected by semantic analysis
    nr = []
    for u in ru[:40 if quick else 400]:
        v = dict(u)
        drop = sorted(u['rules'])[0]
        used = referenced(u['term'])
        if not any(drop in [c['n'] for c in d.get('comps', [])] for n, d in u['env'].items() if n in used):
            continue          # the statement reads no dataset carrying that attribute: no rule is needed
        rest = {k: x for k, x in u['rules'].items() if k != drop}
        text = '\n'.join(viral.rule_text('VP_%d' % (k + 1), vv, rest[vv]) for k, vv in enumerate(sorted(rest)))
        v.update({'id': u['id'] + '.norule', 'script': (text + '\n' if text else '') + render.statement('R', u['term']), 'dropped': drop})
        nr.append(v)
    for u, o in zip(nr, k2.execute(nr, pack=1)):
        chk.add('evaluations')
        if o.get('err') == 'SemanticError' and o.get('code') == '1-3-3-6':
            chk.add('traces_validated_against_impl')
        elif o.get('err') == 'SemanticError':
            chk.add('rejected_by_engine')
        else:
            chk.violation('no rule accepted | %s' % keyfn(u), 'viral attribute %s has no propagation rule: semantic error 1-3-3-6 required, engine gave %s' % (
                u['dropped'], o.get('err') or 'a result'), {'script': o.get('text')})
    b1.binding_demo(chk, lu, lo, corrupt_viral, module=MOD, cfg=CFG)
    chk.cov['rule'] = ('VTLViral computes the measures with VTLOperators on the operands stripped of viral attributes and the viral attributes from the LINEAGE of each result datapoint '
                       '(row-wise / combine / group / copy). B1: TLC (GenViral) evaluates 7 enumerated rule shapes and the 4 aggregate rules over EVERY pair of values {A,B,C,null} / '
                       '{1,5,-2,null} (dataset + dataset, nested, set operator, clause, join), every single value (unary, dataset-scalar) and EVERY multiset of 1-3 values (aggregations, '
                       'aggr clause, unary over aggregation); every term replayed twice (second time with permuted input rows). B2: random units of all modelled families and nested '
                       'expressions given random viral attributes and rules, validated by TLC (VTLViral_Trace), then again under two other input orders; missing rule must be 1-3-3-6')
    chk.assumptions += ['the engine\'s propagation model is the reference (no VTL 2.1 text exists): pair form for dataset-dataset and joins folded in operand order, group form for aggregations, '
                        'enumerated rules per datapoint and aggregate rules over the whole operand for row-preserving operators; min / max skip nulls in pairs, sum / avg do not',
                        'an enumerated rule folded over a group of more than two values may depend on the order of the fold; where it does (or the group has more than 5 datapoints) the value is '
                        'not judged, only its independence of the input order; dataset-level analytic invocations take the rule over the whole partition; a computed item of hierarchy takes the rule over its children; check_datapoint / check_hierarchy apply the rule row-wise over the reported datapoints (an aggregate rule over ALL of them), check copies the attributes of the validated operand']


def referenced(t):
    """names of the variables a term reads"""
    out = set()
    if isinstance(t, dict):
        if t.get('k') == 'var':
            out.add(t['name'])
        for v in t.values():
            out |= referenced(v)
    elif isinstance(t, list):
        for v in t:
            out |= referenced(v)
    return out


def canon(o):
    return sorted(json.dumps(r, sort_keys=True) for r in o.get('rows', [])) if 'rows' in o else json.dumps({k: v for k, v in o.items() if k in ('v', 'err', 'code')}, sort_keys=True)


def strip(d):
    if 'comps' not in d:
        return d
    vs = {c['n'] for c in d['comps'] if c['r'] == 'V'}
    return {'comps': [c for c in d['comps'] if c['r'] != 'V'], 'rows': [{k: v for k, v in r.items() if k not in vs} for r in d['rows']]}


def corrupt_viral(o):
    """change one viral value of an accepted observation"""
    names = [c['n'] for c in o.get('comps', []) if c['r'] == 'V']
    if not names or not o.get('rows'):
        return None
    r = o['rows'][0]
    v = r[names[0]]
    r[names[0]] = [4, [81]] if v[0] in (0, 4) else [v[0], 99] if v[0] == 1 else [2, [99, 1]]
    return o
