"""C10 Results conform to the structure predicted by semantic analysis."""
import json
import random
import re

from harness import corpus, engine, k2, tlc, variants, render

LEVEL = 'model_checking'

RX = {
    'Date': re.compile(r'^\d{4}-\d{2}-\d{2}([T ]\d{2}:\d{2}:\d{2}(\.\d+)?)?$'),
    'Time_Period': re.compile(r'^\d{4}(-?(A|S\d|Q\d|M\d{1,2}|W\d{1,2}|D\d{1,3})|-\d{2}(-\d{2})?)?$'),
    'Time': re.compile(r'^[^/]+/[^/]+$'),
    'Duration': re.compile(r'^([ASQMWD]|P[0-9YMWDT.HS]+)$'),
}
TAG = {'Integer': 1, 'Number': 2, 'Boolean': 3, 'String': 4, 'Date': 5, 'Time_Period': 6, 'Time': 7, 'Duration': 8}


def typed(x, t):
    """-> [tag, text]: tag of the declared type when x is a valid value of it, 0 for null, 13 otherwise."""
    from harness import values
    import numbers
    if values.is_null(x):
        return [0, '']
    ok = False
    if t == 'Integer':
        import numpy as np
        ok = (isinstance(x, numbers.Integral) and not isinstance(x, (bool, np.bool_))) or (isinstance(x, float) and x == x and abs(x) != float('inf') and x == int(x))
    elif t == 'Number':
        ok = isinstance(x, numbers.Real) and not isinstance(x, bool) and x == x and abs(x) != float('inf')
    elif t == 'Boolean':
        import numpy as np
        ok = isinstance(x, (bool, np.bool_))
    elif t == 'String':
        ok = isinstance(x, str)
    elif t in RX:
        ok = isinstance(x, str) and bool(RX[t].match(x))
    return [TAG.get(t, 99) if ok else 13, str(x)]


def enc_comps(ds):
    from harness import values
    return [{'n': c.name, 'r': values.ROLE[c.role.value], 't': values.type_name(c.data_type), 'u': bool(c.nullable)}
            for c in ds.components.values()]


def observe(arg):
    engine.boot()
    from vtlengine import run, semantic_analysis
    from vtlengine.Model import Dataset
    from harness import values
    if 'case' in arg:
        text, ds, dps, _ = corpus.load_case(arg['case'])
        svals = None
    else:
        text = render.statement('R', arg['term'])
        ds, dps, svals = k2.build_inputs(arg['env'])
    out = {'text': text if len(text) < 600 else text[:600] + '...'}
    try:
        sa = semantic_analysis(script=text, data_structures=ds)
        r = run(script=text, data_structures=ds, datapoints=dps, scalar_values=svals or None, return_only_persistent=False)
    except Exception as e:  # noqa
        out['err'] = k2.classify_exception(e)
        return out
    pred, res = [], []
    for name, v in sa.items():
        if isinstance(v, Dataset):
            pred.append({'name': name, 'comps': enc_comps(v)})
        else:
            pred.append({'name': name, 'comps': [{'n': '@scalar', 'r': 'S', 't': values.type_name(v.data_type), 'u': True}]})
    for name, v in r.items():
        if isinstance(v, Dataset):
            comps = enc_comps(v)
            tm = {c['n']: c['t'] for c in comps}
            cols = list(v.data.columns) if v.data is not None else []
            rows = []
            if v.data is not None:
                for rec in v.data.head(arg.get('maxrows', 400)).itertuples(index=False, name=None):
                    rows.append({cols[i]: typed(rec[i], tm.get(cols[i], 'String')) for i in range(len(cols))})
            res.append({'name': name, 'comps': comps, 'cols': cols, 'rows': rows})
        else:
            t = values.type_name(v.data_type)
            res.append({'name': name, 'comps': [{'n': '@scalar', 'r': 'S', 't': t, 'u': True}], 'cols': ['@scalar'],
                        'rows': [{'@scalar': typed(v.value, t)}]})
    out['pred'], out['res'] = pred, res
    return out


def validate(chk, tunits):
    if not tunits:
        return {}
    path = engine.sub_dir('traces') + '/struct-%d.json' % len(tunits)
    json.dump(tunits, open(path, 'w'))
    r = tlc.must(tlc.run('VTLStruct_Trace', 'VTLStruct_Trace.cfg', env={'TRACE_FILE': path}, workers=12), 'VTLStruct_Trace')
    chk.add('states', r.states)
    chk.add('transitions', r.generated)
    v = {}
    for line in r.lines:
        x = json.loads(line)
        v[x['id']] = x
    if len(v) != len(tunits):
        raise RuntimeError('missing verdicts from VTLStruct_Trace')
    return v


def main(chk):
    rnd = random.Random(chk.seed)
    quick = chk.tier == 'quick'
    from harness import termgen, viral
    n = 300 if quick else 3000
    gen_units = (variants.mixed_units(rnd, n) + termgen.random_join_units(rnd, n // 4) + termgen.random_analytic_units(rnd, n // 6)
                 + termgen.random_validation_units(rnd, n // 6) + viral.nested_units(rnd, n // 6) + termgen.random_exists_units(rnd, n // 10) + termgen.random_unpivot_units(rnd, n // 10))
    cases = corpus.discover()
    rnd.shuffle(cases)
    cases = cases[:(150 if quick else len(cases))]
    args = [{'env': u['env'], 'term': u['term']} for u in gen_units] + [{'case': c} for c in cases]
    obs = k2.pmap('props.c10:observe', args)
    tunits, back = [], {}
    for i, (a, o) in enumerate(zip(args, obs)):
        chk.add('evaluations')
        if 'err' in o:
            chk.add('skipped_not_successful')        # the property speaks about runs that succeed
            continue
        tid = 'u%d' % i
        tunits.append({'id': tid, 'pred': o['pred'], 'res': o['res']})
        back[tid] = (a, o)
    verd = validate(chk, tunits)
    distinct = set()
    for t in tunits:
        a, o = back[t['id']]
        v = verd[t['id']]
        chk.add('traces_validated_against_impl')
        distinct.add(json.dumps(t['pred'], sort_keys=True))
        if not v['ok']:
            where = 'corpus %s' % a['case']['id'] if 'case' in a else 'generated'
            chk.violation('%s | %s | %s' % (v['why'].split(': ')[-1][:70], where, o['text'][:160]), v['why'],
                          {'script': o['text'], 'pred': o['pred'], 'res': [{k: (x[k] if k != 'rows' else x[k][:5]) for k in x} for x in o['res']]})
        else:
            chk.sample({'script': o['text'][:200], 'predicted': o['pred'][:2]})
    chk.add('distinct_nontrivial', len(distinct))
    # binding demonstration
    if tunits:
        demo = json.loads(json.dumps(tunits[0]))
        demo['id'] = 'demo'
        demo['res'][0]['comps'][0]['u'] = not demo['res'][0]['comps'][0]['u']
        if validate(chk, [demo])['demo']['ok']:
            raise RuntimeError('binding demonstration failed (C10)')
        chk.notes['binding_demo'] = 'flipping one nullability flag is rejected'
    chk.cov['rule'] = ('every successful run of %d random scripts (all modelled operator families) and %d corpus scripts is recorded with the '
                       'structures semantic_analysis() predicts; TLC (VTLStruct_Trace) checks name set, components (names, roles, types, '
                       'nullability, order), column order, typed values, non-null unique identifiers, non-nullable components, <=1 datapoint without '
                       'identifiers. distinct = distinct predicted structures') % (len(gen_units), len(cases))
    chk.assumptions += ['for scripts outside the modelled subset the oracle for the structure is semantic_analysis() itself, as the property states',
                        'temporal values are checked against the documented output patterns (regex), at most 400 datapoints per result']
