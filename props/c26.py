"""C26 Every VTL error raised carries a catalogued code and renders its message."""
import ast
import glob
import json
import os
import random

from harness import apicalls, corpus, engine, k2
from props import c22, c32

LEVEL = 'model_checking'
CLASSES = {'SemanticError': 0, 'RunTimeError': 0, 'DataLoadError': 0, 'InputValidationException': None}


def sites(repo=None):
    """Static facts: every construction of a coded VTL exception in the source tree.
    -> (facts, undecided)  fact = {id, kind: 'site', code, kwargs, star, cls, where}"""
    src = os.path.join(repo or engine.REPO, 'src', 'vtlengine')
    facts, undecided = [], []
    for path in sorted(glob.glob(os.path.join(src, '**', '*.py'), recursive=True)):
        try:
            tree = ast.parse(open(path, encoding='utf-8').read())
        except SyntaxError as e:
            raise RuntimeError('cannot parse %s: %s' % (path, e))
        rel = os.path.relpath(path, src)
        for node in ast.walk(tree):
            if not isinstance(node, ast.Call):
                continue
            f = node.func
            name = f.id if isinstance(f, ast.Name) else (f.attr if isinstance(f, ast.Attribute) else None)
            if name not in CLASSES:
                continue
            kw = {k.arg: k.value for k in node.keywords if k.arg}
            star = any(k.arg is None for k in node.keywords) or any(isinstance(a, ast.Starred) for a in node.args)
            if name == 'InputValidationException':
                codenode = kw.get('code')
                if codenode is None:
                    continue            # free-text message, no code
            else:
                codenode = node.args[0] if node.args else kw.get('code')
            where = '%s:%d' % (rel, node.lineno)
            if isinstance(codenode, ast.Constant) and isinstance(codenode.value, str):
                names = sorted(k for k in kw if k not in ('code', 'comp_code', 'lino', 'colno', 'message'))
                facts.append({'id': where, 'kind': 'site', 'cls': name, 'code': codenode.value, 'kwargs': names, 'star': bool(star), 'where': where})
            elif codenode is not None:
                undecided.append(where)
    return facts, undecided


def main(chk):
    rnd = random.Random(chk.seed)
    quick = chk.tier == 'quick'
    apicalls.model_check(chk)
    cat = apicalls.catalogue()
    facts, undecided = sites()
    chk.notes['static'] = {'sites': len(facts), 'computed_code_sites_not_decided': undecided[:40], 'catalogue_codes': len(cat),
                           'codes_used_by_sites': len({f['code'] for f in facts})}
    # dynamic: errors actually raised
    calls = c22.shaped_calls(rnd) + c32.failing_calls(rnd, 150 if quick else 1500)
    cases = corpus.discover()
    rnd.shuffle(cases)
    for c in cases[:(250 if quick else len(cases))]:
        calls.append({'id': 'c:%s.run' % c['id'], 'api': 'run', 'case': c})
    calls += error_calls()
    units = k2.pmap('harness.apicalls:observe', calls)
    chk.add('skipped_pysdmx_input', len([u for u in units if 'skip' in u]))
    units = [u for u in units if 'skip' not in u]
    for u in units:
        if 'machinery' in u:
            raise RuntimeError(u['machinery'])
    dyn = [u for u in units if u['outcome']['kind'] != 'ok']
    for u in dyn:
        u.pop('before', None)
        u.pop('after', None)
    verd = apicalls.validate(chk, facts + dyn, cat=cat)
    codes_seen = set()
    for f in facts:
        chk.add('evaluations')
        v = verd[f['id']]
        if v['c26']:
            chk.violation('site %s | %s %s' % (v['c26'].split(':')[0], f['where'].split(':')[0], f['code']), '%s at %s (%s(%r, %s))' % (v['c26'], f['where'], f['cls'], f['code'], ', '.join(f['kwargs'])), f)
    for u in dyn:
        chk.add('evaluations')
        chk.add('traces_validated_against_impl')
        v = verd[u['id']]
        o = u['outcome']
        if o['kind'] == 'vtl':
            codes_seen.add((o['cls'], o['code']))
        why = v['c26']
        if o['kind'] == 'raw' and o.get('in_exception_ctor'):
            why = 'constructing the VTL error failed: %s %s' % (o['cls'], o['msg'])
        if why:
            chk.violation('raised %s | %s | %s' % (why.split(':')[0], o.get('code') or o['cls'], (u.get('text') or '')[:100]), why, {'script': u.get('text'), 'outcome': o})
    chk.add('distinct_nontrivial', len({f['code'] for f in facts}) + len(codes_seen))
    chk.notes['dynamic'] = {'calls': len(units), 'errors_raised': len(dyn), 'distinct_class_code_pairs': len(codes_seen)}
    for f in facts[:3]:
        chk.sample({'site': f['where'], 'class': f['cls'], 'code': f['code'], 'kwargs': f['kwargs'], 'placeholders': cat.get(f['code'])})
    for u in dyn[:2]:
        chk.sample({'script': u.get('text'), 'raised': u['outcome']})
    # binding demonstration: a site with an unknown code / a missing placeholder must be rejected
    demo = [{'id': 'demo1', 'kind': 'site', 'code': '9-9-9-9', 'kwargs': [], 'star': False},
            {'id': 'demo2', 'kind': 'site', 'code': '0-1-1-8', 'kwargs': ['ids'], 'star': False}]
    dv = apicalls.validate(chk, demo, cat=cat)
    if not dv['demo1']['c26'] or not dv['demo2']['c26']:
        raise RuntimeError('binding demonstration failed (C26)')
    chk.notes['binding_demo'] = 'an uncatalogued code and a site missing the placeholder {file} of 0-1-1-8 are rejected'
    chk.cov['exhaustive'] = True
    chk.cov['rule'] = ('static: EVERY construction site of SemanticError / RunTimeError / DataLoadError / coded InputValidationException in src/vtlengine '
                       '(Python ast; code literal, keyword names, **kwargs flag) is a fact; TLC (VTLApi_Trace, obligation Catalogued) decides code in catalogue '
                       'and placeholders subset of keywords against the catalogue read from messages.py; dynamic: every error raised by the shaped calls of C22, the '
                       'runtime-failure generators of C32, parser errors and corpus scripts is validated the same way (code catalogued, message fully rendered, '
                       'constructor did not fail). distinct = distinct codes at sites + distinct (class, code) raised')
    chk.assumptions += ['sites whose code is computed at run time (listed in notes) are not decided statically', 'sites passing **kwargs are accepted statically and rely on the dynamic half']


def error_calls():
    S1 = c22.struct('DS_1', [('Id_1', 'Integer', 'Identifier', False), ('Me_1', 'Number', 'Measure', True)])
    raw = {'ds': {'datasets': [S1]}, 'dps': {'DS_1': c22.df(['Id_1', 'Me_1'], [[1, 1.5]])}}
    texts = ['R <- ;', 'R := DS_1 +', 'R <- DS_1 [', 'R <- DS_1; R <- DS_1;', 'A := B; B := A;', 'R <- DS_1#Zz;', 'R <- DS_1[keep Zz];',
             'R <- DS_1[rename Me_1 to Id_1];', 'R <- inner_join(DS_1, DS_1);', 'R <- DS_1[calc identifier Me_1 := 1];', 'R <- sum(DS_1 group by Zz);',
             'R <- cast(DS_1, date, "YYYY");', 'R <- DS_1[sub Id_1 = "a"];', 'R <- check_datapoint(DS_1, dpr);', 'R <- f(DS_1);', 'R <- union(DS_1, DS_1[drop Me_1]);',
             'R <- DS_1[aggr x := sum(Me_1) group by Me_1];', 'R <- if DS_1 then 1 else 2;', 'R <- DS_1 in {1, "a"};', 'R <- between(DS_1, "a", 2);',
             'R <- substr(DS_1, 1, 2);', 'R <- timeshift(DS_1, 1);', 'R <- fill_time_series(DS_1);', 'R <- DS_1[pivot Id_1, Zz];', 'DS_1 <- DS_1;', '']
    out = []
    for i, t in enumerate(texts):
        for api in ('run', 'semantic_analysis'):
            out.append({'id': 'err%d.%s' % (i, api), 'api': api, 'script': t, 'raw': raw})
    # the message of an error names the statement being analysed: result names that look like format fields
    hostile = ["'R{x}'", "'R{}'", "'{R'", "'R}'", "'R{0}'", "'R%s'", "'R{x!r:>{w}}'"]
    k = 0
    for t in texts:
        if t.startswith('R <- ') and 'DS_1; R' not in t:
            for h in hostile:
                out.append({'id': 'errh%d' % k, 'api': ('run', 'semantic_analysis')[k % 2], 'script': t.replace('R <- ', h + ' <- ', 1), 'raw': raw})
                k += 1
    # the same with hostile dataset / component names in the structure
    S2 = c22.struct("'DS{1}'", [('Id_1', 'Integer', 'Identifier', False), ("'Me{1}'", 'Number', 'Measure', True)])
    for i, t in enumerate(["R <- 'DS{1}' + \"a\";", "R <- 'DS{1}'[keep Zz];", "R <- 'DS{1}'#'Me{9}';", "R <- 'DS{1}'[calc identifier 'Me{1}' := 1];", "R <- 'DS{1}' / 0;"]):
        out.append({'id': 'errn%d' % i, 'api': 'run', 'script': t, 'raw': {'ds': {'datasets': [S2]}, 'dps': {"'DS{1}'": c22.df(['Id_1', "'Me{1}'"], [[1, 1.5]])}}})
    return out
