#!/usr/bin/env python3
"""Evaluate one seeded change: tools/try_mutant.py <dir with patch.diff, demo.py, meta.json> <check ids...>
Applies the patch to a scratch worktree of /repo's HEAD (never to /repo), confirms the demonstration (fails with the change,
passes without), confirms the pinned test suite still passes, runs the given checks against the changed tree and
records which of them report a violation.  Writes <dir>/result.json."""
import json, os, re, shutil, subprocess, sys, time

d = os.path.abspath(sys.argv[1])
checks = sys.argv[2:]
tier = os.environ.get('MUT_TIER', 'quick')
wt = '/tmp/mutrun-%d' % os.getpid()
out = '/tmp/mutout-%d' % os.getpid()
def sh(cmd, **kw):
    return subprocess.run(cmd, shell=True, stdout=subprocess.PIPE, stderr=subprocess.STDOUT, text=True, **kw)
res = {'checks': {}, 'at': time.strftime('%Y-%m-%dT%H:%M:%S'), 'repo_head': sh('git -C /repo rev-parse HEAD').stdout.strip()}
sh('git -C /repo worktree add --detach %s HEAD' % wt)
try:
    r = sh('VTL_REPO=%s /opt/vtlshim/vtlpy %s/demo.py' % (wt, d), timeout=900)
    res['demo_without_change'] = r.returncode
    a = sh('git -C %s apply --3way %s/patch.diff || git -C %s apply %s/patch.diff' % (wt, d, wt, d))
    res['apply'] = a.returncode
    if a.returncode != 0:
        res['apply_output'] = a.stdout[-800:]
    r = sh('VTL_REPO=%s /opt/vtlshim/vtlpy %s/demo.py' % (wt, d), timeout=900)
    res['demo_with_change'] = r.returncode
    res['demo_output'] = r.stdout[-600:]
    t = sh('cd %s && /venv/bin/python -m pytest -q -p no:cacheprovider --timeout=900 --continue-on-collection-errors 2>&1 | tail -1' % wt)
    res['pinned_tests'] = t.stdout.strip()
    os.makedirs(out, exist_ok=True)
    for c in checks:
        t0 = time.time()
        r = sh('cd /verif && VERIF_REPO=%s VERIF_OUT_DIR=%s ./check %s --tier %s' % (wt, out, c, tier), timeout=7200)
        lines = [l for l in r.stdout.splitlines() if l.startswith(('VIOLATION', 'KNOWN-FINDING', '  ')) or 'MACHINERY' in l]
        res['checks'][c] = {'exit': r.returncode, 'wall_s': round(time.time() - t0), 'lines': [l[:300] for l in lines[:12]]}
        print(c, r.returncode, flush=True)
finally:
    sh('git -C /repo worktree remove --force %s' % wt)
    shutil.rmtree(out, ignore_errors=True)
res['caught_by'] = sorted(c for c, v in res['checks'].items() if v['exit'] == 1)
json.dump(res, open(os.path.join(d, 'result.json'), 'w'), indent=1)
print(json.dumps({k: res[k] for k in ('demo_without_change', 'demo_with_change', 'pinned_tests', 'caught_by')}))
