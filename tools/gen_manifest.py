#!/usr/bin/env python3
"""Generates /verif/MANIFEST.json from the table below (single place to edit)."""
import json
import os

HERE = os.path.dirname(os.path.dirname(os.path.abspath(__file__)))
TRUST = ("Trusted base: the TLA+ modules in /verif/spec, TLC, the parser stand-in (the repository's serialized ATN interpreted by the "
         "ANTLR 4.11 Java runtime instead of the compiled C++ parser, which cannot be built offline), the harness codecs. ")

CHECKS = {
 'C01': ('model_checking',
         "TLC explores the generation model GenOps: combination tables that make one statement meet every pair of pool values (null, zero, negative, fractional, empty and padded strings), every arithmetic / comparison / boolean / string / membership / conditional / numeric-function operator at dataset, dataset-scalar, scalar-dataset and component level, every key-overlap pattern over two keys with nested identifier sets, chained second statements; the 27 Kleene rows and dataset well-formedness are invariants. Every transition is a test of run() (B1); random well-typed terms of depth <= 4 over 1-3 datasets (1-3 identifiers, 1-3 measures, 0-20 rows, unicode strings) are validated by VTLOperators_Trace (B2).",
         "ln/exp/log/sqrt/non-integer power are uninterpreted (domain, null, type only); mod with a zero or negative operand, power of a non-positive base and nvl/if with branches of different numeric types are excluded as not determined (spec/READINGS.md). Numbers compared with 1e-6 relative tolerance; magnitudes bounded (32-bit TLC).",
         "TLA+ executable semantics, TLC enumeration replayed into run(), TLC trace validation"),
 'C02': ('model_checking',
         "TLC enumerates every well-formed chain of 1-2 (thorough: 1-3) clauses - filter with true/false/null outcomes, calc adding / overwriting / changing role, keep, drop, rename of measures and identifiers, sub on each identifier - over a 4-row and an empty dataset (GenClauses); each chain is ONE statement replayed into run() and compared with the specification's value; random chains of length 1-4 with random well-typed expressions over random datasets are validated by VTLOperators_Trace.",
         "Clauses on join results are exercised by C04; pivot/unpivot/apply are not modelled.",
         "TLA+ executable semantics, TLC enumeration replayed into run(), TLC trace validation"),
 'C03': ('model_checking',
         "TLC enumerates the ten aggregate operators x grouping modes (none, by, except) x having conditions, standalone and inside aggr, over datasets with repeated keys in the non-grouped identifier, null measures, an all-null group, a single-datapoint group and the empty dataset (GenAggr); every transition is replayed into run(); random aggregation statements over random datasets of 0-200 datapoints are validated by VTLOperators_Trace with exact rational arithmetic (standard deviations by squaring).",
         "count over a group without non-null values (0 vs null) is not judged; count() without operand counts datapoints with at least one non-null measure (spec/READINGS.md 15); standalone having only over mono-measure datasets (engine limitation).",
         "TLA+ executable semantics, TLC enumeration replayed into run(), TLC trace validation"),
 'C04': ('model_checking',
         "VTLOperators defines a join as the relational join of its operands on their shared identifiers (inner: all operands present; left: the first operand's datapoints with optional partners; full: one combination per key present anywhere; cross: every combination), the virtual dataset whose clashing non-key components are named alias#name, the body clauses applied in order on that virtual dataset, null fill for the missing side, and removal of the alias prefixes at the end. TLC (GenJoins) enumerates inner / left / full / cross joins of A, B (same identifiers, clashing measure) and C (nested identifier set) over EVERY subset of the key space per operand - every partial key-overlap pattern - with and without aliases, using, bodies that resolve the clash (drop / keep / rename), filters on either side, calc over both sides and aggr (thorough: three-operand joins); transitions are replayed into run(); random joins of 2-3 random datasets (equal / nested identifier sets, operands in any order for inner joins) are validated by TLC (VTLOperators_Trace).",
         "Identifier sets are equal or nested and using names the common identifiers (the engine rejects other shapes at semantic analysis); apply is not modelled; viral attributes in joins are C28's subject.",
         "TLA+ executable join semantics, TLC enumeration replayed into run(), TLC trace validation"),
 'C05': ('model_checking',
         "TLC exhaustively explores the set-operator model GenSets (every subset of 3 keys per operand, 2-4 operands in every order, conflicting measures, chained statements) and checks algebraic laws and well-formedness in every state; every explored transition is a candidate test of run() (B1, seeded sample in the quick tier) and random larger inputs are validated by the trace specification VTLOperators_Trace (B2).",
         "Numbers compared with 1e-6 relative tolerance.",
         "TLA+ executable semantics, TLC enumeration replayed into run(), TLC trace validation"),
 'C06': ('model_checking',
         "VTLOperators defines an analytic invocation as: partition by the partition components, total order by the order keys (asc / desc), frame by position (data points) or by order-key value (range) between the bounds, then the function over the datapoints of the frame (aggregates ignore nulls; first_value / last_value take the boundary datapoint; lag / lead step inside the partition with an optional default; rank is the position; ratio_to_report divides by the partition sum). TLC (GenAnalytic) enumerates EVERY frame shape (rows and range; unbounded, 0-3 preceding, current, 0-3 following; lower bound not above the upper) x every windowed function x both directions, lag / lead offsets 0-3 with and without default, rank, ratio_to_report, with and without partition, inside calc and (thorough) at dataset level, over a partition of five datapoints holding a null and a partition of one; each invocation is replayed into run() under several row permutations, some under ALL 720 row orders; random invocations over random datasets are validated by TLC (VTLOperators_Trace).",
         "Orderings are total (no ties) as the property requires. Defaults of an omitted order by / window clause are not judged (explicit clauses only). Range frames only over Integer order keys. Standard deviations are checked by squaring; numbers at 1e-6 relative tolerance.",
         "TLA+ executable window semantics, TLC enumeration of all frame shapes replayed into run() under row permutations, TLC trace validation"),
 'C07': ('model_checking',
         "VTLValidation defines check (boolean operand, error code / level where false, imbalance operand joined by key), check_datapoint (when / then rules per datapoint), check_hierarchy (left item against the signed sum of the right items per key, validation modes deciding which keys produce a result and what stands for an absent item, imbalance = left - right) and hierarchy (computed items in dependency order, input modes, output computed / all). TLC (GenValidation) evaluates them over datasets holding EVERY combination of absent / null / 0 / 2 / -2 of a rule's items (125 keys), every combination of two measures in {null,0,1,3} for datapoint rules, all 6 modes x outputs x input modes x rule shapes and both declaration orders of a two-level ruleset, checks the invariants InvalidSubsetOfAll, ErrorsOnlyWhereFalse, ImbalanceIsDifference, and every term is replayed into run() (twice, with permuted input rows) and compared datapoint by datapoint and component by component; random rulesets of 1-5 rules (when-conditions, error codes / levels, all modes) over random datasets are validated by TLC (VTLValidation_Trace).",
         "Where the manual leaves a mode undetermined the engine reading is adopted and named (spec/READINGS.md 20-23): keys reported by always_*, hierarchy looking at right-side items only, input mode dataset not distinguished from rule, errorlevel typed Number by ruleset operators, cyclic rulesets rejected. Hierarchical rules are sums / differences without when-conditions over one Integer measure.",
         "TLA+ executable validation semantics, TLC enumeration of all item-state combinations x modes replayed into run(), TLC trace validation"),
 'C08': ('model_checking',
         "VTLCalendar is the Gregorian calendar, ISO-8601 week numbering and the VTL periods in TLA+ integer arithmetic; for every requested year (quick: boundary years - leap, 53-week, century - plus seeded ones; thorough: EVERY year 1900-2100) TLC checks the theorems W53 exists <=> the ISO year has 53 weeks, D366 <=> leap year, shifting by k then -k is the identity for every period and every k in -60..60 (hence injective), and emits the expected tables. The engine is replayed in bulk: timeshift over ALL periods of all six indicators for each shift, time_agg for every (source, target) indicator pair incl. the error for finer targets, period_indicator / getyear on periods, getyear / getmonth / dayofmonth / dayofyear / cast(date, time_period) / time_agg(first|last) on EVERY day, dateadd (6 units x 10 amounts) and datediff on month-boundary days; generated series with gaps (timeshift, fill_time_series single / all, flow_to_stock, stock_to_flow) are validated by TLC (VTLTimeSeries_Trace). VTLCalendar itself is checked against Python datetime on every emitted day.",
         "Not judged (spec/READINGS.md 16-19): time_agg to the same indicator, a week straddling two target periods, getmonth / dayofmonth / dayofyear of non-daily periods; series carry small integers without nulls; quick tier uses a seeded subset of shifts per run (all shifts in the model).",
         "TLC evaluation of the calendar model over the complete period domain, bulk replay into run(), trace validation of series operators"),
 'C09': ('model_checking',
         "VTLCast transcribes the documented explicit-cast table, the conversion details the documentation states and the renaming rule of the dataset form; a String source is a descriptor carrying the values its text denotes under the documented input formats, so the spec never parses text. TLC (GenCast) enumerates ALL 8x8 (source, target) pairs x the value pool of the source type (0, negatives, fractional, booleans, every period indicator incl. W53 / D366, same / different interval dates, duration codes, unparsable / padded / out-of-range texts, null) and emits the documented outcome of each point (value, semantic error, runtime error, or not determined). Every point is replayed at component level (calc), dataset level (single measure: name and type of the result measure) and, where the source type has literals, scalar level; forbidden pairs must already fail in semantic_analysis(); unconvertible values are run one by one and must raise a VTL error.",
         "A pair of the implicit table is accepted by cast (Date -> Time, Time_Period -> Time). Not determined by the documentation and not judged: Number / Date / Time_Period -> String formatting, Number -> Integer of a fractional value. cast with a mask is documented as not implemented and is not exercised.",
         "TLC enumeration of the documented cast table x value pools replayed into semantic_analysis() and run() at three levels"),
 'C10': ('model_checking',
         "Every successful run made by the random drivers of all modelled operator families and of a sample (thorough: all) of the ~1260 upstream corpus scripts is recorded as one event holding the structures semantic_analysis() predicts and the structures, column order and typed values run() returns; TLC validates each event against VTLStruct_Trace: same result names, components (names, roles, types, nullability, order), column order, every value of its component's type, identifiers non-null and unique, non-nullable components never null, at most one datapoint without identifiers. The machine invariant Closure (everything the abstract statement machine stores is WellFormed) is checked by TLC in the generation models of C01-C05.",
         "For scripts outside the modelled subset the oracle of the structure is semantic_analysis() itself, exactly as the property states. Temporal values are recognised by the documented output patterns; at most 400 datapoints per result are validated.",
         "TLC trace validation of recorded (predicted structure, returned result) events + machine invariant Closure"),
 'C14': ('model_checking',
         "VTLApi models one API call as a state machine over what the caller observes (arguments, outcome, returned results, files); TLC checks FilesFaithful on it (selected results delivered to files or memory, scalar file written once). Each generated script (persistent and non-persistent dataset statements of all modelled operator families, scalar statements incl. null / date / period scalars) and each corpus script is run with an output folder in csv and parquet under both return_only_persistent settings and again in memory; each pair is one event validated by TLC (VTLApi_Trace): file set = one file per returned dataset (+ _scalars.csv), file columns and rows = the in-memory result, returned datasets carry no data, scalar file = returned scalars.",
         "Numbers in files are compared at 12 significant digits (text round trip of doubles); file rows are typed through the declared structure. The TLA+ content is a relation over recorded projections; the strength is the breadth of generated calls.",
         "TLC model checking of the API-call machine + trace validation of (output folder, in-memory) run pairs"),
 'C18': ('model_checking',
         "Every table TLC enumerates from VTLFormats (GenTables: the cell pools of all eight types - documented spellings, boundary values, invalid values and the cells whose validity the documentation leaves open such as padded, hexadecimal, fractional or empty values - each as nullable measure, non-nullable measure and identifier; pairs of different spellings of one identifier value; structural violations alone and combined) is written in the four input forms - CSV, DataFrame with string columns, DataFrame with native dtypes, Parquet - and run(): all four must be rejected with a VTL input error or all accepted with the same values. The specification has one abstract table; each form is one observation of it.",
         "A null cell is an empty unquoted CSV field / None in a DataFrame; the empty string is its own cell. Native dtypes (Int64 / Float64 / boolean) are used where every cell of the column is a value, text otherwise.",
         "TLC enumeration of the documented cell pools, each table observed in four input forms"),
 'C19': ('model_checking',
         "VTLFormats transcribes the documented input formats of all eight scalar types as cell pools [form, text, denoted value | Invalid | not determined] (calendar validity through VTLCalendar: month 13, 30 February, 29 February of a common year, week 54, week 53 of a 52-week year, day 366 of a common year, years 1799 / 10000, partial or out-of-range times, reversed intervals, fractional / hexadecimal integers ...) and the verdict of a table (duplicate identifier keys by DENOTED value, null identifier, missing identifier or non-nullable column, more than one datapoint without identifiers, invalid cell). TLC (GenTables) enumerates every cell in three roles, duplicate spellings and single / combined structural violations; each table is written as CSV and as a string DataFrame: run() must reject exactly the tables the documentation rejects, and accepted values must be the denoted ones (dates and periods in their documented output form).",
         "Cells the documentation does not determine (padding, \"+5\", \"3.0\", \"1e3\" for Integer, lowercase indicators, NaN ...) are not judged here; C18 / C20 compare them across forms.",
         "TLC enumeration of documented cell pools and table violations replayed into run()"),
 'C20': ('model_checking',
         "The same TLC-enumerated tables (GenTables over VTLFormats) as string DataFrame, native DataFrame and CSV file: validate_dataset() must raise exactly when run() of a script reading the dataset rejects the identical input; both functions are observed on the same table in the same process state.",
         "Parquet is not an input form of validate_dataset in this check.",
         "TLC enumeration of documented cell pools; differential observation of validate_dataset() and run()"),
 'C21': ('model_checking',
         "VTLFormats transcribes the documented input forms of Time_Period (23 forms over 6 indicators) and the four output formats; TLC (GenFormats, with VTLCalendar) proves for EVERY period of the requested years that every rendering is itself a documented input form denoting the same period (day periods through month/day arithmetic), that all input forms of a period agree, and that sdmx_gregorian is expressible exactly for A/M/D, and emits the text of every input form and rendering. The engine receives one table per (indicator, input form) as a measure (CSV and DataFrame) under each output format and as an identifier: the output must equal the documented rendering, non-expressible indicators must raise a VTL error; read-back is covered because every rendering is one of the input forms fed. The Python implementation (check_time_period, TimePeriodHandler and its four representation methods) is run on the same texts and must parse and render identically to the spec, hence to the SQL macros.",
         "Quick tier: boundary years plus the extreme years 1, 999, 1000, 9999; thorough: every year 1900-2100 plus a sample of 0001-9999. Years below 1000 are a known finding.",
         "TLC round-trip theorems over the complete period domain + bulk replay into run() and into the Python handlers"),
 'C22': ('model_checking',
         "VTLApi obligation ArgsUnchanged (no step of a call changes the caller's arguments) is checked by TLC on the call machine; every argument of every observed call is projected deeply (dict key order, list items, DataFrame columns / dtypes / index / values, paths, pysdmx datasets) before and after the call and TLC (VTLApi_Trace) compares per argument and names the one that changed. Calls: hand-shaped valid and invalid tables (missing / extra / BOM / reordered columns, duplicates, null identifiers, bad values, empty strings, temporal types, all period output formats) x succeeding and failing scripts for run / validate_dataset / semantic_analysis, value domains, external routines, scalar values, output folders, prettify, generate_sdmx, run_sdmx with pysdmx datasets, random units in every input form, corpus scripts.",
         "DataFrames are projected on their first 2000 rows; pysdmx objects by repr(). URL datapoints cannot be exercised offline.",
         "TLC trace validation of before/after argument projections of every API call"),
 'C26': ('model_checking',
         "Static half (exhaustive): every construction site of a coded VTL exception in src/vtlengine is extracted as a fact (code literal, keyword names, **kwargs) and TLC decides, against the catalogue read from messages.py at check time, code in catalogue and placeholders subset of keywords. Dynamic half: every error raised by the shaped calls, the runtime-failure generators, parser errors and corpus scripts is one event validated by TLC (code catalogued, message fully rendered, constructor did not itself fail).",
         "Sites whose code is computed at run time are listed as not decided; sites passing **kwargs are accepted statically. The TLA+ contribution is a set inclusion over extracted facts.",
         "static raise-site facts + recorded errors validated by TLC against the message catalogue"),
 'C27': ('model_checking',
         "VTLSdmx transcribes the documented role table, type table and nullability rule; TLC (GenSdmx) maps EVERY data type known to the installed pysdmx (read at check time) x every role, and seeded structures of 1-5 components, to the documented VTL structure or to the input-validation error, and checks that dimensions are the only non-nullable components. Each structure is built as Schema, DataStructureDefinition and Dataflow and observed through to_vtl_json(), semantic_analysis(), run() and run_sdmx(): one component per SDMX component with the documented role, type and nullability, or an InputValidationException.",
         "SDMX-ML / SDMX-JSON structure files need pysdmx[xml], which is not installed: pysdmx objects only.",
         "TLC enumeration of the documented SDMX mapping tables replayed into the four API entry points"),
 'C29': ('model_checking',
         "Names are plain strings in the specification (VTLDatasets: a component is [n, r, t], a datapoint a function from names), so Me_1 / me_1 / ME_1 are three components by construction and nothing in the spec ever compares names up to case. Every random unit of the modelled families (element-wise, clause chains, aggregations, set operators, temporal, joins, analytic) that the engine gets right with ordinary names is rewritten three ways - all names of a kind become case variants of ONE base name (DS_1 / ds_1, Id_1 / id_1 / ID_1, Me_1 / me_1 ...), every name gets an unusual spelling of its own (ME_2, iD_1: nothing collides), and the names CREATED by the statement (calc / aggr targets) become case variants of components the operand has - run, and each observation is validated by TLC (VTLOperators_Trace): every component keeps its own values and spelling and appears exactly where the spec says.",
         "Only generated names are varied; engine-made names (bool_var, int_var ...) are left alone. Units are classified by where two names collide when case is ignored (dataset names / components of one input / created by the statement / nowhere); on the pinned tree the first three classes fail in one specific way each (known findings, DuckDB identifiers are case-insensitive), any other failure there and every failure of the collision-free class is reported.",
         "TLC trace validation of case-variant rewritings of random units against the name-exact TLA+ semantics"),
 'C30': ('model_checking',
         "VTLConfig transcribes the documented ranges and defaults of OUTPUT_NUMBER_SIGNIFICANT_DIGITS (scale) and VTL_DUCKDB_DECIMAL_WIDTH (precision) and models storage under DECIMAL(width, scale) with schoolbook arithmetic on digit sequences (38-digit values do not fit TLC's 32-bit integers): rounding half away from zero to the scale, rejection of values needing more than width - scale integer digits, exact sums and differences. TLC (GenConfig) emits for every requested setting the documented verdict and, for accepted settings, the stored form of 11 probe values (all configured digits, one integer digit too many, half-way rounding of both signs, rounding that overflows the width, one unit in the last place ...) and exact sums / differences, and checks (a + b) - b = a on the probe set. Each setting is replayed in a FRESH interpreter with exact CSV inputs; sequences check that removing the variables restores the documented defaults.",
         "Quick tier: border values of each variable with the other unset, a grid of border pairs and seeded pairs; thorough: all 51 x 51 pairs of -5..45 plus unset. Returned doubles are compared with the exact decimal at 1e-13 relative tolerance. A scale above the width (both inside their documented ranges) is documented nowhere: only a raw error is reported there.",
         "TLC decimal-arithmetic model of the documented settings replayed into run() in fresh processes"),
 'C32': ('model_checking',
         "VTLApi obligation OutcomeAlphabet: a call ends ok or with a catalogued VTL error; a raw exception has no enabling action, so its event is rejected by VTLApi_Trace. Drivers: a runtime-hostile generator (about 230 script templates: numeric domain errors, overflows, zero divisors at dataset / component / scalar level, casts of unparsable text, regex operators with malformed patterns, substr / instr edge arguments, every time operator over periods of every indicator incl. W53 / D366 / year 9999, date arithmetic overflow, duration conversions, conditionals) x hostile value pools x the four time-period output formats x memory / csv / parquet delivery, plus random units and corpus scripts. Only calls whose script passes semantic_analysis() are judged (the property's antecedent).",
         "Inputs are generated valid for their declared structure. Raw errors raised inside semantic analysis are counted and listed in the evidence notes but not judged (outside the antecedent).",
         "TLC trace validation of call outcomes against the outcome alphabet of the API-call machine"),
 'C15': ('model_checking',
         "The specification has no notion of threads, storage or memory: one abstract step must explain EVERY observation. Random units of all modelled families are observed under the configuration grid VTL_THREADS x VTL_USE_IN_MEMORY_DB x VTL_MEMORY_LIMIT (quick: 3 configurations, thorough: 16, repeated) and each observation is validated by TLC (VTLOperators_Trace); units replicated into blocks up to 10^5 (thorough 10^6) datapoints must give equal blocks and one block is validated by TLC; corpus scripts are run under every configuration and the outcomes compared as sets (VTLOrder_Trace group agreement).",
         "Runs that do not complete under VTL_MEMORY_LIMIT=64MB are excluded as the property allows. Block replication covers operators acting within a block. TLC sees the per-block projection, not the million rows.",
         "TLC trace validation of the same abstract step under every engine configuration + block replication"),
 'C33': ('model_checking',
         "Datasets are SETS of datapoints in the specification, so one spec step must accept every physical presentation of the same input. Every random unit (element-wise, clause chains, aggregations, set operators) is observed under 6 (thorough 20-24) row and column permutations cycling through DataFrame(native dtypes), DataFrame(strings), CSV and Parquet, and every observation is validated by TLC (VTLOperators_Trace); corpus scripts (no current_date, no analytic invocation) are run with shuffled CSV rows and columns and the outcomes must agree (VTLOrder_Trace).",
         "Analytic functions with ties and current_date are excluded as the property states; analytic invocations with total orders are permuted in C06.",
         "TLC trace validation of permuted / re-encoded observations of one abstract step"),
 'C12': ('model_checking',
         "TLC explores every dependency structure on 3 (thorough: 4) statements, cycles included, under every textual order and checks Confluence and Completion of the abstract statement machine; sampled scripts are replayed under all permutations through semantic_analysis() and run(), and every group of observations is validated by VTLOrder_Trace (expected outcome from the spec: ok / 1-3-2-3 / 1-2-2, agreement of result digests); returned values are validated against the script's denotation by VTLOperators_Trace; corpus scripts are split into statements and permuted.",
         "Scripts with BOTH a cycle and a redefinition are not generated (the property does not say which error wins). Corpus statement boundaries come from the parser stand-in.",
         "TLC model checking of the statement machine + trace validation of permuted executions"),
 'C13': ('model_checking',
         "TLC checks that a transcription of DAGAnalyzer._ds_usage_analysis and of the execute_queries loop refines an abstract table store (operands materialised at execution, load at most once, release exactly once after the last reader, fetch of exactly the selected results) for EVERY script with <=3 (thorough: <=4) statements over 2 inputs; sampled scripts are run with the guarded hooks on and the recorded load/exec/fetch/release events with catalog snapshots, the real DatasetSchedule and the returned values are validated by TLC (VTLSchedule_Trace: one step per event).",
         "Events come from guarded hooks in execute_queries (MEANINGFUL_DATA_VTLENGINE_VERIF=1); reads of generated scripts are known by construction.",
         "TLC refinement check of the code transcription + trace validation of hook events"),
 'C16': ('model_checking',
         "TLC explores the session life-cycle model VTLSession (mkdir, connect, configure, body events, close, rmtree) with the environment action Fail enabled at every step over 3 consecutive runs and checks NoLeak and FailureIsolation, for the shipped protection scope and for the requirement; on the real engine every fault point (connect, configure, each load, statement, fetch and file write) of generated and corpus scripts is hit by an injected duckdb.Error/OSError, alone and in sequences of 2-3 failing runs followed by a clean run, in in-memory and file-backed mode, with csv and parquet output; after each run the harness observes the private temp directory, open connections and file descriptors and the clean run's equality with the baseline; every hook-event log is validated against VTLSession by TLC (silent steps inferred).",
         "Fault points are the guarded hooks (faults raised inside DuckDB itself are not simulated). Process-global state is judged through the following clean run's result.",
         "TLC model checking with an environment fault action + fault injection at every hook point + trace validation"),
}

NOT_APPLICABLE = []


def main():
    checks = []
    for pid in sorted(CHECKS):
        level, text, note, tech = CHECKS[pid]
        checks.append({
            'property_id': pid,
            'quick_cmd': './check %s --tier quick' % pid,
            'thorough_cmd': './check %s --tier thorough' % pid,
            'evidence_file': '/verif/evidence/%s.json' % pid,
            'replay_cmd_template': './check %s --replay {path}' % pid,
            'engine': 'tlc',
            'level_claimed': {'category': level, 'text': text, 'design_ref': 'DESIGN.md section 6, %s' % pid},
            'level_note': TRUST + note,
            'technique': tech,
        })
    hooks = []
    try:
        import subprocess
        out = subprocess.run(['git', '-C', '/repo', 'log', '--format=%H %s'], capture_output=True, text=True).stdout
        hooks = [l.split()[0] for l in out.splitlines() if 'verif hooks' in l]
    except Exception:
        pass
    m = {
        'version': 1,
        'setup_cmd': 'sh /verif/setup.sh',
        'hooks': {
            'guard': 'MEANINGFUL_DATA_VTLENGINE_VERIF',
            'enable': 'checks import vtlengine from /repo/src with MEANINGFUL_DATA_VTLENGINE_VERIF=1 (harness/engine.py); hooks live in src/vtlengine/_verif.py and are inert otherwise; the compiled parser is replaced by the stand-in in /verif/parser_shim, fed from /repo generated C++ sources at check time',
            'baseline_off_cmd': 'cd /repo && env -u MEANINGFUL_DATA_VTLENGINE_VERIF /venv/bin/python -m pytest -ra -q -p no:cacheprovider --timeout=900 --continue-on-collection-errors',
            'source_commits': hooks,
            'add_only': True,
        },
        'engines': [{'name': 'tlc', 'path': '/verif/spec', 'serves_properties': sorted(CHECKS),
                     'kind_free_text': 'explicit TLA+ specification checked with TLC; behaviours replayed into and traces validated from the real engine'}],
        'checks': checks,
        'not_applicable': NOT_APPLICABLE,
        'notes': 'See DESIGN.md. known_findings.json lists genuine defects (known / fixed).',
    }
    json.dump(m, open(os.path.join(HERE, 'MANIFEST.json'), 'w'), indent=1)
    print('MANIFEST.json: %d checks' % len(checks))


if __name__ == '__main__':
    main()
