"""The three forms of a script - text, prettified text, SDMX TransformationScheme - observed on the engine (C24, C25)."""
import hashlib
import json

from . import corpus, engine, k2, values

POS = {'line_start', 'line_stop', 'column_start', 'column_stop', 'isLast'}     # positions, and the renderer's own bookkeeping flag


def _strip(x):
    if isinstance(x, dict):
        return {k: _strip(v) for k, v in x.items() if k not in POS}
    if isinstance(x, list):
        return [_strip(v) for v in x]
    return x


def _digest(x):
    return hashlib.sha1(json.dumps(x, sort_keys=True, default=str).encode()).hexdigest()[:16]


def plain(node, seen=None):
    """AST node -> plain data without source positions (own walk: the engine's JSON encoder does not survive every tree)"""
    import enum
    seen = seen or set()
    if isinstance(node, (str, int, float, bool)) or node is None:
        return node
    if isinstance(node, enum.Enum):
        return 'enum:%s' % node.value
    if isinstance(node, type):
        return 'type:%s' % node.__name__
    if callable(node) and not hasattr(node, 'children'):
        return 'callable:%s' % getattr(node, '__name__', type(node).__name__)
    if isinstance(node, (list, tuple)):
        return [plain(x, seen) for x in node]
    if isinstance(node, dict):
        return {str(k): plain(v, seen) for k, v in sorted(node.items(), key=lambda kv: str(kv[0]))}
    if id(node) in seen:
        return 'cycle:%s' % type(node).__name__
    seen = seen | {id(node)}
    if hasattr(node, '__dict__'):
        d = {'class': type(node).__name__, **{k: plain(v, seen) for k, v in sorted(vars(node).items()) if k not in POS}}
        # an omitted option and its documented default are the same statement
        if d['class'] == 'HROperation':
            hier = d.get('op') == 'hierarchy'
            for f, dflt in (('validation_mode', 'non_null'), ('input_mode', 'rule' if hier else 'dataset'), ('output', 'computed' if hier else 'invalid')):
                if d.get(f) is None:
                    d[f] = 'enum:%s' % dflt
        if d['class'] == 'DPValidation' and d.get('output') is None:
            d['output'] = 'enum:invalid'
        return d
    return repr(node)


def _drop_key(x, key):
    if isinstance(x, dict):
        return {k: _drop_key(v, key) for k, v in x.items() if k != key}
    if isinstance(x, list):
        return [_drop_key(v, key) for v in x]
    return x


def items_of(ast):
    """AST -> the abstract items of VTLScripts (comments excluded)"""
    import vtlengine.AST as A
    out = []
    for ch in ast.children:
        if isinstance(ch, (A.Assignment, A.PersistentAssignment)):
            out.append({'kind': 'assign', 'name': ch.left.value, 'persistent': isinstance(ch, A.PersistentAssignment), 'body': _digest(plain(ch.right))})
        elif isinstance(ch, A.Comment):
            continue
        else:
            what = 'operator' if isinstance(ch, A.Operator) else 'viral' if type(ch).__name__ == 'ViralPropagationDef' else 'ruleset'
            pl = plain(ch)
            out.append({'kind': 'define', 'what': what, 'name': getattr(ch, 'op', None) or getattr(ch, 'name', ''), 'body': _digest(pl)})
            if isinstance(pl.get('rules'), list):       # the same definition with its rules as a set (used to name WHAT differs)
                out[-1]['unordered'] = _digest(dict(pl, rules=sorted(json.dumps(r, sort_keys=True, default=str) for r in pl['rules'])))
                out[-1]['nocond'] = _digest(_drop_key(pl, '_right_condition'))
    return out


def comments_of(text):
    import vtlengine.AST as A
    from vtlengine.AST.ASTComment import create_ast_with_comments
    ast = create_ast_with_comments(text)
    return [c.value.strip() for c in ast.children if isinstance(c, A.Comment)]


def results_of(fn):
    try:
        res = fn()
    except Exception as e:  # noqa
        c = k2.classify_exception(e)
        return 'error %s %s' % (c['err'], c.get('code'))
    from .variants import canon, digest
    return digest({k: canon(values.enc_result(v)) for k, v in res.items()})


def observe(arg):
    """Worker. arg: {id, case} (corpus) or {id, text, structures, datapoints-as-env}; which: subset of pretty / scheme / run"""
    engine.boot()
    from vtlengine import create_ast, generate_sdmx, prettify, run
    rec = {'id': arg['id']}
    if 'case' in arg:
        text, structures, dps, _ = corpus.load_case(arg['case'])
    else:
        text, structures, dps = arg['text'], arg.get('structures'), None
        if arg.get('env') is not None:
            structures, dps, _ = k2.build_inputs(arg['env'], native=True, form='df')
    try:
        ast0 = create_ast(text)
    except Exception as e:  # noqa
        return {'id': arg['id'], 'skip': 'original does not parse: %s' % type(e).__name__}
    rec['orig'] = items_of(ast0)
    which = arg.get('which', ['pretty', 'scheme', 'run'])
    fail = None
    pretty = scheme = None
    if 'pretty' in which:
        try:
            pretty = prettify(text)
            rec['pretty'] = items_of(create_ast(pretty))
            rec['text1'] = _digest(pretty)
            rec['text2'] = _digest(prettify(pretty))
            rec['comments0'] = comments_of(text)
            rec['comments1'] = comments_of(pretty)
        except Exception as e:  # noqa
            c = k2.classify_exception(e)
            fail = 'prettify: %s %s %s' % (c['err'], c.get('code'), c['msg'][:200])
    if 'scheme' in which and fail is None:
        try:
            scheme = generate_sdmx(text, agency_id='MD', id='TS1')
            trans = []
            for t in scheme.items:
                body = create_ast('X_ := %s;' % t.expression).children[0].right
                trans.append({'result': t.result.strip("'"), 'persistent': bool(t.is_persistent), 'body': _digest(plain(body))})
            defs = []
            for rs in (scheme.ruleset_schemes or []):
                for r_ in rs.items:
                    it = items_of(create_ast(r_.ruleset_definition))
                    defs += it
            for us in (scheme.user_defined_operator_schemes or []):
                for u in us.items:
                    defs += items_of(create_ast(u.operator_definition))
            rec['scheme'] = {'transformations': trans, 'definitions': [{k: d[k] for k in ('what', 'name', 'body', 'unordered', 'nocond') if k in d} for d in defs]}
        except Exception as e:  # noqa
            c = k2.classify_exception(e)
            fail = 'generate_sdmx: %s %s %s' % (c['err'], c.get('code'), c['msg'][:200])
    if fail:
        rec['fail'] = fail
        return rec
    if 'run' in which and structures is not None and dps is not None:
        kw = dict(data_structures=structures, datapoints=dps, return_only_persistent=False)
        rec['run0'] = results_of(lambda: run(script=text, **kw))
        if pretty is not None:
            rec['run1'] = results_of(lambda: run(script=pretty, **kw))
        if scheme is not None and any(it['kind'] == 'assign' for it in rec['orig']):     # pysdmx refuses a scheme without transformations
            rec['run2'] = results_of(lambda: run(script=scheme, **kw))
    rec['text'] = text[:400]
    return rec
