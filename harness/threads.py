"""Deterministic thread scheduler over the engine's guarded yield points (C17).

Every managed thread runs one API call; at each yield point (vtlengine._verif.yield_point) it parks and the controller
decides which parked thread continues, so exactly one managed thread runs at a time and an execution is a pure function
of the sequence of choices.  The parser lock is modelled by the controller (a thread parked at parse.enter is enabled
only while no other thread OWNS the real lock - observed at every park), so no managed thread ever blocks on a real lock."""
import threading
import traceback


class Deadlock(Exception):
    pass


class Controller:
    def __init__(self, snapshot=None):
        self.cv = threading.Condition()
        self.state = {}        # tid -> 'running' | 'parked' | 'done'
        self.point = {}        # tid -> point name where parked
        self.info = {}
        self.grant = {}        # tid -> bool
        self.owns = {}
        self.real_lock = None
        self.events = []       # (tid, point, snapshot)
        self.results = {}
        self.snapshot = snapshot
        self.names = {}
        self.last_event = {}
        self.patience = 900      # a step includes whole DuckDB executions: generous, the machine may be loaded

    # ---- called inside engine threads
    def on_yield(self, point, info):
        tid = self.names.get(threading.get_ident())
        if tid is None:
            return
        with self.cv:
            # does this thread really own the (re-entrant) parser lock now?  Observed, not assumed: a thread parked at an
            # *.enter point is enabled iff no OTHER thread owns the real lock, so a removed or narrowed lock is explored too
            self.owns[tid] = bool(self.real_lock._is_owned()) if self.real_lock is not None else False
            # the thread's own view of the shared state after its previous step (taken here, in the engine thread)
            if self.snapshot and self.last_event.get(tid) is not None:
                self.last_event[tid]['after'] = self.snapshot()
            self.state[tid] = 'parked'
            self.point[tid] = point
            self.info[tid] = info
            self.grant[tid] = False
            self.cv.notify_all()
            while not self.grant[tid]:
                self.cv.wait()
            self.state[tid] = 'running'

    def _body(self, tid, fn):
        self.names[threading.get_ident()] = tid
        self.on_yield('start', {})
        try:
            self.results[tid] = ('ok', fn())
        except BaseException as e:  # noqa
            self.results[tid] = ('err', e, traceback.format_exc())
        with self.cv:
            if self.snapshot and self.last_event.get(tid) is not None:
                self.last_event[tid]['after'] = self.snapshot()
            self.state[tid] = 'done'
            self.owns[tid] = False
            self.cv.notify_all()

    # ---- controller
    def enabled(self):
        out = []
        for tid, st in self.state.items():
            if st != 'parked':
                continue
            if self.point[tid] in ('parse.enter', 'parsec.enter') and any(o for t, o in self.owns.items() if t != tid):
                continue
            out.append(tid)
        return sorted(out)

    def run(self, calls, choose, max_steps=100000):
        """calls: {tid: callable}; choose(step, enabled [(tid, point)], last_tid) -> tid"""
        import vtlengine._verif as hooks
        from vtlengine.AST.Grammar._cpp_parser import parser_lock
        self.real_lock = parser_lock
        hooks.scheduler = self.on_yield
        threads = {}
        try:
            for tid, fn in calls.items():
                self.state[tid] = 'running'
                t = threading.Thread(target=self._body, args=(tid, fn), name='call-%s' % tid, daemon=True)
                threads[tid] = t
                t.start()
            last = None
            for step in range(max_steps):
                with self.cv:
                    waited = 0
                    while any(st == 'running' for st in self.state.values()):
                        self.cv.wait(timeout=5)
                        waited += 5
                        if waited >= self.patience and any(st == 'running' for st in self.state.values()):
                            raise Deadlock('a granted thread neither reached a yield point nor finished within %ds: %s; last steps %s' % (
                                self.patience, {t: (self.state[t], self.point.get(t)) for t in self.state}, [(e['t'], e['p']) for e in self.events[-12:]]))
                    if all(st == 'done' for st in self.state.values()):
                        break
                    en = self.enabled()
                    if not en:
                        raise Deadlock('no enabled thread: %s' % {t: (self.state[t], self.point.get(t)) for t in self.state})
                    tid = choose(step, [(t, self.point[t]) for t in en], last)
                    if tid not in en:
                        tid = en[0]
                    pt = self.point[tid]
                    self.events.append({'t': tid, 'p': pt, 'i': self.info.get(tid) or {}, 'after': None})
                    self.last_event[tid] = self.events[-1]
                    self.state[tid] = 'running'
                    self.grant[tid] = True
                    last = tid
                    self.cv.notify_all()
            for t in threads.values():
                t.join(timeout=60)
        finally:
            hooks.scheduler = None
        return self.events, self.results
