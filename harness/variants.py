"""Observation variants of one abstract step: row/column permutations, input forms, engine configurations,
block replication for large inputs.  The specification has no notion of any of these, so every variant of a
unit must be accepted by the same spec step (C15, C33)."""
import csv
import hashlib
import json
import os
import random
import shutil
import tempfile

from . import corpus, engine, k2, termgen


def digest(obj):
    return hashlib.sha1(json.dumps(obj, sort_keys=True).encode()).hexdigest()[:16]


def mixed_units(rnd, n):
    """Random units from all modelled operator families."""
    from props import c05
    a = termgen.random_units(rnd, n // 3 + 1)
    b = termgen.random_chain_units(rnd, n // 4 + 1)
    c = termgen.random_agg_units(rnd, n // 4 + 1, maxrows=40)
    d = c05.random_units(rnd, n // 6 + 1)
    e = termgen.random_temporal_units(rnd, n // 5 + 1)
    f = termgen.random_ifds_units(rnd, n // 10 + 1)
    us = a + b + c + d + e + f
    rnd.shuffle(us)
    us = us[:n]
    for i, u in enumerate(us):
        u['id'] = 'm%d' % i
    return us


def canon(enc):
    if 'rows' in enc:
        return {'comps': sorted(json.dumps(c, sort_keys=True) for c in enc['comps']),
                'rows': sorted(json.dumps(r, sort_keys=True) for r in enc['rows'])}
    return enc


def corpus_variant(arg):
    """Worker: run a corpus case with its CSV rows/columns shuffled by `seed` (None = as shipped) under `osenv`.
    Returns {'outcome': 'ok'|code, 'digest': ...}."""
    engine.boot()
    from vtlengine import run
    from . import values
    case, seed = arg['case'], arg.get('seed')
    text, structures, dps, _ = corpus.load_case(case)
    tmpd = None
    envbak = {}
    try:
        if seed is not None:
            tmpd = tempfile.mkdtemp(prefix='cv-', dir=engine.sub_dir('tmp'))
            r = random.Random(seed)
            new = {}
            for name, path in dps.items():
                with open(path, newline='', encoding='utf-8-sig') as f:
                    rows = list(csv.reader(f))
                if not rows:
                    new[name] = path
                    continue
                head, body = rows[0], rows[1:]
                order = list(range(len(head)))
                r.shuffle(order)
                r.shuffle(body)
                out = os.path.join(tmpd, os.path.basename(path))
                with open(out, 'w', newline='', encoding='utf-8') as f:
                    w = csv.writer(f)
                    w.writerow([head[i] for i in order])
                    for b in body:
                        b = b + [''] * (len(head) - len(b))
                        w.writerow([b[i] for i in order])
                new[name] = out
            dps = new
        for k, v in arg.get('osenv', {}).items():
            envbak[k] = os.environ.get(k)
            os.environ[k] = v
        res = run(script=text, data_structures=structures, datapoints=dps, return_only_persistent=False, **arg.get('kw', {}))
        enc = {k: canon(values.enc_result(v)) for k, v in res.items()}
        return {'outcome': 'ok', 'digest': digest(enc), 'n': len(enc)}
    except Exception as e:  # noqa
        c = k2.classify_exception(e)
        return {'outcome': c.get('code') or c['err'], 'digest': '', 'msg': c['msg'][:200]}
    finally:
        for k, v in envbak.items():
            if v is None:
                os.environ.pop(k, None)
            else:
                os.environ[k] = v
        if tmpd:
            shutil.rmtree(tmpd, ignore_errors=True)


def order_dependent_text(text):
    """Static filter for corpus scripts whose result VTL does not fully determine."""
    t = text.lower()
    return 'current_date' in t or ' over ' in t or 'over(' in t or 'random' in t or 'rank' in t


# ---- block replication (large inputs for C15) ----------------------------------------------------

def replicate_unit(u, blocks):
    """Same unit with every dataset replicated into `blocks` blocks distinguished by a new identifier Blk."""
    env = {}
    for n, x in u['env'].items():
        if 'comps' not in x:
            env[n] = x
            continue
        comps = [{'n': 'Blk', 'r': 'I', 't': 'Integer'}] + list(x['comps'])
        rows = []
        for b in range(blocks):
            for r in x['rows']:
                rr = dict(r)
                rr['Blk'] = [1, b]
                rows.append(rr)
        env[n] = {'comps': comps, 'rows': rows}
    v = dict(u)
    v['env'] = env
    return v


def run_replicated(arg):
    """Worker: run a replicated unit; returns the per-block projection (block 0) and whether all blocks agree."""
    engine.boot()
    u = arg
    if 'replicate' in arg:        # the replication is done here, in the worker: a million datapoints are not shipped as JSON
        u = replicate_unit({k: v for k, v in arg.items() if k != 'replicate'}, arg['replicate'])
    o = k2.run_unit(u)
    if 'rows' not in o:
        return o
    byblk = {}
    for r in o['rows']:
        b = r['Blk'][1] if r.get('Blk') and r['Blk'][0] == 1 else None
        rr = {k: v for k, v in r.items() if k != 'Blk'}
        byblk.setdefault(b, []).append(json.dumps(rr, sort_keys=True))
    digs = {b: digest(sorted(v)) for b, v in byblk.items()}
    first = sorted(byblk)[0] if byblk else None
    out = {'comps': [c for c in o['comps'] if c['n'] != 'Blk'],
           'rows': [json.loads(x) for x in byblk.get(first, [])],
           'blocks_seen': len(byblk), 'blocks_agree': len(set(digs.values())) <= 1, 'total_rows': len(o['rows']), 'text': o.get('text')}
    return out
