"""Units over datasets with viral attributes and propagation rules (C28)."""
import json

from . import gen, render, termgen

POOL = ['A', 'B', 'C']
SUPPORTED = {'var', 'const', 'un', 'in', 'fn', 'bin', 'agg', 'clause', 'set', 'join', 'an', 'hier', 'dpcheck', 'check'}


def enum_rule(rnd):
    """random enumerated rule over POOL: binary clauses, unary clauses, optional default"""
    clauses, seen = [], set()
    for _ in range(rnd.choice([0, 1, 1, 2])):
        a, b = rnd.sample(POOL, 2)
        if frozenset((a, b)) in seen:
            continue
        seen.add(frozenset((a, b)))
        clauses.append({'vals': [gen.S(a), gen.S(b)], 'res': gen.S(rnd.choice(['X', 'Y', a, b]))})
    for a in rnd.sample(POOL, rnd.choice([0, 1, 2, 3])):
        clauses.append({'vals': [gen.S(a)], 'res': gen.S(rnd.choice([a, a, 'X', 'Z']))})
    rnd.shuffle(clauses)
    if not clauses:
        clauses.append({'vals': [gen.S('A')], 'res': gen.S('A')})
    return {'kind': 'enum', 'clauses': clauses, 'default': rnd.choice([gen.S('D'), gen.NULL])}


def rule_text(name, var, rule):
    def lit(v):
        return render.const(v)
    if rule['kind'] == 'agg':
        body = '  aggregate %s' % rule['fn']
    else:
        lines = ['  when %s then %s' % (' and '.join(lit(v) for v in c['vals']), lit(c['res'])) for c in rule['clauses']]
        if rule['default'][0] != 0:
            lines.append('  else %s' % lit(rule['default']))
        body = ';\n'.join(lines)
    return 'define viral propagation %s (variable %s) is\n%s\nend viral propagation;' % (name, var, body)


def kinds(t, out):
    """dataset-level node kinds of a term (clause bodies are component expressions: not descended)"""
    if isinstance(t, dict) and 'k' in t:
        out.add((t['k'], t.get('op')))
        for f in ('x', 'l', 'r', 'ds'):
            if isinstance(t.get(f), dict):
                kinds(t[f], out)
        if t['k'] == 'fn':
            kinds(t['args'][0], out)
        if t['k'] == 'set':
            for o in t['ops']:
                kinds(o, out)
        if t['k'] == 'join':
            for o in t['ops']:
                kinds(o['t'], out)
            for b in t.get('body', []):
                out.add(('clause', b.get('op')))
    return out


def supported(t):
    ks = kinds(t, set())
    if any(k not in SUPPORTED for k, _ in ks):
        return False
    if ('clause', 'sub') in ks:
        return False
    if t.get('k') == 'join' and (t.get('using') or t.get('how') not in ('inner', 'left')):
        return False
    if t.get('k') == 'join':
        for b in t.get('body', []):
            if b.get('op') == 'aggr' or (b.get('op') == 'rename' and 'Id_' in json.dumps(b)):
                return False
    return True


def add_viral(u, rnd, i):
    """give every input dataset of a unit viral attributes with random values, and the unit its rules"""
    env = json.loads(json.dumps(u['env']))
    dss = [n for n, d in env.items() if 'comps' in d]
    if not dss:
        return None
    which = rnd.choice([['VAt_1'], ['VAt_1'], ['VAt_2'], ['VAt_1', 'VAt_2']])
    rules, types = {}, {}
    for v in which:
        if v == 'VAt_1':
            rules[v], types[v] = enum_rule(rnd), 'String'
        else:
            fn = rnd.choice(['min', 'max', 'sum', 'avg'])
            rules[v], types[v] = {'kind': 'agg', 'fn': fn}, 'Number' if fn == 'avg' else rnd.choice(['Integer', 'Number'])
    # sometimes only one operand of a binary operator / join carries the attribute
    partial = rnd.random() < 0.25 and len(dss) > 1 and u['term'].get('k') in ('bin', 'join')
    for j, n in enumerate(sorted(dss)):
        if partial and j > 0:
            continue
        d = env[n]
        for v in which:
            d['comps'].append(gen.comp(v, 'V', types[v]))
            for r in d['rows']:
                if rnd.random() < 0.2:
                    r[v] = gen.NULL
                elif types[v] == 'String':
                    r[v] = gen.S(rnd.choice(POOL))
                elif types[v] == 'Integer':
                    r[v] = gen.I(rnd.choice([0, 1, 2, 5, 7, -3]))
                else:
                    r[v] = rnd.choice([gen.I(2), gen.I(5), [2, [1, 2]], [2, [7, 4]], gen.I(-1)])
                    if r[v][0] == 1:
                        r[v] = [2, [r[v][1], 1]]
    text = '\n'.join(rule_text('VP_%d' % (k + 1), v, rules[v]) for k, v in enumerate(sorted(rules)))
    w = dict(u)
    w.update({'id': 'vp%d' % i, 'env': env, 'rules': rules, 'nopack': True, 'script': text + '\n' + render.statement('R', u['term'])})
    return w


def nested_units(rnd, n):
    """dataset-dataset operators, aggregations and set operators NESTED in one expression (the lineage of a result datapoint
    then runs through an intermediate result), equal and nested identifier sets"""
    V = gen.var
    out = []
    for i in range(n):
        two = rnd.random() < 0.6
        ids = [('Id_1', 'Integer')] + ([('Id_2', 'Integer')] if two else [])
        env = {}
        for nme in ('DS_1', 'DS_2'):
            env[nme] = gen.shuffled(rnd, gen.dataset(rnd, ids, [('Me_1', 'M', 'Integer')], rnd.choice([1, 3, 5, 8]), keyspace=3, null_p=0.15))
        env['DS_3'] = gen.shuffled(rnd, gen.dataset(rnd, ids[:1], [('Me_1', 'M', 'Integer')], rnd.choice([1, 2, 3]), keyspace=3, null_p=0.15))
        op = lambda: rnd.choice(['+', '-', '*'])
        b12 = {'k': 'bin', 'op': op(), 'l': V('DS_1'), 'r': V('DS_2')}
        un = lambda x: {'k': 'un', 'op': rnd.choice(['abs', '-']), 'x': x}
        agg = lambda x, mode, grp: {'k': 'agg', 'op': rnd.choice(['sum', 'min', 'max']), 'x': x, 'mode': mode, 'group': grp, 'having': []}
        shapes = [
            lambda: b12,
            lambda: un(b12),
            lambda: {'k': 'bin', 'op': op(), 'l': b12, 'r': gen.const(gen.I(2))},
            lambda: {'k': 'bin', 'op': op(), 'l': un(V('DS_1')), 'r': V('DS_2')},
            lambda: {'k': 'bin', 'op': op(), 'l': b12, 'r': V('DS_1')},
            lambda: {'k': 'bin', 'op': op(), 'l': V('DS_1'), 'r': V('DS_3')},
            lambda: {'k': 'bin', 'op': op(), 'l': V('DS_3'), 'r': b12},
            lambda: agg(b12, 'by', ['Id_1']),
            lambda: agg(V('DS_1'), 'by', ['Id_1']),
            lambda: un(agg(V('DS_1'), 'by', ['Id_1'])),
            lambda: agg(V('DS_1'), 'none', []),
            lambda: agg(V('DS_1'), 'except', ['Id_1']) if two else agg(V('DS_1'), 'by', ['Id_1']),
            lambda: {'k': 'set', 'op': rnd.choice(['union', 'union', 'intersect', 'setdiff', 'symdiff']), 'ops': [b12, V('DS_1')]},
            lambda: {'k': 'set', 'op': rnd.choice(['union', 'union', 'intersect', 'symdiff']), 'ops': [V('DS_2'), b12]},
            lambda: {'k': 'set', 'op': 'union', 'ops': [V('DS_1'), b12, un(V('DS_2'))]},
            lambda: {'k': 'set', 'op': 'union', 'ops': [V('DS_2'), un(V('DS_1'))]},
            lambda: {'k': 'bin', 'op': op(), 'l': agg(V('DS_1'), 'by', ['Id_1']), 'r': V('DS_3')},
            lambda: {'k': 'clause', 'op': 'filter', 'ds': b12, 'items': [{'k': 'bin', 'op': '>', 'l': V('Me_1'), 'r': gen.const(gen.I(0))}]},
        ]
        out.append({'id': 'n%d' % i, 'env': env, 'term': rnd.choice(shapes)(), 'cc': True})
    return out


def random_viral_units(rnd, n):
    from harness import variants
    from props import c05
    base = (termgen.random_units(rnd, n) + termgen.random_chain_units(rnd, n // 2) + termgen.random_agg_units(rnd, n // 2, maxrows=12)
            + c05.random_units(rnd, n // 3) + termgen.random_join_units(rnd, n // 2) + nested_units(rnd, 2 * n) + termgen.random_analytic_units(rnd, n // 2)
            + termgen.random_validation_units(rnd, n // 2))
    rnd.shuffle(base)
    out = []
    for u in base:
        if not supported(u['term']):
            continue
        if max([len(d.get('rows', [])) for d in u['env'].values()] or [0]) > 12:
            continue
        w = add_viral(u, rnd, len(out))
        if w:
            out.append(w)
        if len(out) >= n:
            break
    return out
