"""The API calls used by C17 and the exploration of their interleavings."""
import json

from . import engine, threads, values


def _ds(name, comps):
    role = {'I': 'Identifier', 'M': 'Measure', 'A': 'Attribute', 'V': 'Viral Attribute'}
    return {'name': name, 'DataStructure': [{'name': n, 'type': t, 'role': role[r], 'nullable': r != 'I'} for n, t, r in comps]}


RULE_A = 'define viral propagation VP (variable VAt_1) is when "A" then "X"; when "B" then "B"; else "D" end viral propagation;\n'
RULE_B = 'define viral propagation VP (variable VAt_1) is when "A" then "A"; when "A" and "B" then "Q"; else "E" end viral propagation;\n'
RULE_MAX = 'define viral propagation VP (variable VAt_1) is aggregate max end viral propagation;\n'


def catalogue():
    """name -> (api, kwargs-builder).  Data is built inside the call so that nothing is shared between calls."""
    import pandas as pd
    V = _ds('DS_1', [('Id_1', 'Integer', 'I'), ('Me_1', 'Number', 'M'), ('VAt_1', 'String', 'V')])
    V2 = _ds('DS_2', [('Id_1', 'Integer', 'I'), ('Me_1', 'Number', 'M'), ('VAt_1', 'String', 'V')])
    VN = _ds('DS_1', [('Id_1', 'Integer', 'I'), ('Me_1', 'Number', 'M'), ('VAt_1', 'Integer', 'V')])
    P = _ds('DS_1', [('Id_1', 'Integer', 'I'), ('Me_1', 'Time_Period', 'M')])
    N = _ds('DS_1', [('Id_1', 'Integer', 'I'), ('Me_1', 'Number', 'M')])

    def vdata():
        return {'DS_1': pd.DataFrame({'Id_1': [1, 2, 3], 'Me_1': [1.0, 2.0, 3.0], 'VAt_1': ['A', 'B', None]}),
                'DS_2': pd.DataFrame({'Id_1': [1, 2, 3], 'Me_1': [1.0, 2.0, 3.0], 'VAt_1': ['B', 'A', 'A']})}

    def pdata():
        return {'DS_1': pd.DataFrame({'Id_1': [1, 2, 3], 'Me_1': ['2020Q1', '2021M3', '2022A']})}

    def ndata():
        return {'DS_1': pd.DataFrame({'Id_1': [1, 2], 'Me_1': [1.5, 2.5]})}
    cat = {
        'run.viralA': ('run', lambda: dict(script=RULE_A + 'R := DS_1 + DS_2; S := abs(R);', data_structures={'datasets': [V, V2]}, datapoints=vdata(), return_only_persistent=False)),
        'run.viralB': ('run', lambda: dict(script=RULE_B + 'R := DS_1 + DS_2; S := abs(R);', data_structures={'datasets': [V, V2]}, datapoints=vdata(), return_only_persistent=False)),
        'run.viralMax': ('run', lambda: dict(script=RULE_MAX + 'R := DS_1 * 2;', data_structures={'datasets': [VN]},
                                              datapoints={'DS_1': pd.DataFrame({'Id_1': [1, 2, 3], 'Me_1': [1.0, 2.0, 3.0], 'VAt_1': [4, 9, None]})}, return_only_persistent=False)),
        'run.norule': ('run', lambda: dict(script='R := DS_1 + DS_2;', data_structures={'datasets': [V, V2]}, datapoints=vdata(), return_only_persistent=False)),
        'run.periodVtl': ('run', lambda: dict(script='R := DS_1; T := cast(cast("2020-M03", time_period), string);', data_structures={'datasets': [P]}, datapoints=pdata(), return_only_persistent=False)),
        'run.periodSdmx': ('run', lambda: dict(script='R := DS_1; T := cast(cast("2020-M03", time_period), string);', data_structures={'datasets': [P]}, datapoints=pdata(), return_only_persistent=False,
                                                time_period_output_format='sdmx_reporting')),
        'run.periodNatural': ('run', lambda: dict(script='R := DS_1;', data_structures={'datasets': [P]}, datapoints=pdata(), return_only_persistent=False, time_period_output_format='natural')),
        'run.plain': ('run', lambda: dict(script='A := DS_1 * 2; R := A + DS_1;', data_structures={'datasets': [N]}, datapoints=ndata(), return_only_persistent=False)),
        'run.error': ('run', lambda: dict(script='A := DS_1 * 2; R := A + DS_9;', data_structures={'datasets': [N]}, datapoints=ndata(), return_only_persistent=False)),
        'sem.viralA': ('semantic_analysis', lambda: dict(script=RULE_A + 'R := DS_1 + DS_2;', data_structures={'datasets': [V, V2]})),
        'sem.norule': ('semantic_analysis', lambda: dict(script='R := DS_1 + DS_2;', data_structures={'datasets': [V, V2]})),
        'sem.error': ('semantic_analysis', lambda: dict(script='Good := DS_1 * 2; Bad := Good[keep Me_7];', data_structures={'datasets': [N]})),
        'sem.plain': ('semantic_analysis', lambda: dict(script='R := DS_1[calc Me_2 := Me_1 * 2];', data_structures={'datasets': [N]})),
        'pretty.ok': ('prettify', lambda: dict(script='/* c */ R := DS_1 + 1; // d\nS := R[filter Me_1 > 0];')),
        'pretty.bad': ('prettify', lambda: dict(script='R := DS_1 + ;')),
        'ast.ok': ('create_ast', lambda: dict(text='R := inner_join(DS_1 as a, DS_2 as b);')),
        'ast.bad': ('create_ast', lambda: dict(text='R := := DS_1')),
    }
    return cat


def outcome(api, kw):
    """run the call and project what it returns to plain data"""
    import vtlengine
    from vtlengine.Model import Dataset, Scalar
    from . import k2
    try:
        r = getattr(vtlengine, api)(**kw)
    except Exception as e:  # noqa
        c = k2.classify_exception(e)
        return {'err': c['err'], 'code': c.get('code'), 'msg': c['msg'][:300]}
    if isinstance(r, dict):
        out = {}
        for n, v in sorted(r.items()):
            if isinstance(v, Dataset):
                comps = [[c.name, c.role.value, c.data_type.__name__] for c in v.components.values()]
                rows = None
                if v.data is not None:
                    rows = sorted(json.dumps([None if values.is_null(x) else (x.item() if hasattr(x, 'item') else x) for x in rec], default=str)
                                  for rec in v.data[sorted(v.data.columns)].itertuples(index=False, name=None))
                out[n] = {'comps': sorted(comps), 'rows': rows}
            elif isinstance(v, Scalar):
                out[n] = {'scalar': None if values.is_null(v.value) else str(v.value), 'type': v.data_type.__name__}
            else:
                out[n] = repr(v)[:200]
        return {'ok': out}
    if isinstance(r, str):
        return {'ok': r}
    from vtlengine.AST.ASTEncoders import ComplexEncoder
    return {'ok': json.dumps(r, cls=ComplexEncoder)[:5000]}


def snapshot():
    """the calling thread's view of the engine's per-call state, as the model names it (taken by the engine thread itself)"""
    import vtlengine.Exceptions as ex
    import vtlengine.ViralPropagation as vp
    from vtlengine.DataTypes.TimeHandling import TimePeriodConfig
    from vtlengine.Utils.__Virtual_Assets import VirtualCounter
    reg = getattr(vp._state, 'registry', None) if hasattr(vp, '_state') else vp._current_registry
    if hasattr(VirtualCounter, '_counts'):
        vds, vdc = getattr(VirtualCounter._counts, 'dataset_count', 0), getattr(VirtualCounter._counts, 'component_count', 0)
    else:
        vds, vdc = VirtualCounter.dataset_count, VirtualCounter.component_count
    dsout = ex.current_output() if hasattr(ex, 'current_output') else ex.dataset_output
    return {'reg': 0 if reg is None else id(reg), 'rules': [] if reg is None else sorted(reg._variable_rules),
            'tp': TimePeriodConfig._representation, 'dsout': dsout or '', 'vds': vds, 'vdc': vdc}


def execute(names, choose):
    """run the named calls (tid = position) under a scheduling policy -> (events, {tid: outcome})"""
    engine.boot()
    cat = catalogue()
    calls = {}
    for i, n in enumerate(names):
        api, mk = cat[n]
        calls['t%d' % i] = (lambda api=api, mk=mk: outcome(api, mk()))
    ctl = threads.Controller(snapshot=snapshot)
    ev, res = ctl.run(calls, choose)
    out = {}
    for tid, r in res.items():
        out[tid] = r[1] if r[0] == 'ok' else {'err': 'HARNESS', 'msg': repr(r[1]), 'tb': r[2][-600:]}
    return ev, out


def solo(name):
    ev, out = execute([name], lambda step, en, last: en[0][0])
    return [e['p'] for e in ev], out['t0']


def by_schedule(sched):
    """policy following a list of tids (then first enabled); falls back to the first enabled thread"""
    def choose(step, en, last):
        if step < len(sched):
            return sched[step]
        return en[0][0]
    return choose


def preemption_policy(switches):
    """run the current thread until its step count reaches the next switch point: switches = [(global step, tid)...]"""
    sw = dict(switches)

    def choose(step, en, last):
        ids = [t for t, _ in en]
        if step in sw and sw[step] in ids:
            return sw[step]
        if last in ids:
            return last
        return ids[0]
    return choose


VAR = {'parse': 'lock', 'parsec': 'lock', 'registry': 'reg', 'tp': 'tp', 'dsout': 'dsout', 'vc': 'vc', 'start': 'none'}


def var_of(point):
    return VAR[point.split('.')[0]]


def explore(names, bound, solo_points, limit=None):
    """All schedules of the named calls with at most `bound` preemptions (a preemption = switching away from a thread that could
    continue), pruned to switches where the preempted thread is about to touch a variable another call touches.
    Yields (schedule [tid...], events, outcomes)."""
    tids = ['t%d' % i for i in range(len(names))]
    touched = {t: {var_of(p) for p in solo_points[n]} for t, n in zip(tids, names)}
    stack = [([], 0)]
    seen = set()
    count = 0
    while stack:
        prefix, used = stack.pop()
        trace = []

        def choose(step, en, last, prefix=prefix, trace=trace):
            ids = [t for t, _ in en]
            if step < len(prefix) and prefix[step] in ids:
                c = prefix[step]
            elif last in ids:
                c = last
            else:
                c = ids[0]
            trace.append((list(en), c, last))
            return c
        ev, out = execute(names, choose)
        sched = [e['t'] for e in ev]
        key = tuple(sched)
        if key in seen:
            continue
        seen.add(key)
        count += 1
        yield sched, ev, out
        if limit and count >= limit:
            return
        # branch after the prefix
        pre = 0
        for i, (en, c, last) in enumerate(trace):
            ids = [t for t, _ in en]
            cost_here = 1 if (last in ids and c != last) else 0
            if i >= len(prefix):
                for alt, _ in en:
                    if alt == c:
                        continue
                    cost = 1 if last in ids and alt != last else 0
                    if used_upto(trace, i, prefix) + cost > bound:
                        continue
                    if cost:
                        # the preempted thread is `last`, about to execute its parked point: useful only if others touch that variable
                        pt = dict(en)[last]
                        if not any(var_of(pt) in touched[o] for o in tids if o != last):
                            continue
                    stack.append((sched[:i] + [alt], 0))
            pre += cost_here


def used_upto(trace, i, prefix):
    """preemptions in the first i steps of a trace"""
    n = 0
    for (en, c, last) in trace[:i]:
        ids = [t for t, _ in en]
        if last in ids and c != last:
            n += 1
    return n


def abstract_exec(xid, names, progs, ev):
    """recorded execution -> the JSON the trace specification reads (registry identities numbered in order of appearance)"""
    ids = {0: 0}

    def view(s):
        if s['reg'] not in ids:
            ids[s['reg']] = len(ids)
        return {'reg': ids[s['reg']], 'nrules': len(s['rules']), 'dsout': s['dsout'], 'vds': s['vds'], 'vdc': s['vdc'], 'tp': s['tp']}
    zero = {'reg': 0, 'nrules': 0, 'dsout': '', 'vds': 0, 'vdc': 0, 'tp': ''}
    events = []
    for e in ev:
        events.append({'t': e['t'], 'p': e['p'], 'v': str((e.get('i') or {}).get('value', '')), 'after': view(e['after']) if e.get('after') else zero})
    return {'id': xid, 'programs': {'t%d' % i: progs[n] for i, n in enumerate(names)}, 'events': events,
            'init': {'t%d' % i: zero for i in range(len(names))}, 'tp0': ev[0]['tp0'] if ev and 'tp0' in ev[0] else 'vtl'}


def explore_group(arg):
    """Worker: explore the schedules of one group of calls. arg: {names, bound, limit, solo: {name: outcome}, points: {name: [...]}}"""
    engine.boot()
    from vtlengine.DataTypes.TimeHandling import TimePeriodConfig
    names = arg['names']
    progs = {n: [{'p': p, 'err': (j == len(arg['points'][n]) - 1 and 'err' in arg['solo'][n])} for j, p in enumerate(arg['points'][n])] for n in names}
    bad, execs, n = [], [], 0
    gen = explore(names, arg['bound'], arg['points'], limit=arg.get('limit'))
    while True:
        tp0 = TimePeriodConfig._representation
        try:
            sched, ev, out = next(gen)
        except StopIteration:
            break
        n += 1
        if ev:
            ev[0]['tp0'] = tp0
        for i, name in enumerate(names):
            if out['t%d' % i] != arg['solo'][name]:
                bad.append({'call': name, 'others': [x for j, x in enumerate(names) if j != i], 'sched': ''.join(s[1:] for s in sched),
                            'got': json.dumps(out['t%d' % i])[:600], 'alone': json.dumps(arg['solo'][name])[:600]})
        execs.append(abstract_exec('%s#%d' % ('+'.join(names), n), names, progs, ev))
    return {'names': names, 'schedules': n, 'bad': bad, 'execs': execs}


def solo_all(arg):
    """Worker: every catalogue call alone -> {name: {points, outcome}}"""
    out = {}
    for n in arg:
        pts, o = solo(n)
        out[n] = {'points': pts, 'outcome': o}
    return out


def stress(arg):
    """Worker: real threads, no scheduler, microsecond switch interval. arg: {rounds: [[names...]], solo}"""
    import sys
    import threading
    engine.boot()
    cat = catalogue()
    sys.setswitchinterval(1e-6)
    bad = []
    for rnd_i, names in enumerate(arg['rounds']):
        res = {}
        bar = threading.Barrier(len(names))

        def body(i, n):
            api, mk = cat[n]
            kw = mk()
            bar.wait()
            res[i] = outcome(api, kw)
        ts = [threading.Thread(target=body, args=(i, n)) for i, n in enumerate(names)]
        for t in ts:
            t.start()
        for t in ts:
            t.join(timeout=300)
        for i, n in enumerate(names):
            if res.get(i) != arg['solo'][n]:
                bad.append({'call': n, 'others': [x for j, x in enumerate(names) if j != i], 'round': rnd_i, 'got': json.dumps(res.get(i))[:600], 'alone': json.dumps(arg['solo'][n])[:600]})
    return {'rounds': len(arg['rounds']), 'bad': bad}
