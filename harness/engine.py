"""Bootstrap: make /repo's vtlengine importable in this sandbox (parser stand-in), with hooks on."""
import atexit
import os
import shutil
import subprocess
import sys
import tempfile

HERE = os.path.dirname(os.path.abspath(__file__))
VERIF = os.path.dirname(HERE)
REPO = os.environ.get('VERIF_REPO', '/repo')
GUARD = 'MEANINGFUL_DATA_VTLENGINE_VERIF'

_work = None


def work_dir():
    """Per-process scratch directory (under /verif/.work, removed at exit)."""
    global _work
    if _work is None:
        base = os.environ.get('VERIF_SCRATCH') or os.path.join(VERIF, '.work')
        os.makedirs(base, exist_ok=True)
        _work = tempfile.mkdtemp(prefix='w%d-' % os.getpid(), dir=base)
        atexit.register(lambda: shutil.rmtree(_work, ignore_errors=True))
    return _work


def cleanup():
    if _work is not None:
        shutil.rmtree(_work, ignore_errors=True)
    # scratch directories of worker processes that were terminated with their pool (no atexit): w<pid>-... whose pid is gone
    base = os.environ.get('VERIF_SCRATCH') or os.path.join(VERIF, '.work')
    try:
        for d in os.listdir(base):
            if not d.startswith('w') or '-' not in d:
                continue
            try:
                pid = int(d[1:].split('-', 1)[0])
            except ValueError:
                continue
            if not os.path.exists('/proc/%d' % pid):
                shutil.rmtree(os.path.join(base, d), ignore_errors=True)
    except OSError:
        pass


def sub_dir(name):
    d = os.path.join(work_dir(), name)
    os.makedirs(d, exist_ok=True)
    return d


def ensure_parser_built():
    cls = os.path.join(VERIF, 'build', 'parser', 'VtlParseServer.class')
    src = os.path.join(VERIF, 'parser_shim', 'VtlParseServer.java')
    if not os.path.exists(cls) or os.path.getmtime(cls) < os.path.getmtime(src):
        from . import vtl_cpp_parser_shim as shim
        os.makedirs(os.path.dirname(cls), exist_ok=True)
        subprocess.check_call(['javac', '-cp', shim._jar(), '-d', os.path.dirname(cls), src])


_booted = False


def grammar_dir():
    """Extract the grammar data from the repository working tree (once per process; children of a
    check inherit it through VERIF_GRAMMAR_DIR)."""
    g = os.environ.get('VERIF_GRAMMAR_DIR')
    if g and os.path.exists(os.path.join(g, 'grammar.json')):
        return g
    sys.path.insert(0, os.path.join(VERIF, 'parser_shim'))
    import extract
    g = sub_dir('grammar')
    res = extract.extract(os.path.join(REPO, 'src/vtlengine/AST/Grammar/_cpp_parser'))
    if res['missing_labelled']:
        raise RuntimeError('parser extraction incomplete: %r' % res['missing_labelled'])
    extract.write(res, g)
    os.environ['VERIF_GRAMMAR_DIR'] = g
    return g


def boot(hooks=True):
    """Install the parser stand-in and import vtlengine from the working tree."""
    global _booted
    if _booted:
        import vtlengine
        return vtlengine
    if hooks:
        os.environ[GUARD] = '1'
    os.environ.setdefault('PYTHONHASHSEED', '0')
    ensure_parser_built()
    from . import vtl_cpp_parser_shim as shim
    shim.configure(grammar_dir())
    shim.install()
    src = os.path.join(REPO, 'src')
    if src not in sys.path:
        sys.path.insert(0, src)
    import vtlengine
    if not os.path.abspath(vtlengine.__file__).startswith(os.path.abspath(src)):
        raise RuntimeError('vtlengine imported from %s, not from %s' % (vtlengine.__file__, src))
    _booted = True
    atexit.register(_shutdown)
    return vtlengine


def _shutdown():
    from . import vtl_cpp_parser_shim as shim
    if shim._srv is not None:
        shim._srv.close()
