"""Multi-statement scripts whose dependencies run through CLAUSE BODIES: scalars defined by top-level statements
and referenced inside calc / filter clauses of several dataset statements (the DAG analyser discovers these
dependencies on a different path than plain dataset operands).  Used by C12 and C13.

script = {'stmts': [{'name': 'S_i', 'reads': [...], 'text': 'S_i := ...;', 'pers': bool, 'scalar': bool}], 'inputs': ['In_1', ...],
          'terms': {'S_i': spec term of a dataset statement, with everything inlined down to the inputs}}
"""
from .gen import I, const, var


def _scalar_term(stmts, name):
    s = stmts[name]
    t = const(I(s['k']))
    for r in s['reads']:
        t = {'k': 'bin', 'op': '+', 'l': t, 'r': _scalar_term(stmts, r)}
    return t


def _ds_term(stmts, name):
    if name not in stmts:
        return var(name)
    s = stmts[name]
    ds = [r for r in s['reads'] if not (r in stmts and stmts[r]['scalar'])]
    t = _ds_term(stmts, ds[0])
    for r in ds[1:]:
        t = {'k': 'bin', 'op': '+', 'l': t, 'r': _ds_term(stmts, r)}
    ks = [r for r in s['reads'] if r in stmts and stmts[r]['scalar']]
    if not ks:
        return t
    if s['clause'] == 'calc':
        e = var('Me_1')
        for j, k in enumerate(ks):
            e = {'k': 'bin', 'op': '*' if j == 0 else '+', 'l': e, 'r': _scalar_term(stmts, k)}
        return {'k': 'clause', 'op': 'calc', 'ds': t, 'items': [{'name': 'Me_1', 'role': 'M', 'expr': e}]}
    cond = {'k': 'bin', 'op': '>', 'l': {'k': 'bin', 'op': '*', 'l': var('Me_1'), 'r': const(I(2))}, 'r': _scalar_term(stmts, ks[0])}
    for k in ks[1:]:
        cond = {'k': 'bin', 'op': 'and', 'l': cond, 'r': {'k': 'bin', 'op': '>', 'l': {'k': 'bin', 'op': '+', 'l': _scalar_term(stmts, k), 'r': const(I(100000))}, 'r': var('Me_1')}}
    return {'k': 'clause', 'op': 'filter', 'ds': t, 'items': [cond]}


def _text(s, stmts):
    if s['scalar']:
        return '%s := %s;' % (s['name'], ' + '.join([str(s['k'])] + list(s['reads'])))
    ds = [r for r in s['reads'] if not (r in stmts and stmts[r]['scalar'])]
    ks = [r for r in s['reads'] if r in stmts and stmts[r]['scalar']]
    base = ' + '.join(ds)
    if ks:
        if s['clause'] == 'calc':
            e = 'Me_1'
            for j, k in enumerate(ks):
                e = '%s %s %s' % (e, '*' if j == 0 else '+', k)
            base = ('(%s)' % base if len(ds) > 1 else base) + '[calc Me_1 := %s]' % e
        else:
            c = 'Me_1 * 2 > %s' % ks[0]
            for k in ks[1:]:
                c += ' and %s + 100000 > Me_1' % k
            base = ('(%s)' % base if len(ds) > 1 else base) + '[filter %s]' % c
    return '%s %s %s;' % (s['name'], '<-' if s['pers'] else ':=', base)


def generate(rnd, count, max_stmts=5):
    out = []
    for _ in range(count):
        n = rnd.randrange(3, max_stmts + 1)
        nsc = rnd.randrange(1, min(3, n - 1) + 1)
        names = ['S_%d' % (i + 1) for i in range(n)]
        rnd.shuffle(names)
        scal, dsn = names[:nsc], names[nsc:]
        stmts = {}
        for j, nm in enumerate(scal):
            reads = [x for x in scal[:j] if rnd.random() < 0.4]
            stmts[nm] = {'name': nm, 'scalar': True, 'k': rnd.choice([2, 3, 5, 7]), 'reads': reads, 'pers': False}
        for j, nm in enumerate(dsn):
            cand = ['In_1', 'In_2'] + dsn[:j]
            ds = sorted(set(rnd.sample(cand, rnd.randrange(1, min(3, len(cand)) + 1))))
            # most dataset statements use scalars in a clause; the same scalar is used by several statements
            ks = [x for x in scal if rnd.random() < 0.7]
            rnd.shuffle(ks)
            stmts[nm] = {'name': nm, 'scalar': False, 'reads': ds + ks, 'clause': rnd.choice(['calc', 'calc', 'filter']), 'pers': rnd.random() < 0.5}
        for s in stmts.values():
            s['text'] = _text(s, stmts)
        order = sorted(stmts, key=lambda x: int(x.split('_')[1]))
        out.append({'stmts': [stmts[nm] for nm in order],
                    'inputs': sorted({r for s in stmts.values() for r in s['reads'] if r.startswith('In_')}),
                    'terms': {nm: _ds_term(stmts, nm) for nm in dsn}})
    return out
