"""Worker process: reads JSON lines {"fn": "module:function", "arg": ...} on stdin, answers one JSON line each.
Engine output on stdout is redirected to stderr so the protocol stream stays clean."""
import importlib
import json
import os
import sys
import traceback


def main():
    proto = os.fdopen(os.dup(1), 'w')
    os.dup2(2, 1)
    sys.stdout = sys.stderr
    sys.path.insert(0, os.path.dirname(os.path.dirname(os.path.abspath(__file__))))
    cpu = os.environ.get('VERIF_WORKER_CPU')
    if cpu:
        try:
            os.sched_setaffinity(0, {int(cpu)})
        except Exception:
            pass
    cache = {}
    for line in sys.stdin:
        if not line.strip():
            continue
        req = json.loads(line)
        try:
            fn = cache.get(req['fn'])
            if fn is None:
                m, f = req['fn'].split(':')
                fn = getattr(importlib.import_module(m), f)
                cache[req['fn']] = fn
            res = {'ok': fn(req['arg'])}
        except BaseException as e:  # noqa
            res = {'fail': repr(e), 'tb': traceback.format_exc()[-3000:]}
        proto.write(json.dumps(res) + '\n')
        proto.flush()


if __name__ == '__main__':
    main()
