"""Execution of spec-level units against the real engine and validation of the observations by TLC.

unit = {"id": str, "env": {name: dataset|scalar}, "term": term, "cc": bool, ...options}
"""
import json
import os
import sys
import traceback

from . import engine, render, tlc, values

_pool = None


class Workers:
    """N engine worker subprocesses (harness/worker.py), JSON lines over pipes."""

    def __init__(self, n):
        import subprocess
        import threading
        engine.grammar_dir()
        engine.ensure_parser_built()
        env = dict(os.environ)
        env['PYTHONPATH'] = engine.VERIF + os.pathsep + env.get('PYTHONPATH', '')
        env[engine.GUARD] = '1'
        self.lock = threading.Lock()
        cpus = sorted(os.sched_getaffinity(0))
        self.procs = []
        for i in range(n):
            e = dict(env)
            if os.environ.get('VERIF_PIN', '1') == '1':
                e['VERIF_WORKER_CPU'] = str(cpus[i % len(cpus)])
            self.procs.append(subprocess.Popen([sys.executable, '-m', 'harness.worker'], stdin=subprocess.PIPE,
                                               stdout=subprocess.PIPE, stderr=subprocess.DEVNULL, env=e, text=True,
                                               cwd=engine.VERIF))

    def map(self, fn, args):
        import threading
        n = len(self.procs)
        out = [None] * len(args)
        errs = []
        idx = iter(range(len(args)))
        ilock = threading.Lock()

        def feed(p):
            while True:
                with ilock:
                    i = next(idx, None)
                if i is None:
                    return
                try:
                    p.stdin.write(json.dumps({'fn': fn, 'arg': args[i]}) + '\n')
                    p.stdin.flush()
                    line = p.stdout.readline()
                    if not line:
                        raise RuntimeError('worker died')
                    r = json.loads(line)
                except Exception as e:  # noqa
                    errs.append('worker failure on item %d: %r' % (i, e))
                    return
                if 'fail' in r:
                    errs.append('item %d: %s\n%s' % (i, r['fail'], r.get('tb', '')))
                    out[i] = None
                else:
                    out[i] = r['ok']
        with self.lock:
            ts = [threading.Thread(target=feed, args=(p,)) for p in self.procs[:max(1, min(n, len(args)))]]
            for t in ts:
                t.start()
            for t in ts:
                t.join()
        if errs:
            raise RuntimeError('machinery: ' + errs[0])
        return out

    def close(self):
        for p in self.procs:
            try:
                p.stdin.close()
            except Exception:
                pass
        for p in self.procs:
            try:
                p.wait(timeout=5)
            except Exception:
                p.kill()


def pool(n=None):
    global _pool
    if _pool is None:
        n = n or int(os.environ.get('VERIF_PROCS', '14'))
        _pool = Workers(n)
        import atexit
        atexit.register(close_pool)
    return _pool


def close_pool():
    global _pool
    if _pool is not None:
        _pool.close()
        _pool = None


def pmap(fn, args, procs=None):
    """Run `module:function` over args in the engine worker processes."""
    return pool(procs).map(fn, args)


def classify_exception(e):
    from vtlengine.Exceptions import VTLEngineException
    cls = type(e).__name__
    if isinstance(e, VTLEngineException):
        code = e.args[1] if len(e.args) > 1 else None
        return {'err': cls, 'code': code, 'msg': str(e.args[0])[:300] if e.args else ''}
    return {'err': 'RAW:' + type(e).__module__ + '.' + cls, 'msg': str(e)[:300],
            'tb': traceback.format_exc()[-1500:]}


def _permuted(ds, seed):
    """rows and columns of a spec dataset permuted deterministically by seed (None = as given)."""
    if seed is None:
        return ds
    import random
    r = random.Random(seed)
    comps, rows = list(ds['comps']), list(ds['rows'])
    r.shuffle(comps)
    r.shuffle(rows)
    return {'comps': comps, 'rows': rows}


def _csv_text(ds):
    import csv
    import io
    out = io.StringIO()

    class _Q(str):
        pass
    w = csv.writer(out, lineterminator='\n', quoting=csv.QUOTE_NONNUMERIC)
    cols = [c['n'] for c in ds['comps']]
    out.write(','.join('"' + c.replace('"', '""') + '"' for c in cols) + '\n')
    for r in ds['rows']:
        row = []
        for c in ds['comps']:
            v = values.dec(r[c['n']])
            if v is None:
                row.append(None)
            elif isinstance(v, bool):
                row.append('true' if v else 'false')
            elif isinstance(v, float):
                row.append(repr(v))
            else:
                row.append(str(v))
        # nulls are empty unquoted fields, every non-null value is quoted (so "" denotes the empty string)
        out.write(','.join('' if x is None else '"' + x.replace('"', '""') + '"' for x in row) + '\n')
    return out.getvalue()


def build_inputs(env, native=True, form='df', perm=None, tmpdir=None):
    """spec environment -> (data_structures, datapoints, scalar_values).
    form: 'df' (pandas, native or string dtypes), 'csv', 'parquet'; perm: seed permuting rows and columns."""
    datasets, scalars, dps, svals = [], [], {}, {}
    k = 0
    for n, x in env.items():
        if 'comps' in x:
            datasets.append(values.structure_json(n, x['comps']))
            k += 1
            y = _permuted(x, None if perm is None else perm * 31 + k)
            if form == 'df':
                dps[n] = values.dataframe(y, native=native)
            elif form == 'csv':
                path = os.path.join(tmpdir, n + '.csv')
                with open(path, 'w', encoding='utf-8', newline='') as f:
                    f.write(_csv_text(y))
                dps[n] = path
            elif form == 'parquet':
                path = os.path.join(tmpdir, n + '.parquet')
                values.dataframe(y, native=True).to_parquet(path, index=False)
                dps[n] = path
            else:
                raise ValueError(form)
        elif 'set' in x:
            continue                # a value domain: value_domains(env)
        else:
            scalars.append({'name': n, 'type': x['t']})
            svals[n] = values.dec(x['v'])
    ds = {'datasets': datasets}
    if scalars:
        ds['scalars'] = scalars
    return ds, dps, svals


def value_domains(env):
    """value domains of a spec environment in the form run(value_domains=...) takes"""
    out = [{'name': n, 'type': x['t'], 'setlist': [values.dec(v) for v in x['set']]} for n, x in env.items() if 'set' in x]
    return out or None


def run_unit(u):
    """Run one unit: R := term over env.  Returns the observation."""
    engine.boot()
    from vtlengine import run
    try:
        text = u.get('script') or render.statement('R', u['term'])
    except Exception as e:  # renderer failure = machinery
        return {'machinery': 'render: %r' % e}
    tmpd = None
    if u.get('form', 'df') != 'df':
        import tempfile
        tmpd = tempfile.mkdtemp(prefix='in-', dir=engine.sub_dir('tmp'))
    ds, dps, svals = build_inputs(u['env'], native=u.get('native', True), form=u.get('form', 'df'), perm=u.get('perm'), tmpdir=tmpd)
    kw = dict(u.get('kw', {}))
    envbak = {}
    for k, v in u.get('osenv', {}).items():
        envbak[k] = os.environ.get(k)
        os.environ[k] = v
    try:
        script = text
        if u.get('via') == 'prettify':        # C24: the statement goes through prettify() first
            from vtlengine import prettify
            script = text = prettify(text)
        elif u.get('via') == 'sdmx':          # C25: ... through generate_sdmx(); the TransformationScheme is what is run
            from vtlengine import generate_sdmx
            script = generate_sdmx(text, agency_id='MD', id='TS1')
        vds = value_domains(u['env'])
        if vds:
            kw['value_domains'] = vds
        r = run(script=script, data_structures=ds, datapoints=dps, scalar_values=svals or None,
                return_only_persistent=False, **kw)
        res = r[u.get('result', 'R')]
        obs = values.enc_result(res)
    except Exception as e:
        obs = classify_exception(e)
    finally:
        for k, v in envbak.items():
            if v is None:
                os.environ.pop(k, None)
            else:
                os.environ[k] = v
        if tmpd:
            import shutil
            shutil.rmtree(tmpd, ignore_errors=True)
    obs['text'] = text
    return obs


def rename_term(t, m):
    """Rename dataset/scalar names (keys of m) inside a term."""
    if isinstance(t, dict):
        if t.get('k') == 'var' and t['name'] in m:
            return {'k': 'var', 'name': m[t['name']]}
        return {k: rename_term(v, m) for k, v in t.items()}
    if isinstance(t, list):
        return [rename_term(x, m) for x in t]
    return t


def run_pack(units):
    """Run several independent units as ONE script (amortises session set-up); a failing pack is
    bisected so that units that raise are isolated and observed alone."""
    if len(units) == 1:
        return [run_unit(units[0])]
    engine.boot()
    from vtlengine import run
    env, lines, texts = {}, [], []
    for i, u in enumerate(units):
        m = {n: 'u%d_%s' % (i, n) for n in u['env']}
        for n, x in u['env'].items():
            env[m[n]] = x
        try:
            tx = render.expr(rename_term(u['term'], m))
        except Exception as e:  # noqa
            return [{'machinery': 'render: %r' % e}] * len(units)
        texts.append('R := %s;' % render.expr(u['term']))
        lines.append('u%d_R := %s;' % (i, tx))
    u0 = units[0]
    tmpd = None
    if u0.get('form', 'df') != 'df':
        import tempfile
        tmpd = tempfile.mkdtemp(prefix='in-', dir=engine.sub_dir('tmp'))
    ds, dps, svals = build_inputs(env, native=u0.get('native', True), form=u0.get('form', 'df'), perm=u0.get('perm'), tmpdir=tmpd)
    envbak = {}
    for k, v in u0.get('osenv', {}).items():
        envbak[k] = os.environ.get(k)
        os.environ[k] = v
    try:
        r = run(script='\n'.join(lines), data_structures=ds, datapoints=dps, scalar_values=svals or None,
                return_only_persistent=False, **dict(u0.get('kw', {})))
        out = []
        for i in range(len(units)):
            o = values.enc_result(r['u%d_R' % i])
            o['text'] = texts[i]
            o['packed'] = len(units)
            out.append(o)
        return out
    except Exception:
        pass
    finally:
        for k, v in envbak.items():
            if v is None:
                os.environ.pop(k, None)
            else:
                os.environ[k] = v
        if tmpd:
            import shutil
            shutil.rmtree(tmpd, ignore_errors=True)
    h = len(units) // 2
    return run_pack(units[:h]) + run_pack(units[h:])


def execute(units, procs=None, pack=20):
    """Observe every unit on the real engine.  Units with equal options are packed `pack` to a run."""
    if pack <= 1:
        if len(units) <= 4:
            return [run_unit(u) for u in units]
        return pmap('harness.k2:run_unit', units, procs)
    groups = {}
    for i, u in enumerate(units):
        if u.get('script') or u.get('nopack'):
            key = ('solo', i)
        else:
            key = json.dumps([u.get('kw', {}), u.get('osenv', {}), u.get('native', True), u.get('form', 'df'), u.get('perm')], sort_keys=True)
        groups.setdefault(key, []).append(i)
    packs = []
    for key, idxs in groups.items():
        for a in range(0, len(idxs), pack):
            packs.append(idxs[a:a + pack])
    if len(packs) <= 2:
        res = [run_pack([units[i] for i in p]) for p in packs]
    else:
        res = pmap('harness.k2:run_pack', [[units[i] for i in p] for p in packs], procs)
    out = [None] * len(units)
    for p, rs in zip(packs, res):
        for i, o in zip(p, rs):
            out[i] = o
    return out


def _strip_obs(o):
    return {k: v for k, v in o.items() if k in ('comps', 'rows', 'v', 't', 'err')}


def validate(units, obs, module='VTLOperators_Trace', cfg='VTLOperators_Trace.cfg', workers=16):
    """Ask TLC for a verdict on every (unit, observation).  Returns list of dict(ok, why, exp)."""
    trace = []
    for u, o in zip(units, obs):
        trace.append({'id': u['id'], 'env': u['env'], 'term': u['term'], 'obs': _strip_obs(o), 'cc': bool(u.get('cc', True))})
        if 'rules' in u:
            trace[-1]['rules'] = u['rules']
    return _validate_batch(trace, module, cfg, workers, {u['id']: o for u, o in zip(units, obs)})


def _validate_batch(trace, module, cfg, workers, full=None):
    if not trace:
        return [], 0, 0
    path = os.path.join(engine.sub_dir('traces'), 'ops-%d-%d.json' % (os.getpid(), id(trace) % 10**6))
    with open(path, 'w') as f:
        json.dump(trace, f)
    r = tlc.run(module, cfg, env={'TRACE_FILE': path}, workers=workers)
    os.unlink(path)
    if not r.ok:
        if 'Overflow when computing' in r.output and len(trace) > 1:
            h = len(trace) // 2
            a, s1, t1 = _validate_batch(trace[:h], module, cfg, workers, full)
            b, s2, t2 = _validate_batch(trace[h:], module, cfg, workers, full)
            return a + b, s1 + s2, t1 + t2
        if 'Overflow when computing' in r.output:
            return [{'id': trace[0]['id'], 'ok': None, 'why': 'overflow in 32-bit TLC arithmetic (unit skipped)'}], 0, 0
        errs = [l for l in r.output.splitlines() if 'Error' in l or 'rror:' in l or 'Attempted' in l or 'was evaluating' in l]
        raise tlc.TLCError('trace validation failed:\n' + '\n'.join(errs[:12]) + '\n...\n' + '\n'.join(r.output.splitlines()[-30:]))
    byid = {}
    for line in r.lines:
        v = json.loads(line)
        byid[v['id']] = v
    out = []
    for t in trace:
        v = byid.get(t['id'])
        if v is None:
            raise tlc.TLCError('no verdict for unit %s' % t['id'])
        if v['ok']:
            out.append({'id': t['id'], 'ok': True, 'why': '', 'by': 'tlc-exact'})
        elif isinstance(v.get('exp'), dict) and v['exp'].get('err') == 'undetermined':
            out.append({'id': t['id'], 'ok': None, 'why': 'undetermined by VTL (not judged)'})
        else:
            # the observation as recorded (with the engine's message), not the stripped form TLC was given
            ok, why = values.result_close(v['exp'], (full or {}).get(t['id'], t['obs']), t['cc'])
            out.append({'id': t['id'], 'ok': ok, 'why': why, 'exp': v['exp'], 'by': 'tlc-expected+tolerance'})
    return out, r.states, r.generated
