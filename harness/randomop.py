"""random(seed, index): observation of the points (seed, index, value) a script reveals, for VTLRandom_Trace.
A unit is one script with several statements over one dataset, run `runs` times; the points of all statements and
runs form ONE trace, so a value depending on the row, the statement, the run or the way the seed is written is
rejected by the clause Function."""
import json
import os
from fractions import Fraction

from . import engine, gen, k2, tlc, values
from .gen import I, N, NULL


def make_units(rnd, n):
    units = []
    for i in range(n):
        nrows = rnd.choice([1, 3, 6, 10])
        pool_n = [N(rnd.choice([-7, -1, 0, 1, 2, 5, 25, 1001]), rnd.choice([1, 1, 2, 4])) for _ in range(3)]
        pool_i = [I(rnd.choice([-9, -1, 0, 1, 2, 7, 100, 123456])) for _ in range(3)]
        rows = []
        for r in range(nrows):
            rows.append({'Id_1': I(r), 'Me_1': NULL if rnd.random() < 0.2 else rnd.choice(pool_n), 'Me_2': NULL if rnd.random() < 0.2 else rnd.choice(pool_i)})
        ds = {'comps': [{'n': 'Id_1', 'r': 'I', 't': 'Integer'}, {'n': 'Me_1', 'r': 'M', 't': 'Number'}, {'n': 'Me_2', 'r': 'M', 't': 'Integer'}], 'rows': rows}
        k1, k2_ = rnd.sample([0, 1, 2, 3, 10, 999], 2)
        lit_n, lit_i = rnd.choice(pool_n), rnd.choice(pool_i)
        units.append({'id': 'rn%d' % i, 'env': {'DS_1': ds}, 'k1': k1, 'k2': k2_, 'lit_n': lit_n, 'lit_i': lit_i, 'runs': 2,
                      'nop': rnd.choice(['+ 0.0', '* 1.0', '/ 1.0', '- 0']), 'iop': rnd.choice(['+ 0', '* 1', '- 0']),
                      'forms': sorted(rnd.sample(['expression', 'literal', 'dataset', 'second'], rnd.choice([1, 2, 3, 4])))})
    return units


def script(u):
    from . import render
    k1, k2_ = u['k1'], u['k2']
    st = ['A := DS_1[calc x := random(Me_1, %d), y := random(Me_2, %d), z := random(Me_1, %d)];' % (k1, k1, k2_)]
    if 'second' in u['forms']:       # the same seeds and index in another statement
        st.append('B := DS_1[calc x := random(Me_1, %d), y := random(Me_2, %d)];' % (k1, k1))
    if 'dataset' in u['forms']:      # dataset level: every measure is a seed
        st.append('C := random(DS_1, %d);' % k1)
    if 'expression' in u['forms']:   # the same seed VALUES, computed
        st.append('D := DS_1[calc x := random(Me_1 %s, %d), y := random(Me_2 %s, %d)];' % (u['nop'], k1, u['iop'], k1))
    if 'literal' in u['forms']:      # the same seed VALUES, written as constants
        st.append('E := DS_1[calc x := random(%s, %d), y := random(%s, %d)];' % (render.const(u['lit_n']), k1, render.const(u['lit_i']), k1))
    return '\n'.join(st)


def _v(x):
    if x is None or x != x:
        return NULL
    return I(int(round(float(x) * 10**9)))


def observe(u):
    """Worker: -> {'pts': [...]} or {'err':..}"""
    engine.boot()
    from vtlengine import run
    text = script(u)
    ds, dps, svals = k2.build_inputs(u['env'])
    pts = []
    seeds = {r['Id_1'][1]: r for r in u['env']['DS_1']['rows']}
    try:
        for rno in range(u['runs']):
            res = run(script=text, data_structures=ds, datapoints={k: v.copy() for k, v in dps.items()}, return_only_persistent=False)
            for name in sorted(res):
                tb = res[name].data
                for _, row in tb.iterrows():
                    s = seeds[int(row['Id_1'])]
                    def pt(t, seed, idx, col, src):
                        x = row[col]
                        import pandas as pd
                        pts.append({'t': t, 'seed': seed, 'idx': I(idx), 'v': _v(None if pd.isna(x) else x), 'src': src, 'st': name, 'run': rno})
                    if name in ('A', 'B'):
                        pt('Number', s['Me_1'], u['k1'], 'x', 'column')
                        pt('Integer', s['Me_2'], u['k1'], 'y', 'column')
                        if name == 'A':
                            pt('Number', s['Me_1'], u['k2'], 'z', 'column')
                    elif name == 'C':
                        pt('Number', s['Me_1'], u['k1'], 'Me_1', 'dataset')
                        pt('Integer', s['Me_2'], u['k1'], 'Me_2', 'dataset')
                    elif name == 'D':
                        pt('Number', s['Me_1'], u['k1'], 'x', 'expression(%s)' % u['nop'].split()[0])
                        pt('Integer', s['Me_2'], u['k1'], 'y', 'expression(%s)' % u['iop'].split()[0])
                    elif name == 'E':
                        pt('Number', u['lit_n'], u['k1'], 'x', 'literal')
                        pt('Integer', u['lit_i'], u['k1'], 'y', 'literal')
    except Exception as e:  # noqa
        c = k2.classify_exception(e)
        c['text'] = text
        return c
    return {'pts': pts, 'text': text}


def validate(traces):
    """traces: [{'id', 'pts'}] -> {id: verdict}, states, transitions"""
    if not traces:
        return {}, 0, 0
    path = os.path.join(engine.sub_dir('traces'), 'rnd-%d.json' % os.getpid())
    with open(path, 'w') as f:
        json.dump([{'id': t['id'], 'pts': [{k: p[k] for k in ('t', 'seed', 'idx', 'v', 'src')} for p in t['pts']]} for t in traces], f)
    r = tlc.run('VTLRandom_Trace', 'VTLRandom_Trace.cfg', env={'TRACE_FILE': path}, workers=8)
    os.unlink(path)
    tlc.must(r, 'VTLRandom_Trace')
    out = {}
    for line in r.lines:
        v = json.loads(line)
        out[v['id']] = v
    return out, r.states, r.generated
