"""Parse histories for C23: texts (corpus, grammar-aware mutations, random bytes, deep nesting) parsed in sequences."""
import hashlib
import json
import random
import re

from . import engine, k2

TOKEN = re.compile(r'"[^"]*"|/\*.*?\*/|//[^\n]*|[A-Za-z_][A-Za-z0-9_.]*|\d+(?:\.\d+)?|:=|<-|<>|<=|>=|\|\||[^\sA-Za-z0-9_]', re.S)
WORDS = ['if', 'then', 'else', 'and', 'or', 'not', 'in', 'join', 'inner_join', 'calc', 'filter', 'keep', 'drop', 'rename', 'to', 'as', 'group', 'by', 'having', 'define', 'operator', 'end',
         'null', 'true', ':=', '<-', '(', ')', '[', ']', '{', '}', ',', ';', '#', '+', '*', '"x', "'", '/*', '*/', '//', 'cast', 'over', 'partition', 'between', 'returns', 'is']


def mutate(text, rnd):
    toks = TOKEN.findall(text)
    if not toks:
        return text + ';'
    k = rnd.randrange(9)
    i = rnd.randrange(len(toks))
    if k == 0:
        del toks[i]
    elif k == 1:
        toks.insert(i, toks[i])
    elif k == 2 and len(toks) > 1:
        j = min(len(toks) - 1, i + 1)
        toks[i], toks[j] = toks[j], toks[i]
    elif k == 3:
        toks[i] = rnd.choice(WORDS)
    elif k == 4:
        toks.insert(i, rnd.choice(['(', ')', '[', ']', '{', '}']))
    elif k == 5:
        toks = toks[:i]
    elif k == 6:
        toks = [t for t in toks if t != ';']
    elif k == 7:
        toks.insert(i, rnd.choice(WORDS))
    else:
        toks[i] = toks[i][:max(0, len(toks[i]) - 1)] or '?'
    return ' '.join(toks)


def random_text(rnd):
    k = rnd.randrange(6)
    n = rnd.choice([0, 1, 2, 7, 40, 300])
    if k == 0:
        return bytes(rnd.randrange(256) for _ in range(n)).decode('latin-1')
    if k == 1:
        return bytes(rnd.randrange(256) for _ in range(n)).decode('utf-8', errors='replace')
    if k == 2:
        return ''.join(rnd.choice(['\x00', '\n', '\r', '\t', ' ', ' ', ' ', '﻿', '"', "'", ';', 'é', '漢', '😀', ':=']) for _ in range(n))
    if k == 3:
        return ' '.join(rnd.choice(WORDS) for _ in range(n))
    if k == 4:
        return 'R := DS_1' + ''.join(rnd.choice([' + ', ' * ', ' - ']) + rnd.choice(['DS_1', '1', '(2)', 'x.y']) for _ in range(n)) + rnd.choice([';', '', ';;'])
    return rnd.choice(['', ' ', '\n', ';', ';;', 'R', 'R :=', 'R := ;', ':= DS_1;', 'R := "unterminated', 'R := /* open comment', "R := 'open quote", 'R := DS_1 # ;', 'R := DS_1[;'])


def deep_texts():
    out = []
    for n in (5, 50, 200, 600):
        out.append('R := %sDS_1%s;' % ('(' * n, ')' * n))
        out.append('R := %sDS_1%s;' % ('abs(' * n, ')' * n))
        out.append('R := %s;' % ' + '.join(['DS_1'] * (n + 1)))
        out.append('R := %sDS_1%s;' % ('(' * n, ')' * (n - 1)))
        out.append('R := DS_1%s;' % ('[filter Me_1 > 0]' * n))
        out.append('R := %s DS_1 %s;' % ('if true then (' * min(n, 200), ') else DS_1' * min(n, 200)))
    return out


def parse_history(arg):
    """Worker: parse the texts of arg['texts'] in order with create_ast -> one outcome per text"""
    engine.boot()
    from vtlengine import create_ast
    from vtlengine.Exceptions import VTLEngineException
    from . import textforms
    out = []
    from vtlengine import prettify
    for item in arg['texts']:
        op, t = ('create_ast', item) if isinstance(item, str) else (item[0], item[1])
        try:
            if op == 'prettify':       # the other entry point of the parser (create_ast_with_comments)
                out.append({'kind': 'ast', 'digest': hashlib.sha1(prettify(t).encode()).hexdigest()[:16]})
                continue
            ast = create_ast(t)
            out.append({'kind': 'ast', 'digest': hashlib.sha1(json.dumps(textforms.plain(ast), sort_keys=True, default=str).encode()).hexdigest()[:16]})
        except Exception as e:  # noqa
            name = type(e).__name__
            if name == 'VTLSyntaxError':
                line = int(e.lino) if str(getattr(e, 'lino', '')).lstrip('-').isdigit() else None
                col = int(e.colno) if str(getattr(e, 'colno', '')).lstrip('-').isdigit() else None
                out.append({'kind': 'syntax-error', 'digest': '%s:%s' % (line, col), 'line': line if isinstance(line, int) else -1, 'col': col if isinstance(col, int) else -1, 'msg': str(e)[:160]})
            elif isinstance(e, VTLEngineException):
                c = k2.classify_exception(e)
                out.append({'kind': 'vtl-error', 'digest': '%s %s' % (name, c.get('code')), 'msg': str(e)[:160]})
            elif isinstance(e, RuntimeError) and str(e).startswith('VERIF-PARSER-'):
                out.append({'kind': 'stand-in', 'digest': str(e)[:40]})        # the stand-in parser gave up: says nothing about the engine
            else:
                out.append({'kind': 'raw:%s' % name, 'digest': str(e)[:80], 'msg': str(e)[:200]})
    return out
