"""Observation of public API calls as trace units for VTLApi_Trace (C14, C22, C26, C32).

call descriptor (JSON, executed in a worker):
  {'id', 'api': run|semantic_analysis|validate_dataset|prettify|generate_sdmx|run_sdmx|create_ast,
   'script': text, 'env': spec environment | 'case': corpus case | 'raw': {'ds':..., 'dps': {...}} literal inputs,
   'form': df|csv|parquet, 'native': bool, 'kw': {...}, 'osenv': {...},
   'folder': None|'csv'|'parquet', 'rop': bool, 'want_mem': bool, 'extra': {'value_domains':..., 'external_routines':...}}
"""
import csv
import json
import os
import shutil
import string
import tempfile
import traceback

from . import corpus, engine, k2, tlc, values


# ---------------------------------------------------------------------------------------------
# canonical projections of arguments (deep snapshots)

def project(x):
    """Deep, canonical, JSON-able projection of an argument (dicts, lists, DataFrames, paths, pysdmx objects)."""
    import pandas as pd
    from pathlib import Path
    if isinstance(x, pd.DataFrame):
        cols = [repr(c) for c in x.columns]
        return {'__df__': True, 'columns': cols, 'dtypes': [str(t) for t in x.dtypes],
                'index': [repr(i) for i in x.index[:2000]], 'index_type': type(x.index).__name__,
                'values': [[_cell(v) for v in row] for row in x.head(2000).itertuples(index=False, name=None)],
                'nrows': len(x)}
    if isinstance(x, pd.Series):
        return {'__series__': True, 'dtype': str(x.dtype), 'values': [_cell(v) for v in x.tolist()]}
    if isinstance(x, dict):
        return {'__dict__': [[repr(k), project(v)] for k, v in x.items()]}      # key order is part of the projection
    if isinstance(x, (list, tuple)):
        return {'__%s__' % type(x).__name__: [project(v) for v in x]}
    if isinstance(x, Path):
        return {'__path__': str(x)}
    if isinstance(x, (str, int, float, bool)) or x is None:
        return _cell(x)
    if hasattr(x, 'data') and hasattr(x, 'structure'):       # pysdmx PandasDataset
        return {'__pysdmx_dataset__': type(x).__name__, 'data': project(x.data), 'structure': repr(x.structure),
                'attributes': repr(getattr(x, 'attributes', None))}
    return {'__obj__': type(x).__name__, 'repr': repr(x)}


def _cell(v):
    if values.is_null(v):
        return {'null': type(v).__name__ if v is not None else 'None'}
    if isinstance(v, float):
        return {'f': repr(v)}
    if isinstance(v, (bool, int, str)):
        return {type(v).__name__: v}
    return {type(v).__name__: repr(v)}


def snap(args):
    return {k: json.dumps(project(v), sort_keys=True) for k, v in args.items()}


# ---------------------------------------------------------------------------------------------
# outcomes

def outcome_of(e):
    from vtlengine.Exceptions import VTLEngineException
    if e is None:
        return {'kind': 'ok', 'cls': '', 'code': '', 'rendered': True, 'msg': ''}
    cls = type(e).__name__
    if isinstance(e, VTLEngineException):
        code = e.args[1] if len(e.args) > 1 and isinstance(e.args[1], str) else ''
        msg = str(e.args[0]) if e.args else ''
        return {'kind': 'vtl', 'cls': cls, 'code': code or '', 'rendered': not _has_placeholder(msg, code), 'msg': msg[:300]}
    tb = traceback.extract_tb(e.__traceback__)
    inner = tb[-1].filename if tb else ''
    return {'kind': 'raw', 'cls': type(e).__module__ + '.' + cls, 'code': '', 'rendered': True, 'msg': str(e)[:300],
            'in_exception_ctor': inner.replace('\\', '/').endswith('vtlengine/Exceptions/__init__.py'),
            'tb': ''.join(traceback.format_tb(e.__traceback__)[-4:])[-1500:]}


def _has_placeholder(msg, code):
    """A placeholder of the catalogued message survives verbatim in the rendered message."""
    if not code:
        return False
    try:
        from vtlengine.Exceptions.messages import centralised_messages
        tmpl = centralised_messages[code]['message']
    except Exception:
        return False
    return any(('{' + f + '}') in msg for f in placeholders(tmpl))


def placeholders(tmpl):
    out = []
    for _, field, _, _ in string.Formatter().parse(tmpl):
        if field:
            f = field.split('.')[0].split('[')[0]
            if f not in out:
                out.append(f)
    return out


def catalogue():
    engine.boot()
    from vtlengine.Exceptions.messages import centralised_messages
    return {code: placeholders(m['message']) for code, m in centralised_messages.items()}


# ---------------------------------------------------------------------------------------------
# tables (files / in-memory results) as cols + canonical row strings

def table_of_dataset(ds):
    """Engine Dataset -> {'cols': [...], 'rows': [canonical strings]} typed through the declared structure."""
    enc = values.enc_dataset(ds)
    cols = list(ds.data.columns) if ds.data is not None else []
    return {'cols': cols, 'rows': sorted(_rowstr(r) for r in enc['rows'])}


def _rowstr(r):
    return json.dumps({k: _canon(v) for k, v in r.items()}, sort_keys=True)


def _canon(v):
    if v[0] == 2:      # numbers: 12 significant digits (float text round-trip through CSV)
        from fractions import Fraction
        return [2, '%.12g' % float(Fraction(v[1][0], v[1][1]))]
    if v[0] == 1:
        return [2, '%.12g' % float(v[1])]
    if v[0] == 13:
        return [13, str(v[1]).replace('T', ' ')]
    return v


def table_of_file(path, comps):
    """Result file -> table typed through the declared components (comps: engine components dict)."""
    import pandas as pd
    tmap = {n: values.type_name(c.data_type) for n, c in comps.items()}
    if path.endswith('.parquet'):
        df = pd.read_parquet(path)
        cols = list(df.columns)
        rows = []
        for rec in df.itertuples(index=False, name=None):
            rows.append(_rowstr({cols[i]: values.enc(rec[i], tmap.get(cols[i], 'String')) for i in range(len(cols))}))
        return {'cols': cols, 'rows': sorted(rows)}
    with open(path, newline='', encoding='utf-8') as f:
        rd = list(csv.reader(f))
    if not rd:
        return {'cols': [], 'rows': []}
    cols = rd[0]
    rows = []
    # the csv module cannot tell an unquoted empty field (null) from "" (empty string): re-scan raw lines for String columns
    raw = _raw_fields(path)
    for li, rec in enumerate(rd[1:]):
        row = {}
        for i, c in enumerate(cols):
            t = tmap.get(c, 'String')
            x = rec[i] if i < len(rec) else ''
            if x == '' and not (t == 'String' and raw and raw[li + 1][i]):
                row[c] = values.NULL
            else:
                row[c] = values.enc(_parse_text(x, t), t)
        rows.append(_rowstr(row))
    return {'cols': cols, 'rows': sorted(rows)}


def _raw_fields(path):
    """Per line, per field: was the field quoted? (minimal CSV scanner)"""
    out = []
    with open(path, encoding='utf-8', newline='') as f:
        text = f.read()
    i, n = 0, len(text)
    line, quoted, infield_q, start = [], False, False, True
    while i < n:
        ch = text[i]
        if start:
            quoted = ch == '"'
            infield_q = quoted
            start = False
            if quoted:
                i += 1
                continue
        if infield_q:
            if ch == '"':
                if i + 1 < n and text[i + 1] == '"':
                    i += 2
                    continue
                infield_q = False
            i += 1
            continue
        if ch == ',':
            line.append(quoted)
            start = True
        elif ch == '\n':
            line.append(quoted)
            out.append(line)
            line = []
            start = True
        i += 1
    if line or not start:
        line.append(quoted)
        out.append(line)
    return out


def _parse_text(x, t):
    if t == 'Integer':
        return int(float(x)) if float(x) == int(float(x)) else float(x)
    if t == 'Number':
        return float(x)
    if t == 'Boolean':
        return x.strip().lower() == 'true'
    return x


# ---------------------------------------------------------------------------------------------
# the call itself

def _inputs(call, tmpd):
    if 'case' in call:
        text, ds, dps, _ = corpus.load_case(call['case'])
        return call.get('script') or text, ds, dps, None
    if 'raw' in call:
        import pandas as pd
        dps = {}
        for n, spec in call['raw'].get('dps', {}).items():
            if isinstance(spec, dict) and 'columns' in spec:
                dps[n] = pd.DataFrame(spec['data'], columns=spec['columns'], dtype=spec.get('dtype'))
            else:
                dps[n] = spec
        return call.get('script'), json.loads(json.dumps(call['raw']['ds'])), dps, call['raw'].get('scalars')
    ds, dps, svals = k2.build_inputs(call['env'], native=call.get('native', True), form=call.get('form', 'df'), perm=call.get('perm'), tmpdir=tmpd)
    return call['script'], ds, dps, svals or None


def selected_names(script, rop):
    """Names a successful run must return, from the parse tree (AST): persistent assignments, or all."""
    from vtlengine import create_ast
    from vtlengine.AST import Assignment, PersistentAssignment
    ast = create_ast(script)
    names = []
    for ch in ast.children:
        if isinstance(ch, PersistentAssignment) or (isinstance(ch, Assignment) and not rop):
            names.append(ch.left.value)
    return names


def observe(call):
    """Worker: perform the call, return the trace unit."""
    engine.boot()
    import vtlengine
    from vtlengine.Model import Dataset, Scalar
    tmpd = tempfile.mkdtemp(prefix='api-', dir=engine.sub_dir('tmp'))
    unit = {'id': call['id'], 'kind': 'call', 'api': call['api']}
    envbak = {}
    try:
        script, ds, dps, svals = _inputs(call, tmpd)
        api = call['api']
        kw = dict(call.get('kw', {}))
        extra = call.get('extra', {})
        if api == 'run':
            args = {'script': script, 'data_structures': ds, 'datapoints': dps, 'scalar_values': svals}
            args.update({k: json.loads(json.dumps(v)) for k, v in extra.items()})
            args.update(kw)
            args['return_only_persistent'] = call.get('rop', False)
            fn = vtlengine.run
        elif api == 'semantic_analysis':
            args = {'script': script, 'data_structures': ds}
            args.update({k: json.loads(json.dumps(v)) for k, v in extra.items()})
            fn = vtlengine.semantic_analysis
        elif api == 'validate_dataset':
            args = {'data_structures': ds, 'datapoints': dps, 'scalar_values': svals}
            fn = vtlengine.validate_dataset
        elif api == 'prettify':
            args = {'script': script}
            fn = vtlengine.prettify
        elif api == 'create_ast':
            args = {'text': script}
            fn = vtlengine.create_ast
        elif api == 'generate_sdmx':
            args = {'script': script, 'agency_id': 'MD', 'id': 'TS1'}
            fn = vtlengine.generate_sdmx
        elif api == 'run_sdmx':
            try:
                args = _sdmx_args(script, call, ds, dps)
            except Exception as e:  # noqa  pysdmx (not the engine) could not build its PandasDataset from this table
                return {'id': call['id'], 'skip': 'pysdmx input not built: %r' % e}
            args.update(kw)
            fn = vtlengine.run_sdmx
        else:
            raise ValueError(api)
        folder = None
        if call.get('folder'):
            folder = os.path.join(tmpd, 'out')
            args['output_folder'] = folder
            args['output_format'] = call['folder']
        for k, v in call.get('osenv', {}).items():
            envbak[k] = os.environ.get(k)
            os.environ[k] = v
        if call.get('check_sem') and api == 'run':
            try:
                vtlengine.semantic_analysis(script=script, data_structures=json.loads(json.dumps(ds)) if isinstance(ds, (dict, list)) else ds,
                                            **{k: json.loads(json.dumps(v)) for k, v in extra.items()})
                unit['sem'] = 'ok'
            except Exception as e:  # noqa
                unit['sem'] = outcome_of(e)['kind']
        unit['before'] = snap(args)
        err, res = None, None
        first = None
        for rep in range(call.get('repeat', 1)):        # the SAME argument objects are passed again
            err, res = None, None
            try:
                res = fn(**args)
            except Exception as e:  # noqa
                err = e
            if rep == 0:
                first = outcome_of(err)
        if call.get('repeat', 1) > 1:
            last = outcome_of(err)
            unit['repeat_same_outcome'] = (first['kind'], first['cls'], first['code']) == (last['kind'], last['cls'], last['code'])
            unit['first_outcome'] = first
        unit['after'] = snap(args)
        unit['outcome'] = outcome_of(err)
        unit['text'] = (script or '')[:400]
        if api == 'run' and err is None:
            unit['results'] = sorted(res)
        if folder and api == 'run':
            unit['tofolder'] = True
            unit['ext'] = call['folder']
            unit['scalars'], unit['returned'], unit['retscalars'] = [], {}, {}
            unit['files'], unit['scalarfile'] = {}, {}
            if err is None:
                unit['expected'] = selected_names(script, call.get('rop', False))
                for n, v in res.items():
                    if isinstance(v, Scalar):
                        unit['scalars'].append(n)
                        unit['retscalars'][n] = '' if v.value is None else str(v.value)
                        unit['returned'][n] = {'hasdata': False}
                    else:
                        unit['returned'][n] = {'hasdata': v.data is not None}
                for fnm in sorted(os.listdir(folder)) if os.path.isdir(folder) else []:
                    p = os.path.join(folder, fnm)
                    if fnm == '_scalars.csv':
                        with open(p, newline='', encoding='utf-8') as f:
                            rows = list(csv.reader(f))
                        unit['scalarfile'] = {r[0]: r[1] for r in rows[1:]}
                        unit['files'][fnm] = {'cols': rows[0] if rows else [], 'rows': []}
                    else:
                        nm = fnm.rsplit('.', 1)[0]
                        comps = res[nm].components if nm in res and isinstance(res[nm], Dataset) else {}
                        unit['files'][fnm] = table_of_file(p, comps)
                # the same call in memory
                margs = dict(args)
                margs.pop('output_folder')
                margs.pop('output_format')
                unit['mem'], unit['memscalars'] = {}, {}
                try:
                    mres = fn(**margs)
                    for n, v in mres.items():
                        if isinstance(v, Scalar):
                            unit['memscalars'][n] = '' if v.value is None else str(v.value)
                            unit['mem'][n] = {'cols': [], 'rows': []}
                        else:
                            unit['mem'][n] = table_of_dataset(v)
                except Exception as e:  # noqa
                    unit['mem_error'] = repr(e)[:300]
            else:
                unit['expected'] = []
                unit['mem'], unit['memscalars'] = {}, {}
        return unit
    except Exception as e:  # machinery
        return {'id': call['id'], 'machinery': '%r\n%s' % (e, traceback.format_exc()[-1500:])}
    finally:
        for k, v in envbak.items():
            if v is None:
                os.environ.pop(k, None)
            else:
                os.environ[k] = v
        shutil.rmtree(tmpd, ignore_errors=True)


def _sdmx_args(script, call, ds, dps):
    """run_sdmx arguments built from a spec environment: one PandasDataset per input with a pysdmx Schema."""
    from pysdmx.io.pd import PandasDataset
    from pysdmx.model import Component, Components, Concept, DataType, Role, Schema
    tmap = {'Integer': DataType.INTEGER, 'Number': DataType.DOUBLE, 'String': DataType.STRING, 'Boolean': DataType.BOOLEAN,
            'Date': DataType.DATE, 'Time_Period': DataType.PERIOD, 'Time': DataType.TIME, 'Duration': DataType.DURATION}
    out, mapping = [], {}
    for n, x in call['env'].items():
        comps = []
        for c in x['comps']:
            role = {'I': Role.DIMENSION, 'M': Role.MEASURE, 'A': Role.ATTRIBUTE, 'V': Role.ATTRIBUTE}[c['r']]
            kw = {'attachment_level': 'O'} if role == Role.ATTRIBUTE else {}
            comps.append(Component(id=c['n'], required=c['r'] == 'I', role=role, concept=Concept(id=c['n']), local_dtype=tmap[c['t']], **kw))
        sch = Schema(context='dataflow', agency='MD', id=n, version='1.0', components=Components(comps))
        out.append(PandasDataset(structure=sch, data=values.dataframe(x, native=True)))
        mapping['Dataflow=MD:%s(1.0)' % n] = n
    return {'script': script, 'datasets': out, 'mappings': mapping, 'return_only_persistent': call.get('rop', False)}


# ---------------------------------------------------------------------------------------------
# validation by TLC

FIELDS = ('id', 'kind', 'api', 'before', 'after', 'outcome', 'tofolder', 'ext', 'expected', 'scalars', 'returned', 'files',
          'mem', 'scalarfile', 'memscalars', 'retscalars', 'code', 'kwargs', 'star')


def validate(chk, units, cat=None, workers=12):
    """-> {id: verdict}"""
    if not units:
        return {}
    cat = cat or catalogue()
    d = engine.sub_dir('traces')
    path = os.path.join(d, 'api-%d-%d.json' % (os.getpid(), len(units)))
    cpath = os.path.join(d, 'catalogue-%d.json' % os.getpid())
    slim = []
    for u in units:
        s = {k: u[k] for k in FIELDS if k in u}
        if 'outcome' in s:
            s['outcome'] = {k: s['outcome'][k] for k in ('kind', 'cls', 'code', 'rendered')}
        for k in ('before', 'after', 'returned', 'files', 'mem', 'scalarfile', 'memscalars', 'retscalars'):
            if k in s and not s[k]:
                s[k] = {'@none': ''} if k in ('before', 'after') else s[k]
        slim.append(s)
    json.dump(slim, open(path, 'w'))
    json.dump(cat, open(cpath, 'w'))
    r = tlc.must(tlc.run('VTLApi_Trace', 'VTLApi_Trace.cfg', env={'TRACE_FILE': path, 'CATALOGUE_FILE': cpath}, workers=workers), 'VTLApi_Trace')
    chk.add('states', r.states)
    chk.add('transitions', r.generated)
    out = {}
    for line in r.lines:
        v = json.loads(line)
        out[v['id']] = v
    if len(out) != len({u['id'] for u in units}):
        raise RuntimeError('missing verdicts from VTLApi_Trace (%d of %d)' % (len(out), len(units)))
    return out


def model_check(chk):
    r = tlc.must(tlc.run('VTLApi', 'VTLApi_small.cfg', workers=4, coverage=True), 'VTLApi')
    tlc.vacuity(chk, r, 'VTLApi')
    chk.add('states', r.states)
    chk.add('transitions', r.generated)
    chk.notes['model'] = {'module': 'VTLApi', 'states': r.states, 'invariants': ['ArgsUnchanged', 'OutcomeAlphabet', 'FilesFaithful']}
