"""pytest plugin: run upstream tests against the parser stand-in (-p harness.pytest_shim, PYTHONPATH=/verif)."""
from harness import engine
engine.boot(hooks=False)
