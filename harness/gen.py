"""Seeded generators of datasets (spec JSON form) and terms, with conservative magnitude bounds so
that the specification's 32-bit rational arithmetic cannot overflow."""
from fractions import Fraction

NULL = [0, 0]


def I(n):
    return [1, int(n)]


def N(num, den=1):
    f = Fraction(num, den)
    return [2, [f.numerator, f.denominator]]


def B(b):
    return [3, bool(b)]


def S(s):
    return [4, [ord(c) for c in s]]


def var(n):
    return {'k': 'var', 'name': n}


def const(v):
    return {'k': 'const', 'v': v}


STR_POOL = ['', 'a', 'ab', 'abc', ' a ', 'B', 'hello world', 'x y', '€', '日本', 'aXbXc', 'Zz', '  ']
INT_POOL = [-7, -3, -1, 0, 1, 2, 3, 5, 10, 12]
NUM_POOL = [Fraction(-15, 2), Fraction(-5, 4), Fraction(-1), Fraction(0), Fraction(1, 4), Fraction(1, 2), Fraction(1),
            Fraction(5, 4), Fraction(5, 2), Fraction(33, 10), Fraction(10), Fraction(7, 5)]


import datetime as _dt
_D = lambda y, m, d, s=0: (_dt.date(y, m, d).toordinal(), s)   # noqa: E731
# dates with and without a time part (the engine stores a column as DATE or TIMESTAMP depending on its values)
DATE_POOL = [_D(2020, 3, 5), _D(2020, 3, 5, 36000), _D(2020, 3, 4, 86399), _D(2020, 2, 29), _D(1999, 12, 31), _D(2021, 1, 1, 1), _D(2020, 3, 6), _D(2020, 12, 31, 43200)]
PERIOD_POOL = ['2020', '2021', '2020S1', '2020Q2', '2020Q4', '2020M1', '2020M12', '2020W53', '2020D366', '2021D1']


def value(rnd, t, null_p=0.15):
    if rnd.random() < null_p:
        return NULL
    if t == 'Integer':
        return I(rnd.choice(INT_POOL))
    if t == 'Number':
        f = rnd.choice(NUM_POOL)
        return N(f.numerator, f.denominator)
    if t == 'Boolean':
        return B(rnd.random() < 0.5)
    if t == 'String':
        return S(rnd.choice(STR_POOL))
    if t == 'Date':
        return [5, list(rnd.choice(DATE_POOL))]
    if t == 'Time_Period':
        return [13, rnd.choice(PERIOD_POOL)]
    if t == 'Duration':
        return [13, rnd.choice(['A', 'S', 'Q', 'M', 'W', 'D'])]
    if t == 'Time':
        return [13, rnd.choice(['2020-01-01/2020-12-31', '2020-03-05/2020-03-05', '1999-12-31/2000-01-01'])]
    raise ValueError(t)


def key_value(rnd, t, space):
    if t == 'Integer':
        return I(rnd.randrange(1, space + 1))
    if t == 'String':
        return S(rnd.choice(['a', 'b', 'c', 'A', 'd e', '€'][:max(2, min(space, 6))]))
    if t == 'Time_Period':
        return [13, PERIOD_POOL[rnd.randrange(0, min(len(PERIOD_POOL), max(2, space)))]]
    if t == 'Date':
        return [5, list(DATE_POOL[rnd.randrange(0, min(len(DATE_POOL), max(2, space)))])]
    raise ValueError(t)


def comp(n, r, t):
    return {'n': n, 'r': r, 't': t}


def dataset(rnd, ids, others, nrows, keyspace=4, null_p=0.15):
    """ids: [(name, type)], others: [(name, role, type)] -> dataset with unique non-null keys."""
    comps = [comp(n, 'I', t) for n, t in ids] + [comp(n, r, t) for n, r, t in others]
    rows, seen = [], set()
    tries = 0
    while len(rows) < nrows and tries < nrows * 20:
        tries += 1
        key = tuple(repr(key_value(rnd, t, keyspace)) for _, t in ids)
        if key in seen:
            continue
        seen.add(key)
        row = {}
        for (n, t), kv in zip(ids, key):
            row[n] = eval(kv)
        for n, r, t in others:
            row[n] = value(rnd, t, null_p)
        rows.append(row)
        if not ids:
            break
    return {'comps': comps, 'rows': rows}


def shuffled(rnd, ds):
    """Same dataset, rows and columns permuted (the spec cannot tell the difference)."""
    comps = list(ds['comps'])
    rows = list(ds['rows'])
    rnd.shuffle(comps)
    rnd.shuffle(rows)
    return {'comps': comps, 'rows': rows}
