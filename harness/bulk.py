"""Bulk runs: one script over literal tables (lists of rows), results as plain lists - for the exhaustive
table-driven checks (C08, C09, C18-C21, C30) where one run() decides thousands of points."""
import os
import traceback

from . import engine, k2, values


def struct(name, comps):
    """comps: [(name, type, role 'I'|'M'|'A'|'V', nullable?)]"""
    out = []
    for c in comps:
        n, t, r = c[0], c[1], c[2]
        nl = c[3] if len(c) > 3 else r != 'I'
        out.append({'name': n, 'type': t, 'role': values.ROLE_R[r], 'nullable': nl})
    return {'name': name, 'DataStructure': out}


def run_tables(arg):
    """Worker. arg: {script, structures: [struct...], scalars?: [...], tables: {name: {cols, rows}}, kw, osenv, form: df|csv, scalar_values}
    -> {'results': {name: {'cols', 'rows', 'types'} | {'scalar': value, 'type': t}}} or {'err':..., 'code':..., 'msg':...}"""
    engine.boot()
    import pandas as pd
    from vtlengine import run
    from vtlengine.Model import Dataset
    dps = {}
    tmpd = None
    try:
        for n, t in arg.get('tables', {}).items():
            if arg.get('form', 'df') == 'csv':
                import csv
                import tempfile
                tmpd = tmpd or tempfile.mkdtemp(prefix='bulk-', dir=engine.sub_dir('tmp'))
                path = os.path.join(tmpd, n + '.csv')
                with open(path, 'w', newline='', encoding='utf-8') as f:
                    w = csv.writer(f)
                    w.writerow(t['cols'])
                    for r in t['rows']:
                        w.writerow(['' if x is None else x for x in r])
                dps[n] = path
            else:
                dps[n] = pd.DataFrame(t['rows'], columns=t['cols'], dtype=t.get('dtype', 'object'))
                for c in t.get('floatcols', []):          # native float64 columns (the DOUBLE load path)
                    dps[n][c] = dps[n][c].astype('float64')
        ds = {'datasets': arg['structures']}
        if arg.get('scalars'):
            ds['scalars'] = arg['scalars']
        envbak = {}
        for k, v in arg.get('osenv', {}).items():
            envbak[k] = os.environ.get(k)
            os.environ[k] = v
        kw = dict(arg.get('kw', {}))
        outd = None
        if arg.get('to_files'):
            # results written by the engine itself (output_folder): what is read back is the FILE content
            import tempfile
            tmpd = tmpd or tempfile.mkdtemp(prefix='bulk-', dir=engine.sub_dir('tmp'))
            outd = os.path.join(tmpd, 'out')
            os.makedirs(outd, exist_ok=True)
            from pathlib import Path
            kw['output_folder'] = Path(outd)
        try:
            res = run(script=arg['script'], data_structures=ds, datapoints=dps, return_only_persistent=False,
                      scalar_values=arg.get('scalar_values'), **kw)
        finally:
            for k, v in envbak.items():
                if v is None:
                    os.environ.pop(k, None)
                else:
                    os.environ[k] = v
        out = {}
        want = arg.get('want')
        if outd:
            import csv
            for fn in sorted(os.listdir(outd)):
                if fn.endswith('.csv') and not (want and fn[:-4] not in want):
                    with open(os.path.join(outd, fn), newline='', encoding='utf-8') as f:
                        rd = list(csv.reader(f))
                    out[fn[:-4]] = {'cols': rd[0], 'rows': [[None if x == '' else x for x in r] for r in rd[1:]], 'file': True}
            return {'results': out, 'files': sorted(os.listdir(outd))}
        for n, v in res.items():
            if want and n not in want:
                continue
            if isinstance(v, Dataset):
                cols = list(v.data.columns)
                rows = [[None if values.is_null(x) else (x.item() if hasattr(x, 'item') else x) for x in rec] for rec in v.data.itertuples(index=False, name=None)]
                out[n] = {'cols': cols, 'rows': rows, 'types': {c.name: values.type_name(c.data_type) for c in v.components.values()},
                          'roles': {c.name: values.ROLE[c.role.value] for c in v.components.values()}}
            else:
                x = v.value
                out[n] = {'scalar': None if values.is_null(x) else (x.item() if hasattr(x, 'item') else x), 'type': values.type_name(v.data_type)}
        return {'results': out}
    except Exception as e:  # noqa
        c = k2.classify_exception(e)
        return {'err': c['err'], 'code': c.get('code'), 'msg': c['msg'], 'tb': traceback.format_exc()[-800:] if c['err'].startswith('RAW') else ''}
    finally:
        if tmpd:
            import shutil
            shutil.rmtree(tmpd, ignore_errors=True)
