import argparse
import importlib
import os
import sys
import traceback

sys.path.insert(0, os.path.dirname(os.path.dirname(os.path.abspath(__file__))))
os.environ.setdefault('PYTHONHASHSEED', '0')


def main():
    ap = argparse.ArgumentParser()
    ap.add_argument('pid')
    ap.add_argument('--tier', default=os.environ.get('VERIF_TIER', 'quick'))
    ap.add_argument('--replay')
    a = ap.parse_args()
    pid = a.pid.upper()
    seed = int(os.environ.get('VERIF_SEED', '0') or 0)
    try:
        from harness import report
        mod = importlib.import_module('props.' + pid.lower())
        chk = report.Check(pid, a.tier, seed, mod.LEVEL)
        if a.replay:
            rc = mod.replay(chk, a.replay)
        else:
            mod.main(chk)
            rc = chk.finish()
    except SystemExit:
        raise
    except BaseException:
        traceback.print_exc()
        sys.stderr.write('MACHINERY-FAILURE property=%s\n' % pid)
        rc = 2
    try:
        from harness import k2
        k2.close_pool()
    except Exception:
        pass
    try:
        from harness import engine
        engine._shutdown() if engine._booted else None
        engine.cleanup()
    except Exception:
        pass
    sys.stdout.flush()
    sys.stderr.flush()
    os._exit(rc)


if __name__ == '__main__':
    main()
