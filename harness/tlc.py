"""Thin runner around TLC: runs a (module, cfg) pair from /verif/spec, collects summary numbers,
PrintT payload lines and per-action coverage."""
import json
import os
import re
import subprocess
import time

from . import engine

SPEC = os.path.join(engine.VERIF, 'spec')
JARS = '/opt/veriftools/tla/tla2tools.jar:/opt/veriftools/tla/CommunityModules-deps.jar'


class TLCError(Exception):
    pass


class TLCResult:
    def __init__(self):
        self.states = 0          # distinct states
        self.generated = 0       # states generated (transitions explored)
        self.lines = []          # payload lines printed with the marker
        self.ok = False
        self.violated = None     # name of violated invariant/property, if any
        self.output = ''
        self.coverage = {}       # action -> (generated, distinct)
        self.wall = 0.0
        self.depth = 0


def run(module, cfg, env=None, workers='auto', simulate=None, depth=None, seed=None, timeout=3600,
        coverage=False, marker='@@', extra=None, cwd=None, deadlock=None, dfs=False):
    """Run TLC on spec/<module>.tla with spec/<cfg>. Returns TLCResult. Payload lines are the
    strings TLC prints through PrintT that start with `marker` (quotes stripped, unescaped)."""
    meta = engine.sub_dir('tlc-%s-%d' % (os.path.basename(module).replace('.tla', ''), int(time.time() * 1000) % 10**9))
    cmd = ['java', '-XX:+UseParallelGC', '-Xmx8g', '-Xss64m', '-DTLA-Library=' + SPEC, '-Djava.io.tmpdir=' + meta]   # TLC's own scratch (tlc-<n>) stays in ours     # generated modules (absolute path) extend spec/ modules
    if dfs:
        cmd.append('-Dtlc2.tool.queue.IStateQueue=StateDeque')
    cmd += ['-cp', JARS, 'tlc2.TLC', '-metadir', meta, '-noGenerateSpecTE', '-config', os.path.join(SPEC, cfg)]
    cmd += ['-workers', str(workers)]
    if coverage:
        cmd += ['-coverage', '1']
    if simulate:
        cmd += ['-simulate', simulate]
    if depth:
        cmd += ['-depth', str(depth)]
    if seed is not None:
        cmd += ['-seed', str(seed)]
    if deadlock is False:
        cmd += ['-deadlock']
    if extra:
        cmd += extra
    cmd.append(module if os.path.isabs(module) else os.path.join(SPEC, module + '.tla'))
    e = dict(os.environ)
    if env:
        e.update({k: str(v) for k, v in env.items()})
    t0 = time.time()
    try:
        p = subprocess.run(cmd, cwd=cwd or meta, env=e, stdout=subprocess.PIPE, stderr=subprocess.STDOUT,
                           timeout=timeout, text=True, errors='replace')
        out = p.stdout
        rc = p.returncode
    except subprocess.TimeoutExpired as ex:
        out = (ex.stdout or b'')
        if isinstance(out, bytes):
            out = out.decode('utf-8', 'replace')
        rc = -9
    r = TLCResult()
    r.wall = time.time() - t0
    r.output = out
    r.rc = rc
    for line in out.splitlines():
        s = line.strip()
        if s.startswith('"' + marker):
            try:
                r.lines.append(json.loads(s)[len(marker):])
            except Exception:
                r.lines.append(_unq(s)[len(marker):])
            continue
        m = re.match(r'(\d+) states generated, (\d+) distinct states found', s)
        if m:
            r.generated = int(m.group(1))
            r.states = int(m.group(2))
        m = re.match(r'The depth of the complete state graph search is (\d+)', s)
        if m:
            r.depth = int(m.group(1))
        m = re.match(r'Error: Invariant (\S+) is violated', s)
        if m:
            r.violated = m.group(1)
        m = re.match(r'Error: Action property (\S+) is violated', s)
        if m:
            r.violated = m.group(1)
        if 'Temporal properties were violated' in s:
            r.violated = r.violated or 'temporal'
        m = re.match(r'<(\w+) line \d+, col \d+ to line \d+, col \d+ of module \w+>: (\d+):(\d+)', s)
        if m:
            r.coverage[m.group(1)] = (int(m.group(3)), int(m.group(2)))
    r.ok = ('Model checking completed. No error has been found.' in out) or \
           (simulate is not None and rc in (0,) and 'Error:' not in out)
    return r


def _unq(s):
    s = s.strip()
    if s.startswith('"') and s.endswith('"'):
        s = s[1:-1]
    return s.replace('\\"', '"').replace('\\\\', '\\')


def vacuity(chk, r, name, dead_ok=()):
    """Per-action coverage of a machine model (TLC -coverage 1): recorded in the evidence; an action of the next-state relation
    that was never taken (other than those named in dead_ok, which DESIGN.md explains) means the invariants were never
    exercised on it - a failure of the machinery, not of the property."""
    if not r.coverage:
        return
    chk.notes.setdefault('action_coverage', {})[name] = {a: {'taken': g, 'distinct': d} for a, (g, d) in r.coverage.items()}
    dead = sorted(a for a, (g, d) in r.coverage.items() if g == 0 and a not in dead_ok)
    if dead:
        raise TLCError('vacuity: action(s) %s of %s are never taken in the explored model' % (', '.join(dead), name))


def must(r, what=''):
    """Raise a machinery error unless TLC finished cleanly."""
    if not r.ok:
        tail = '\n'.join(r.output.splitlines()[-40:])
        raise TLCError('TLC failed (%s):\n%s' % (what, tail))
    return r


def sany(module):
    p = subprocess.run(['java', '-cp', JARS, 'tla2sany.SANY', os.path.join(SPEC, module + '.tla')],
                       stdout=subprocess.PIPE, stderr=subprocess.STDOUT, text=True, cwd=SPEC)
    return p.returncode == 0 and 'Semantic errors' not in p.stdout and '*** Errors' not in p.stdout, p.stdout
