"""The upstream test corpus as data: every tests/**/data/vtl/<code>.vtl with the structures and CSVs
that follow the Helper naming convention (<code>-<i>.json / .csv)."""
import glob
import json
import os
import re

from . import engine


def discover(repo=None):
    repo = repo or engine.REPO
    cases = []
    for vtl in sorted(glob.glob(os.path.join(repo, 'tests', '**', 'data', 'vtl', '*.vtl'), recursive=True)):
        d = os.path.dirname(os.path.dirname(vtl))
        code = os.path.basename(vtl)[:-4]
        sdir = os.path.join(d, 'DataStructure', 'input')
        cdir = os.path.join(d, 'DataSet', 'input')
        structs = sorted(glob.glob(os.path.join(sdir, glob.escape(code) + '-*.json')),
                         key=lambda p: [int(x) if x.isdigit() else x for x in re.split(r'(\d+)', os.path.basename(p))])
        structs = [p for p in structs if re.match(r'^' + re.escape(code) + r'-(DS_)?\d+\.json$', os.path.basename(p))]
        if not structs:
            continue
        cases.append({'id': os.path.relpath(vtl, os.path.join(repo, 'tests')), 'vtl': vtl, 'structs': structs, 'cdir': cdir})
    return cases


def load_case(case):
    """-> (script text, data_structures list, datapoints dict name -> csv path, scalar names)"""
    text = open(case['vtl'], encoding='utf-8').read()
    structures, dps, scalars = [], {}, []
    for sp in case['structs']:
        js = json.load(open(sp, encoding='utf-8'))
        for ds in js.get('datasets', []):
            for comp in ds.get('DataStructure', []):
                if comp.get('role') == 'ViralAttribute':
                    comp['role'] = 'Viral Attribute'
                if 'type' not in comp and 'data_type' in comp:
                    comp['type'] = comp.pop('data_type')
        structures.append(js)
        csvp = os.path.join(case['cdir'], os.path.basename(sp)[:-5] + '.csv')
        for ds in js.get('datasets', []):
            if os.path.exists(csvp):
                dps[ds['name']] = csvp
        for sc in js.get('scalars', []):
            scalars.append(sc['name'])
    return text, structures, dps, scalars


def probe(case):
    """Worker: does the case run on the current tree? returns summary (used to select the valid corpus)."""
    engine.boot()
    from vtlengine import run
    from . import k2
    import time
    text, structures, dps, scalars = load_case(case)
    t = time.time()
    try:
        r = run(script=text, data_structures=structures, datapoints=dps, return_only_persistent=False)
        return {'id': case['id'], 'ok': True, 'n': len(r), 't': time.time() - t}
    except Exception as e:  # noqa
        c = k2.classify_exception(e)
        return {'id': case['id'], 'ok': False, 'err': c['err'], 'msg': c['msg'][:200], 't': time.time() - t}
