"""Value / dataset codec between the engine's Python objects and the spec's tagged encoding.

value  : [tag, payload]   (see spec/VTLValues.tla)
dataset: {"comps": [{"n","r","t"}...], "rows": [{comp: value}...]}
scalar : {"v": value, "t": type}
error  : {"err": class}
"""
import datetime
import math
from fractions import Fraction

ROLE = {'Identifier': 'I', 'Measure': 'M', 'Attribute': 'A', 'Viral Attribute': 'V'}
ROLE_R = {v: k for k, v in ROLE.items()}
TYPE_NAME = {'TimeInterval': 'Time', 'TimePeriod': 'Time_Period'}
NULL = [0, 0]
MAXDEN = 10000


def is_null(x):
    if x is None:
        return True
    try:
        import pandas as pd
        if x is pd.NA or x is pd.NaT:
            return True
    except Exception:
        pass
    if isinstance(x, float) and math.isnan(x):
        return True
    return False


def frac_of(x):
    """Observed number -> small rational (snaps to the nearest rational with den <= MAXDEN)."""
    if isinstance(x, Fraction):
        f = x
    elif isinstance(x, (int,)) and not isinstance(x, bool):
        f = Fraction(int(x))
    else:
        f = Fraction(repr(float(x))) if not isinstance(x, str) else Fraction(x)
    g = f.limit_denominator(MAXDEN)
    return g


def enc_num(x):
    f = frac_of(x)
    return [2, [f.numerator, f.denominator]]


def date_ordinal(s):
    if isinstance(s, (datetime.datetime, datetime.date)):
        d = s
    else:
        s = str(s).strip()
        d = datetime.date.fromisoformat(s[:10])
    if isinstance(d, datetime.datetime):
        d = d.date()
    return d.toordinal()


def date_pair(x):
    """Date value (text 'YYYY-MM-DD[( |T)HH:MM:SS[.ffffff]]', date or datetime) -> [day ordinal, second of day]"""
    if isinstance(x, datetime.datetime):
        return [x.date().toordinal(), x.hour * 3600 + x.minute * 60 + x.second]
    if isinstance(x, datetime.date):
        return [x.toordinal(), 0]
    s = str(x).strip()
    d = datetime.date.fromisoformat(s[:10])
    sec = 0
    if len(s) > 10:
        hh, mm, ss = s[11:19].split(':')
        sec = int(hh) * 3600 + int(mm) * 60 + int(ss)
    return [d.toordinal(), sec]


def enc(x, t):
    """Engine value -> tagged value according to component type name t (ill-typed values -> tag 13)."""
    try:
        return _enc(x, t)
    except Exception:
        return [13, 'ILL-TYPED:' + repr(x)]


def _enc(x, t):
    if is_null(x):
        return NULL
    if t == 'Integer':
        if isinstance(x, float) and x != int(x):
            return enc_num(x)
        return [1, int(x)]
    if t == 'Number':
        return enc_num(x)
    if t == 'Boolean':
        if isinstance(x, str):
            return [3, x.strip().lower() == 'true']
        return [3, bool(x)]
    if t == 'String':
        return [4, [ord(c) for c in str(x)]]
    if t == 'Date':
        return [5, date_pair(x)]
    # other types are carried as opaque text (tag 13) unless a property-specific codec is used
    return [13, str(x)]


def dec(v):
    """Tagged value -> Python object for building engine inputs."""
    tag, p = v
    if tag == 0:
        return None
    if tag == 1:
        return int(p)
    if tag == 2:
        return float(Fraction(p[0], p[1]))
    if tag == 3:
        return bool(p)
    if tag == 4:
        return ''.join(chr(c) for c in p)
    if tag == 5:
        if isinstance(p, int):
            return datetime.date.fromordinal(p).isoformat()
        d = datetime.date.fromordinal(p[0]).isoformat()
        return d if not p[1] else '%s %02d:%02d:%02d' % (d, p[1] // 3600, (p[1] // 60) % 60, p[1] % 60)
    if tag == 13:
        return p
    raise ValueError('cannot decode %r' % (v,))


def type_name(dt):
    n = dt.__name__ if hasattr(dt, '__name__') else str(dt)
    return TYPE_NAME.get(n, n)


def comps_of(ds):
    """Engine Dataset -> spec comps (list, in the engine's column order)."""
    return [{'n': c.name, 'r': ROLE[c.role.value], 't': type_name(c.data_type)} for c in ds.components.values()]


def enc_dataset(ds):
    comps = comps_of(ds)
    rows = []
    if ds.data is not None:
        cols = list(ds.data.columns)
        tmap = {c['n']: c['t'] for c in comps}
        for rec in ds.data.itertuples(index=False, name=None):
            rows.append({cols[i]: enc(rec[i], tmap.get(cols[i], 'String')) for i in range(len(cols))})
    return {'comps': comps, 'rows': rows}


def enc_scalar(sc):
    t = type_name(sc.data_type)
    return {'v': enc(sc.value, t), 't': t}


def enc_result(obj):
    from vtlengine.Model import Dataset
    if isinstance(obj, Dataset):
        return enc_dataset(obj)
    return enc_scalar(obj)


def structure_json(name, comps, nullable=None):
    """spec comps -> engine data-structure dict entry."""
    out = []
    for c in comps:
        nl = c.get('u')
        if nl is None:
            nl = c['r'] != 'I' if nullable is None else nullable.get(c['n'], c['r'] != 'I')
        out.append({'name': c['n'], 'type': c['t'], 'role': ROLE_R[c['r']], 'nullable': bool(nl)})
    return {'name': name, 'DataStructure': out}


def dataframe(ds, native=True):
    import pandas as pd
    cols = [c['n'] for c in ds['comps']]
    data = {c: [dec(r[c]) for r in ds['rows']] for c in cols}
    if native:
        df = pd.DataFrame(data, columns=cols)
        for c in ds['comps']:
            if c['t'] == 'Integer':
                df[c['n']] = pd.array(data[c['n']], dtype='Int64')
            elif c['t'] == 'Number':
                df[c['n']] = pd.array(data[c['n']], dtype='Float64')
            elif c['t'] == 'Boolean':
                df[c['n']] = pd.array(data[c['n']], dtype='boolean')
            else:
                # every other type travels as text: an all-null column must stay an object column (pandas would infer float64, which
                # pysdmx cannot turn into its date type)
                df[c['n']] = pd.array(data[c['n']], dtype='object')
        return df
    return pd.DataFrame(data, columns=cols, dtype='object')


# ---------------------------------------------------------------------------------------------
# closeness (fallback when TLC's exact match fails): numbers up to a relative tolerance

TOL = Fraction(1, 10**6)


def _num(v):
    if v[0] == 1:
        return Fraction(v[1])
    if v[0] == 2:
        return Fraction(v[1][0], v[1][1])
    return None


def val_close(e, o):
    if e == o or e[0] == 14:
        return True
    if e[0] == 11:                      # some non-null number
        return o[0] in (1, 2)
    if e[0] == 12:                      # sqrt of a rational
        if o[0] not in (1, 2):
            return False
        q = Fraction(e[1][1][0], e[1][1][1]) if e[1][0] == 2 else Fraction(e[1][1])
        x = _num(o)
        return x >= 0 and abs(x * x - q) <= Fraction(1, 10**4) * max(1, q)
    a, b = _num(e), _num(o)
    if a is not None and b is not None:
        return abs(a - b) <= TOL * max(1, abs(a))
    return False


def _key(row, ids):
    return tuple(repr(row[i]) for i in ids)


def result_close(exp, obs, cc=True):
    """Compare expected (from TLC) and observed results; returns (ok, why)."""
    if 'err' in exp:
        return ('err' in obs), 'expected a VTL runtime error'
    if 'err' in obs:
        return False, 'unexpected error %s %s' % (obs['err'], (obs.get('msg') or '')[:300])
    if 'comps' in exp:
        if 'comps' not in obs:
            return False, 'expected a dataset'
        ec = sorted((c['n'], c['r'], c['t']) for c in exp['comps'])
        oc = sorted((c['n'], c['r'], c['t']) for c in obs['comps'])
        if cc and ec != oc:
            return False, 'components differ: expected %s got %s' % (ec, oc)
        ids = sorted(c['n'] for c in exp['comps'] if c['r'] == 'I')
        er, orr = exp['rows'], obs['rows']
        if len(er) != len(orr):
            return False, 'row count: expected %d got %d' % (len(er), len(orr))
        om = {}
        for r in orr:
            if any(i not in r for i in ids):
                return False, 'columns differ: the returned data lacks the identifier(s) %s (columns %s)' % (sorted(i for i in ids if i not in r), sorted(r))
            om[_key(r, ids)] = r
        if len(om) != len(orr):
            return False, 'observed rows have duplicate identifiers'
        for r in er:
            o = om.get(_key(r, ids))
            if o is None:
                return False, 'missing datapoint %s' % (_key(r, ids),)
            if set(o) != set(r):
                return False, 'columns differ: %s vs %s' % (sorted(r), sorted(o))
            for c in r:
                if not val_close(r[c], o[c]):
                    return False, 'value of %s at %s: expected %s got %s' % (c, _key(r, ids), r[c], o[c])
        return True, ''
    if 'v' not in obs:
        return False, 'expected a scalar'
    if cc and exp['t'] != obs['t'] and exp['t'] != 'Null':
        return False, 'scalar type: expected %s got %s' % (exp['t'], obs['t'])
    return val_close(exp['v'], obs['v']), 'scalar value: expected %s got %s' % (exp['v'], obs['v'])
