"""Random well-typed term generation for the element-wise operator subset (B2 drivers), with
conservative magnitude bounds (see DESIGN.md 3.1: TLC integers are 32 bit)."""
import json
from fractions import Fraction

from . import gen
from .gen import I, N, B, S, NULL, var, const


def shape(t):
    """Short, stable description of a term (used as violation key)."""
    k = t.get('k')
    if k in ('var', 'const'):
        return k
    if k == 'un':
        return '%s(%s)' % (t['op'], shape(t['x']))
    if k == 'bin':
        return '(%s %s %s)' % (shape(t['l']), t['op'], shape(t['r']))
    if k == 'fn':
        return '%s(%s)' % (t['op'], ','.join(shape(a) for a in t['args']))
    if k == 'in':
        return '%s(%s)' % ('not_in' if t['neg'] else 'in', shape(t['x']))
    if k == 'if':
        return 'if(%s,%s,%s)' % (shape(t['c']), shape(t['t']), shape(t['e']))
    if k == 'case':
        return 'case'
    if k == 'udo':
        return 'udo(%s)' % shape(t['body'])
    if k == 'exists':
        return 'exists_in(%s,%s,%s)' % (shape(t['l']), shape(t['r']), t['retain'])
    if k == 'memb':
        return '%s#' % shape(t['ds'])
    if k == 'clause':
        inner = ''
        if t['op'] == 'calc':
            inner = ','.join(shape(i['expr']) for i in t['items'])
        elif t['op'] == 'filter':
            inner = shape(t['items'][0])
        elif t['op'] == 'aggr':
            inner = ','.join(i['agg']['op'] for i in t['items'])
        return '%s[%s %s]' % (shape(t['ds']), t['op'], inner)
    if k == 'agg':
        return '%s(%s %s%s)' % (t['op'], shape(t['x']), t.get('mode'), ' having' if t.get('having') else '')
    if k == 'set':
        return '%s/%d' % (t['op'], len(t['ops']))
    if k == 'join':
        return '%s_join/%d%s%s' % (t['how'], len(t['ops']), ' using' if t.get('using') else '', ''.join(' ' + c['op'] for c in t.get('body', [])))
    if k == 'an':
        return '%s over(%s)' % (t['op'], 'frame' if t.get('frame') else 'noframe')
    return str(k)


# ---- component-level typed expressions --------------------------------------------------------
# every generator returns (term, bound) where bound = (max |numerator|, max denominator) for numerics

def _num_leaf(rnd, comps, depth_left):
    nums = [c for c in comps if c['t'] in ('Integer', 'Number')]
    if nums and rnd.random() < 0.7:
        c = rnd.choice(nums)
        return var(c['n']), c['t'], (20, 10 if c['t'] == 'Number' else 1)
    if rnd.random() < 0.5:
        v = rnd.choice([-3, -1, 0, 1, 2, 5])
        return const(I(v)), 'Integer', (5, 1)
    f = rnd.choice([Fraction(1, 2), Fraction(-3, 2), Fraction(5, 4), Fraction(2), Fraction(1, 10)])
    return const(N(f.numerator, f.denominator)), 'Number', (5, 10)


LIM = 2 ** 26


def num_expr(rnd, comps, depth):
    if depth <= 0 or rnd.random() < 0.25:
        return _num_leaf(rnd, comps, depth)
    r = rnd.random()
    if r < 0.55:
        op = rnd.choice(['+', '-', '*', '/'])
        a, ta, (na, da) = num_expr(rnd, comps, depth - 1)
        b, tb, (nb, db) = num_expr(rnd, comps, depth - 1)
        if op in '+-':
            bound = (na * db + nb * da, da * db)
        elif op == '*':
            bound = (na * nb, da * db)
        else:
            # divisor: a non-zero constant (division by zero has its own generator)
            b, tb, (nb, db) = const(I(rnd.choice([2, 3, 4, -5]))), 'Integer', (5, 1)
            bound = (na * db, da * nb)
        if bound[0] * bound[1] > LIM or bound[0] > LIM or bound[1] > 5000:
            return _num_leaf(rnd, comps, depth)
        t = 'Number' if op == '/' or 'Number' in (ta, tb) else 'Integer'
        return {'k': 'bin', 'op': op, 'l': a, 'r': b}, t, bound
    if r < 0.75:
        op = rnd.choice(['-', 'abs', 'ceil', 'floor', '+'])
        a, ta, bd = num_expr(rnd, comps, depth - 1)
        t = 'Integer' if op in ('ceil', 'floor') else ta
        return {'k': 'un', 'op': op, 'x': a}, t, (bd[0], 1 if op in ('ceil', 'floor') else bd[1])
    if r < 0.85:
        op = rnd.choice(['round', 'trunc'])
        a, ta, bd = num_expr(rnd, comps, depth - 1)
        d = rnd.choice([None, 0, 1, 2])
        if bd[0] * 100 > LIM:
            return _num_leaf(rnd, comps, depth)
        return {'k': 'fn', 'op': op, 'args': [a, const(NULL if d is None else I(d))]}, ('Integer' if d is None else 'Number'), (bd[0] * 100, 100)
    # nvl / if: both branches of the same type (mixed Integer/Number typing is C11's subject, see READINGS.md)
    a, ta, ba = num_expr(rnd, comps, depth - 1)
    if not has_var(a):
        return a, ta, ba
    for _ in range(8):
        b, tb, bb = num_expr(rnd, comps, depth - 1)
        if tb == ta:
            break
    else:
        return a, ta, ba
    if r < 0.93:
        return {'k': 'bin', 'op': 'nvl', 'l': a, 'r': b}, ta, (max(ba[0], bb[0]), max(ba[1], bb[1]))
    c, _ = bool_expr(rnd, comps, depth - 1)
    return {'k': 'if', 'c': c, 't': a, 'e': b}, ta, (max(ba[0], bb[0]), max(ba[1], bb[1]))


def str_expr(rnd, comps, depth):
    strs = [c for c in comps if c['t'] == 'String']
    if depth <= 0 or rnd.random() < 0.3:
        if strs and rnd.random() < 0.7:
            return var(rnd.choice(strs)['n']), 'String'
        return const(S(rnd.choice(['', 'a', 'ab', ' x ', 'Q']))), 'String'
    r = rnd.random()
    if r < 0.35:
        a, _ = str_expr(rnd, comps, depth - 1)
        b, _ = str_expr(rnd, comps, depth - 1)
        return {'k': 'bin', 'op': '||', 'l': a, 'r': b}, 'String'
    if r < 0.6:
        a, _ = str_expr(rnd, comps, depth - 1)
        return {'k': 'un', 'op': rnd.choice(['trim', 'ltrim', 'rtrim', 'upper', 'lower']), 'x': a}, 'String'
    if r < 0.8:
        a, _ = str_expr(rnd, comps, depth - 1)
        st = rnd.choice([None, 1, 2, 3])
        ln = rnd.choice([None, 0, 1, 2, 5])
        return {'k': 'fn', 'op': 'substr', 'args': [a, const(NULL if st is None else I(st)), const(NULL if ln is None else I(ln))]}, 'String'
    a, _ = str_expr(rnd, comps, depth - 1)
    return {'k': 'fn', 'op': 'replace', 'args': [a, const(S(rnd.choice(['a', 'ab', ' ']))), const(S(rnd.choice(['', 'z', 'yy'])))]}, 'String'


def bool_expr(rnd, comps, depth):
    bools = [c for c in comps if c['t'] == 'Boolean']
    if depth <= 0 or rnd.random() < 0.15:
        if bools and rnd.random() < 0.8:
            return var(rnd.choice(bools)['n']), 'Boolean'
        return const(B(rnd.random() < 0.5)), 'Boolean'
    r = rnd.random()
    if r < 0.35:
        a, ta, _ = num_expr(rnd, comps, depth - 1)
        b, tb, _ = num_expr(rnd, comps, depth - 1)
        return {'k': 'bin', 'op': rnd.choice(['=', '<>', '<', '<=', '>', '>=']), 'l': a, 'r': b}, 'Boolean'
    if r < 0.45:
        a, _ = str_expr(rnd, comps, depth - 1)
        b, _ = str_expr(rnd, comps, depth - 1)
        return {'k': 'bin', 'op': rnd.choice(['=', '<>', '<', '>']), 'l': a, 'r': b}, 'Boolean'
    if r < 0.7:
        a, _ = bool_expr(rnd, comps, depth - 1)
        b, _ = bool_expr(rnd, comps, depth - 1)
        return {'k': 'bin', 'op': rnd.choice(['and', 'or', 'xor']), 'l': a, 'r': b}, 'Boolean'
    if r < 0.8:
        a, _ = bool_expr(rnd, comps, depth - 1)
        return {'k': 'un', 'op': 'not', 'x': a}, 'Boolean'
    if r < 0.87:
        kind = rnd.choice(['num', 'str'])
        a = num_expr(rnd, comps, depth - 1)[0] if kind == 'num' else str_expr(rnd, comps, depth - 1)[0]
        return {'k': 'un', 'op': 'isnull', 'x': a}, 'Boolean'
    if r < 0.94:
        a, _, _ = num_expr(rnd, comps, depth - 1)
        return {'k': 'in', 'neg': rnd.random() < 0.4, 'x': a, 'set': [I(x) for x in rnd.sample([0, 1, 2, 5], rnd.choice([1, 2, 3]))]}, 'Boolean'
    a, _, _ = num_expr(rnd, comps, depth - 1)
    return {'k': 'fn', 'op': 'between', 'args': [a, const(I(rnd.choice([-2, 0]))), const(I(rnd.choice([1, 5])))]}, 'Boolean'


def comp_expr(rnd, comps, depth, want=None):
    want = want or rnd.choice(['num', 'num', 'str', 'bool'])
    if want == 'num':
        t, ty, _ = num_expr(rnd, comps, depth)
        return t, ty
    if want == 'str':
        return str_expr(rnd, comps, depth)
    return bool_expr(rnd, comps, depth)


def has_var(t):
    if isinstance(t, dict):
        return t.get('k') == 'var' or any(has_var(v) for v in t.values())
    if isinstance(t, list):
        return any(has_var(v) for v in t)
    return False


# ---- dataset-level terms -----------------------------------------------------------------------

def random_ds(rnd, name, ids, measures, nrows=None, keyspace=None, attrs=False):
    others = [(n, 'M', t) for n, t in measures]
    if attrs and rnd.random() < 0.3:
        others.append(('At_1', 'A', 'String'))
    nrows = nrows if nrows is not None else rnd.choice([0, 1, 2, 3, 5, 8, 20])
    return gen.shuffled(rnd, gen.dataset(rnd, ids, others, nrows, keyspace=keyspace or rnd.choice([3, 4, 6])))


def random_units(rnd, n):
    """Random units: dataset-level operator trees over 1-3 datasets + component-level calc/filter."""
    units = []
    for i in range(n):
        kind = rnd.choice(['dsnum', 'dsnum', 'calc', 'calc', 'filter', 'dsstr', 'dsbool', 'scalar'])
        nid = rnd.choice([1, 1, 2, 3])
        ids = [('Id_1', 'Integer'), ('Id_2', 'String'), ('Id_3', 'Integer')][:nid]
        env = {}
        if kind in ('calc', 'filter'):
            mtypes = [rnd.choice(['Integer', 'Number', 'String', 'Boolean']) for _ in range(rnd.choice([1, 2, 3]))]
            meas = [('Me_%d' % (j + 1), t) for j, t in enumerate(mtypes)]
            ds = random_ds(rnd, 'DS_1', ids, meas, attrs=True)
            env['DS_1'] = ds
            comps = [c for c in ds['comps'] if c['r'] != 'A']
            if kind == 'calc':
                items = []
                for j in range(rnd.choice([1, 1, 2])):
                    for _ in range(20):
                        e, _ = comp_expr(rnd, comps, rnd.choice([1, 2, 3]))
                        if has_var(e):
                            break
                    nm = rnd.choice(['Me_9', 'Me_1', 'X%d' % j]) if j == 0 else 'Y%d' % j
                    if nm in [x['name'] for x in items]:
                        nm = 'Z%d' % j
                    items.append({'name': nm, 'role': rnd.choice(['M', 'M', 'M', 'A']), 'expr': e})
                term = {'k': 'clause', 'op': 'calc', 'ds': var('DS_1'), 'items': items}
            else:
                for _ in range(20):
                    e, _ = bool_expr(rnd, comps, rnd.choice([1, 2, 3]))
                    if has_var(e):
                        break
                term = {'k': 'clause', 'op': 'filter', 'ds': var('DS_1'), 'items': [e]}
        elif kind == 'scalar':
            env['sc_1'] = {'v': gen.value(rnd, 'Integer', 0.2), 't': 'Integer'}
            env['sc_2'] = {'v': gen.value(rnd, 'Number', 0.2), 't': 'Number'}
            comps = [{'n': 'sc_1', 'r': 'M', 't': 'Integer'}, {'n': 'sc_2', 'r': 'M', 't': 'Number'}]
            term, _ = comp_expr(rnd, comps, rnd.choice([1, 2, 3]), want=rnd.choice(['num', 'bool']))
        else:
            t = {'dsnum': rnd.choice(['Integer', 'Number']), 'dsstr': 'String', 'dsbool': 'Boolean'}[kind]
            nme = rnd.choice([1, 1, 2, 3])
            meas = [('Me_%d' % (j + 1), t if kind != 'dsnum' else rnd.choice(['Integer', 'Number'])) for j in range(nme)]
            nds = rnd.choice([1, 2, 2, 3])
            for d in range(nds):
                # nested identifier sets: later datasets may have fewer identifiers
                sub = ids if d == 0 or rnd.random() < 0.6 else ids[:max(1, nid - 1)]
                env['DS_%d' % (d + 1)] = random_ds(rnd, 'DS_%d' % (d + 1), sub, meas, attrs=True)
            term = ds_expr(rnd, kind, sorted(env), rnd.choice([1, 2, 3, 4]), mono=(nme == 1))
        units.append({'id': 'r%d' % i, 'env': env, 'term': term, 'cc': True})
    return units


def ds_expr(rnd, kind, names, depth, mono):
    if depth <= 0 or rnd.random() < 0.2:
        return var(rnd.choice(names))
    if kind == 'dsnum':
        r = rnd.random()
        if r < 0.45:
            op = rnd.choice(['+', '-', '*'])
            return {'k': 'bin', 'op': op, 'l': ds_expr(rnd, kind, names, depth - 1, mono), 'r': ds_expr(rnd, kind, names, min(depth - 1, 1), mono)}
        if r < 0.65:
            sc = rnd.choice([const(I(2)), const(I(-3)), const(N(1, 2)), const(NULL)])
            op = rnd.choice(['+', '-', '*', '/'])
            if op == '/':
                sc = rnd.choice([const(I(2)), const(I(4)), const(I(-5))])
            a = ds_expr(rnd, kind, names, min(depth - 1, 2), mono)
            return {'k': 'bin', 'op': op, 'l': a, 'r': sc} if (op == '/' or rnd.random() < 0.6) else {'k': 'bin', 'op': op, 'l': sc, 'r': a}
        if r < 0.85:
            return {'k': 'un', 'op': rnd.choice(['-', 'abs', '+']), 'x': ds_expr(rnd, kind, names, depth - 1, mono)}
        if mono:
            return {'k': 'un', 'op': rnd.choice(['ceil', 'floor']), 'x': ds_expr(rnd, kind, names, min(depth - 1, 1), mono)}
        return {'k': 'fn', 'op': 'round', 'args': [ds_expr(rnd, kind, names, min(depth - 1, 1), mono), const(I(1))]}
    if kind == 'dsstr':
        r = rnd.random()
        if r < 0.4:
            return {'k': 'bin', 'op': '||', 'l': ds_expr(rnd, kind, names, depth - 1, mono), 'r': ds_expr(rnd, kind, names, min(1, depth - 1), mono)}
        if r < 0.6:
            return {'k': 'bin', 'op': '||', 'l': ds_expr(rnd, kind, names, depth - 1, mono), 'r': const(S(rnd.choice(['', '-', 'zz'])))}
        return {'k': 'un', 'op': rnd.choice(['trim', 'upper', 'lower', 'ltrim', 'rtrim']), 'x': ds_expr(rnd, kind, names, depth - 1, mono)}
    r = rnd.random()
    if r < 0.6:
        return {'k': 'bin', 'op': rnd.choice(['and', 'or', 'xor']), 'l': ds_expr(rnd, kind, names, depth - 1, mono), 'r': ds_expr(rnd, kind, names, min(1, depth - 1), mono)}
    if r < 0.8:
        return {'k': 'bin', 'op': rnd.choice(['and', 'or', 'xor']), 'l': ds_expr(rnd, kind, names, depth - 1, mono), 'r': const(rnd.choice([B(True), B(False), NULL]))}
    return {'k': 'un', 'op': 'not', 'x': ds_expr(rnd, kind, names, depth - 1, mono)}


# ---- clause chains (C02) ------------------------------------------------------------------------

def random_clause(rnd, comps, allow_aggr=False):
    """One random clause applicable to a dataset with components `comps`; returns (clause items dict, new comps)."""
    ids = [c for c in comps if c['r'] == 'I']
    nonid = [c for c in comps if c['r'] != 'I']
    names = {c['n'] for c in comps}
    visible = [c for c in comps if c['r'] != 'A' or True]
    kinds = ['filter', 'filter', 'calc', 'calc', 'calc']
    if nonid:
        kinds += ['keep', 'rename']
    if len(nonid) > 1:
        kinds += ['drop', 'rename_multi']
    if len(ids) > 1:
        kinds += ['sub']
    if ids:
        kinds += ['rename_id']
    kind = rnd.choice(kinds)
    if kind == 'filter':
        for _ in range(20):
            e, _ = bool_expr(rnd, visible, rnd.choice([1, 2, 3]))
            if has_var(e):
                break
        else:
            e = {'k': 'un', 'op': 'isnull', 'x': var(comps[0]['n'])}
        return {'op': 'filter', 'items': [e]}, comps
    if kind == 'calc':
        items, new = [], list(comps)
        used = set()
        for j in range(rnd.choice([1, 1, 2])):
            for _ in range(20):
                e, ty = comp_expr(rnd, visible, rnd.choice([1, 2, 3]))
                if has_var(e):
                    break
            else:
                e, ty = var(comps[0]['n']), comps[0]['t']
            fresh = len(names) + j
            while 'New_%d' % fresh in used or 'New_%d' % fresh in names:
                fresh += 1
            cand = [c['n'] for c in nonid if c['n'] not in used] + ['New_%d' % fresh]
            nm = rnd.choice(cand)
            used.add(nm)
            role = rnd.choice(['M', 'M', 'M', 'A'])
            items.append({'name': nm, 'role': role, 'expr': e})
            new = [c for c in new if c['n'] != nm] + [{'n': nm, 'r': role, 't': ty}]
        return {'op': 'calc', 'items': items}, new
    if kind == 'keep':
        ks = rnd.sample([c['n'] for c in nonid], rnd.randrange(1, len(nonid) + 1))
        return {'op': 'keep', 'items': ks}, [c for c in comps if c['r'] in ('I', 'V') or c['n'] in ks]
    if kind == 'drop':
        ks = rnd.sample([c['n'] for c in nonid], rnd.randrange(1, len(nonid)))
        return {'op': 'drop', 'items': ks}, [c for c in comps if c['n'] not in ks]
    if kind == 'rename_multi':
        # several pairs applied simultaneously; targets may be names renamed away by the same clause (swap / shift)
        a, b = rnd.sample(nonid, 2)
        if rnd.random() < 0.5:
            pairs = [[a['n'], b['n']], [b['n'], a['n']]]
        else:
            to = 'R_%d' % len(names)
            while to in names:
                to += 'x'
            pairs = [[a['n'], b['n']], [b['n'], to]]
        m = dict((x, y) for x, y in pairs)
        return {'op': 'rename', 'items': pairs}, [dict(c, n=m[c['n']]) if c['n'] in m else c for c in comps]
    if kind in ('rename', 'rename_id'):
        src = rnd.choice(nonid if kind == 'rename' else ids)
        to = 'R_%d' % len(names)
        while to in names:
            to += 'x'
        return {'op': 'rename', 'items': [[src['n'], to]]}, [dict(c, n=to) if c['n'] == src['n'] else c for c in comps]
    # sub on one identifier with a value from its key space
    i = rnd.choice(ids)
    v = I(rnd.randrange(1, 4)) if i['t'] == 'Integer' else S(rnd.choice(['a', 'b', 'c']))
    return {'op': 'sub', 'items': [[i['n'], v]]}, [c for c in comps if c['n'] != i['n']]


def random_chain_units(rnd, n, maxlen=4):
    units = []
    for i in range(n):
        nid = rnd.choice([1, 2, 2, 3])
        ids = [('Id_1', 'Integer'), ('Id_2', 'String'), ('Id_3', 'Integer')][:nid]
        meas = [('Me_%d' % (j + 1), rnd.choice(['Integer', 'Number', 'String', 'Boolean'])) for j in range(rnd.choice([1, 2, 3]))]
        ds = random_ds(rnd, 'DS_1', ids, meas, attrs=True)
        comps = list(ds['comps'])
        t = var('DS_1')
        for _ in range(rnd.randrange(1, maxlen + 1)):
            cl, comps = random_clause(rnd, comps)
            t = dict(cl, k='clause', ds=t)
        units.append({'id': 'c%d' % i, 'env': {'DS_1': ds}, 'term': t, 'cc': True})
    return units


# ---- aggregations (C03) --------------------------------------------------------------------------
AGG_OPS = ['sum', 'avg', 'count', 'min', 'max', 'median', 'stddev_pop', 'stddev_samp', 'var_pop', 'var_samp']


def random_agg_units(rnd, n, maxrows=200):
    units = []
    for i in range(n):
        nid = rnd.choice([1, 2, 3, 3])
        ids = [('Id_1', 'Integer'), ('Id_2', 'String'), ('Id_3', 'Integer')][:nid]
        nm = rnd.choice([1, 2])
        meas = [('Me_%d' % (j + 1), rnd.choice(['Integer', 'Number'])) for j in range(nm)]
        nrows = rnd.choice([0, 1, 2, 3, 5, 8, 12, 20, 40, maxrows])
        ks = rnd.choice([2, 3, 4]) if nrows <= 40 else 7
        ds = random_ds(rnd, 'DS_1', ids, meas, nrows=nrows, keyspace=ks)
        idn = [x[0] for x in ids]
        mode = rnd.choice(['none', 'by', 'by', 'except'])
        group = []
        if mode == 'by':
            group = rnd.sample(idn, rnd.randrange(1, len(idn) + 1))
        elif mode == 'except':
            if len(idn) < 2:
                mode, group = 'by', list(idn)
            else:
                group = rnd.sample(idn, rnd.randrange(1, len(idn)))     # leaves at least one identifier
        op = rnd.choice(AGG_OPS)
        if nrows > 40 and op in ('var_pop', 'var_samp', 'stddev_pop', 'stddev_samp', 'median', 'avg'):
            op = rnd.choice(['sum', 'count', 'min', 'max'])      # keep exact rational arithmetic within 32 bits
        having = []
        if mode != 'none' and rnd.random() < 0.35:
            h = rnd.choice([('count', {'k': 'none'}, I(rnd.choice([1, 2]))), ('sum', var('Me_1'), I(0)), ('max', var('Me_1'), I(2)), ('min', var('Me_1'), I(0))])
            having = [{'k': 'bin', 'op': rnd.choice(['>', '>=', '<', '=']), 'l': {'k': 'agg', 'op': h[0], 'x': h[1]}, 'r': const(h[2])}]
        if rnd.random() < 0.55:
            if nm > 1:
                having = []         # standalone having is supported for mono-measure datasets only
            term = {'k': 'agg', 'op': op, 'x': var('DS_1'), 'mode': mode, 'group': group, 'having': having}
        else:
            if mode == 'none':
                mode, group = 'by', rnd.sample(idn, rnd.randrange(1, len(idn) + 1))
            items = []
            for j in range(1 if having else rnd.choice([1, 2])):      # the engine supports having with a single aggr item only
                o = op if j == 0 else rnd.choice(['sum', 'count', 'min', 'max'])
                m = rnd.choice(meas)[0]
                x = var(m) if rnd.random() < 0.8 else {'k': 'bin', 'op': '+', 'l': var(m), 'r': const(I(1))}
                if o == 'count' and rnd.random() < 0.5 and not having:
                    x = {'k': 'none'}
                items.append({'name': 'Agg_%d' % j if rnd.random() < 0.7 else m if j == 0 else 'Agg_%d' % j, 'role': 'M', 'agg': {'k': 'agg', 'op': o, 'x': x}})
            term = {'k': 'clause', 'op': 'aggr', 'ds': var('DS_1'), 'items': items, 'mode': mode, 'group': group, 'having': having}
        units.append({'id': 'a%d' % i, 'env': {'DS_1': ds}, 'term': term, 'cc': True})
    return units


# ---- temporal-typed datasets (Date with / without time part, Time_Period, Time, Duration) ------------------
# The specification treats Time_Period / Time / Duration values as opaque (tag 13) and Dates as <<day, second>>; the
# terms below only use operators whose meaning does not depend on the inside of an opaque value.

def random_temporal_units(rnd, n):
    units = []
    for i in range(n):
        idt = rnd.choice(['Integer', 'Integer', 'Time_Period', 'Date'])
        ids = [('Id_1', idt)] + ([('Id_2', 'String')] if rnd.random() < 0.4 else [])
        pool = [('Me_1', 'Date'), ('Me_2', 'Time_Period'), ('Me_3', 'Time_Period'), ('Me_4', 'Duration'), ('Me_5', 'Time'), ('Me_6', 'Integer')]
        meas = sorted(rnd.sample(pool, rnd.choice([1, 2, 3, 4])))
        nrows = rnd.choice([0, 1, 2, 3, 5, 8])
        env = {'DS_1': gen.shuffled(rnd, gen.dataset(rnd, ids, [(m, 'M', t) for m, t in meas], nrows, keyspace=rnd.choice([4, 8]), null_p=0.3))}
        comps = env['DS_1']['comps']
        mnames = [m for m, _ in meas]
        kind = rnd.choice(['id', 'keep', 'filter_null', 'filter_date', 'calc_null', 'set', 'rename', 'minmax', 'chain'])
        t = var('DS_1')
        if kind == 'keep' and len(mnames) > 1:
            t = {'k': 'clause', 'op': 'keep', 'ds': t, 'items': rnd.sample(mnames, rnd.randrange(1, len(mnames)))}
        elif kind == 'filter_null':
            m = rnd.choice(mnames)
            e = {'k': 'un', 'op': 'isnull', 'x': var(m)}
            t = {'k': 'clause', 'op': 'filter', 'ds': t, 'items': [e if rnd.random() < 0.5 else {'k': 'un', 'op': 'not', 'x': e}]}
        elif kind == 'filter_date' and 'Me_1' in mnames:
            c = const([5, list(rnd.choice(gen.DATE_POOL))])
            t = {'k': 'clause', 'op': 'filter', 'ds': t, 'items': [{'k': 'bin', 'op': rnd.choice(['>', '>=', '<', '=', '<>']), 'l': var('Me_1'), 'r': c}]}
        elif kind == 'calc_null':
            m = rnd.choice(mnames)
            t = {'k': 'clause', 'op': 'calc', 'ds': t, 'items': [{'name': 'Flag', 'role': rnd.choice(['M', 'A']), 'expr': {'k': 'un', 'op': 'isnull', 'x': var(m)}}]}
        elif kind == 'set':
            env['DS_2'] = gen.shuffled(rnd, gen.dataset(rnd, ids, [(m, 'M', tt) for m, tt in meas], rnd.choice([0, 2, 4, 7]), keyspace=rnd.choice([4, 8]), null_p=0.3))
            t = {'k': 'set', 'op': rnd.choice(['union', 'intersect', 'setdiff', 'symdiff']), 'ops': [var('DS_1'), var('DS_2')]}
        elif kind == 'rename':
            m = rnd.choice(mnames)
            t = {'k': 'clause', 'op': 'rename', 'ds': t, 'items': [[m, 'Ren_%s' % m]]}
        elif kind == 'minmax' and mnames == ['Me_1'] and len(ids) > 1:
            t = {'k': 'agg', 'op': rnd.choice(['min', 'max']), 'x': t, 'mode': 'by', 'group': ['Id_2'], 'having': []}
        elif kind == 'chain':
            m = rnd.choice(mnames)
            t = {'k': 'clause', 'op': 'filter', 'ds': t, 'items': [{'k': 'un', 'op': 'not', 'x': {'k': 'un', 'op': 'isnull', 'x': var(m)}}]}
            if len(mnames) > 1:
                t = {'k': 'clause', 'op': 'drop', 'ds': t, 'items': [rnd.choice([x for x in mnames if x != m])]}
        units.append({'id': 't%d' % i, 'env': env, 'term': t, 'cc': True})
    return units


# ---- joins (C04) -----------------------------------------------------------------------------------

def random_join_units(rnd, n):
    """Random joins of 2-3 datasets whose identifier sets are equal or nested, partial key overlap, clashing measure
    names resolved by the body, filters / calc over both sides, aggr, using, cross joins with renamed identifiers."""
    units = []
    for i in range(n):
        how = rnd.choice(['inner', 'inner', 'left', 'left', 'full', 'cross'])
        nds = rnd.choice([2, 2, 3]) if how != 'cross' else 2
        full_ids = [('Id_1', 'Integer'), ('Id_2', 'String')][:rnd.choice([1, 2])]
        env, ops, allmeas = {}, [], {}
        aliased = rnd.random() < 0.5
        for d in range(nds):
            nm = 'DS_%d' % (d + 1)
            if how == 'full' or d == 0 or len(full_ids) == 1 or rnd.random() < 0.5:
                ids = list(full_ids)
            else:
                ids = full_ids[:1]                      # nested identifier set
            if how == 'cross':
                ids = [('Id_%d' % (d + 1) if rnd.random() < 0.7 else 'Id_1', 'Integer')]
            meas = []
            for j in range(rnd.choice([1, 2])):
                mn = rnd.choice(['Me_1', 'Me_%d' % (d + 2), 'Me_%d%d' % (d + 1, j)])
                if mn not in [m[0] for m in meas]:
                    meas.append((mn, rnd.choice(['Integer', 'Integer', 'Number', 'String'])))
            others = [(m, 'M', t) for m, t in meas]
            if rnd.random() < 0.3:
                others.append(('At_%d' % (d + 1), 'A', 'String'))
            env[nm] = gen.shuffled(rnd, gen.dataset(rnd, ids, others, rnd.choice([0, 1, 2, 3, 5, 8]), keyspace=rnd.choice([3, 4])))
            alias = ('d%d' % (d + 1)) if aliased else nm
            ops.append({'t': var(nm), 'a': alias})
            for c in env[nm]['comps']:
                allmeas.setdefault(c['n'], []).append((alias, c))
        if how == 'inner' and rnd.random() < 0.4:
            rnd.shuffle(ops)                             # the superset need not come first for inner joins
        # virtual names
        def shared(nme):
            return how != 'cross' and all(c['r'] == 'I' for _, c in allmeas[nme])
        vnames = {}
        for nme, owners in allmeas.items():
            for a, c in owners:
                vn = nme if (len(owners) == 1 or shared(nme)) else '%s#%s' % (a, nme)
                vnames[vn] = c
        clashes = sorted({vn.split('#')[1] for vn in vnames if '#' in vn})
        body = []
        comps = dict(vnames)
        if rnd.random() < 0.35:                          # filter on a numeric virtual component
            nums = [vn for vn, c in comps.items() if c['t'] in ('Integer', 'Number') and c['r'] != 'I']
            if nums:
                body.append({'op': 'filter', 'items': [{'k': 'bin', 'op': rnd.choice(['>', '<=', '<>']), 'l': var(rnd.choice(nums)), 'r': const(I(rnd.choice([0, 1, 2])))}]})
        if rnd.random() < 0.35:
            nums = [vn for vn, c in comps.items() if c['t'] == 'Integer' and c['r'] != 'I']
            if len(nums) >= 1:
                a = rnd.choice(nums)
                b = rnd.choice(nums)
                body.append({'op': 'calc', 'items': [{'name': 'Zc', 'role': 'M', 'expr': {'k': 'bin', 'op': rnd.choice(['+', '-', '*']), 'l': var(a), 'r': var(b)}}]})
                comps['Zc'] = {'n': 'Zc', 'r': 'M', 't': 'Integer'}
        # resolve clashes
        for cn in clashes:
            vs = [vn for vn in comps if '#' in vn and vn.split('#')[1] == cn]
            if comps[vs[0]]['r'] == 'I':                 # cross join: identifiers must be renamed apart
                ren = [[vn, '%s_%s' % (cn, vn.split('#')[0])] for vn in vs]
                body.append({'op': 'rename', 'items': ren})
                for a, b in ren:
                    comps[b] = comps.pop(a)
                continue
            mode = rnd.choice(['drop', 'rename', 'keep'])
            if mode == 'drop':
                keepone = rnd.choice(vs)
                body.append({'op': 'drop', 'items': [v for v in vs if v != keepone]})
                for v in vs:
                    if v != keepone:
                        comps.pop(v)
            elif mode == 'rename':
                ren = [[vn, '%s_%s' % (cn, vn.split('#')[0])] for vn in vs]
                body.append({'op': 'rename', 'items': ren})
                for a, b in ren:
                    comps[b] = comps.pop(a)
            else:
                keepone = rnd.choice(vs)
                others = [vn for vn, c in comps.items() if c['r'] != 'I' and '#' not in vn and rnd.random() < 0.5]
                if any(k.get('op') in ('keep',) for k in body):
                    body.append({'op': 'drop', 'items': [v for v in vs if v != keepone]})
                    for v in vs:
                        if v != keepone:
                            comps.pop(v)
                else:
                    keepl = [keepone] + others
                    # every other still-clashing name must be resolved by this keep as well
                    for cn2 in clashes:
                        if cn2 != cn:
                            v2 = [vn for vn in comps if '#' in vn and vn.split('#')[1] == cn2 and comps[vn]['r'] != 'I']
                            if v2:
                                keepl.append(rnd.choice(v2))
                    body.append({'op': 'keep', 'items': keepl})
                    for vn in list(comps):
                        if comps[vn]['r'] != 'I' and vn not in keepl:
                            comps.pop(vn)
        # the clauses of a join body come in the order filter, calc/aggr, keep/drop, rename
        order = {'filter': 0, 'calc': 1, 'aggr': 1, 'keep': 2, 'drop': 2, 'rename': 3}
        body.sort(key=lambda c: order[c['op']])
        kd = [c for c in body if c['op'] in ('keep', 'drop')]
        if len(kd) > 1:                                  # one keep/drop clause only: merge drops, give up on mixed
            if all(c['op'] == 'drop' for c in kd):
                merged = {'op': 'drop', 'items': [x for c in kd for x in c['items']]}
                body = [c for c in body if c['op'] not in ('keep', 'drop')] + [merged]
                body.sort(key=lambda c: order[c['op']])
            else:
                continue
        rn = [c for c in body if c['op'] == 'rename']
        if len(rn) > 1:
            merged = {'op': 'rename', 'items': [x for c in rn for x in c['items']]}
            body = [c for c in body if c['op'] != 'rename'] + [merged]
        names_after = [vn.split('#')[-1] for vn in comps]
        if len(set(names_after)) != len(names_after):
            continue
        using = []
        if how in ('inner', 'left') and rnd.random() < 0.25:
            common = set(c['n'] for c in env[ops[0]['t']['name']]['comps'] if c['r'] == 'I')
            for o in ops[1:]:
                common &= set(c['n'] for c in env[o['t']['name']]['comps'] if c['r'] == 'I')
            smaller = [set(c['n'] for c in env[o['t']['name']]['comps'] if c['r'] == 'I') for o in ops[1:]]
            if common and all(s_ == common for s_ in smaller):
                using = sorted(common)
        units.append({'id': 'j%d' % i, 'env': env, 'cc': True, 'term': {'k': 'join', 'how': how, 'ops': ops, 'using': using, 'body': body}})
    return units


# ---- analytic functions (C06) -----------------------------------------------------------------------
AN_WINDOWED = ['sum', 'avg', 'count', 'min', 'max', 'median', 'stddev_pop', 'stddev_samp', 'var_pop', 'var_samp', 'first_value', 'last_value']


def _bound(rnd, side):
    r = rnd.random()
    if r < 0.2:
        return {'n': -1, 'd': 'preceding' if side == 'lo' else 'following'}
    if r < 0.35:
        return {'n': 0, 'd': 'current'}
    return {'n': rnd.choice([0, 1, 2, 3]), 'd': rnd.choice(['preceding', 'following'])}


def _pos(b):
    return 0 if b['d'] == 'current' else (-10 ** 6 if b['n'] == -1 and b['d'] == 'preceding' else 10 ** 6 if b['n'] == -1 else (-b['n'] if b['d'] == 'preceding' else b['n']))


def random_frame(rnd, allow_range):
    for _ in range(50):
        lo, hi = _bound(rnd, 'lo'), _bound(rnd, 'hi')
        if _pos(lo) <= _pos(hi) and not (lo['n'] == -1 and lo['d'] == 'following') and not (hi['n'] == -1 and hi['d'] == 'preceding'):
            return [{'kind': 'range' if allow_range and rnd.random() < 0.3 else 'rows', 'lo': lo, 'hi': hi}]
    return [{'kind': 'rows', 'lo': {'n': -1, 'd': 'preceding'}, 'hi': {'n': 0, 'd': 'current'}}]


def random_analytic_units(rnd, n, maxrows=5):
    """Analytic invocations with total orderings (no ties): partition by Id_1, order by Id_2 (the remaining identifier,
    unique inside a partition) or by a measure with distinct values; every frame shape with offsets 0-3 / unbounded."""
    units = []
    for i in range(n):
        nrows = rnd.choice([0, 1, 2, 3, 4, 5, maxrows])
        mt = rnd.choice(['Integer', 'Integer', 'Number'])
        comps = [gen.comp('Id_1', 'I', 'Integer'), gen.comp('Id_2', 'I', 'Integer'), gen.comp('Me_1', 'M', mt), gen.comp('Me_2', 'M', 'Integer')]
        rows, seen = [], set()
        distinct = rnd.sample(range(-9, 30), 12)
        while len(rows) < nrows:
            k = (rnd.choice([1, 1, 2]), rnd.randrange(1, 7))
            if k in seen:
                continue
            seen.add(k)
            v = gen.value(rnd, mt, 0.2)
            rows.append({'Id_1': I(k[0]), 'Id_2': I(k[1]), 'Me_1': v, 'Me_2': I(distinct[len(rows)])})
        ds = gen.shuffled(rnd, {'comps': comps, 'rows': rows})
        op = rnd.choice(AN_WINDOWED + ['lag', 'lead', 'rank', 'ratio_to_report'])
        part = rnd.choice([['Id_1'], ['Id_1'], []])
        level = rnd.choice(['calc', 'calc', 'ds'])
        if op == 'rank':
            level = 'calc'
        if op == 'ratio_to_report':
            part = ['Id_1']
        # ordering by a measure is only accepted at dataset level (inside calc the engine resolves order keys among identifiers)
        okey = (rnd.choice(['Id_2', 'Id_2', 'Me_2']) if level == 'ds' else 'Id_2') if part else (rnd.choice(['Me_2', 'ids']) if level == 'ds' else 'ids')
        order = [['Id_1', rnd.choice(['asc', 'desc'])], ['Id_2', rnd.choice(['asc', 'desc'])]] if okey == 'ids' else [[okey, rnd.choice(['asc', 'desc'])]]
        t = {'k': 'an', 'op': op, 'part': part, 'order': order, 'frame': [], 'params': []}
        if op in AN_WINDOWED:
            t['frame'] = random_frame(rnd, allow_range=len(order) == 1)
        elif op in ('lag', 'lead'):
            t['params'] = [I(rnd.choice([0, 1, 2, 3]))] + ([I(99)] if rnd.random() < 0.4 and mt == 'Integer' else [])
        elif op == 'ratio_to_report':
            t['order'] = []
        if op == 'rank' or level == 'calc':
            t['x'] = {'k': 'none'} if op == 'rank' else var('Me_1')
            term = {'k': 'clause', 'op': 'calc', 'ds': var('DS_1'), 'items': [{'name': 'An_1', 'role': 'M', 'expr': t}]}
            if op != 'rank' and rnd.random() < 0.3:        # a second analytic item in the same calc
                t2 = dict(t, op=rnd.choice(['sum', 'max', 'count']), frame=random_frame(rnd, allow_range=False), params=[], order=order)
                term['items'].append({'name': 'An_2', 'role': 'M', 'expr': t2})
        else:
            t['x'] = var('DS_1')
            term = t
        units.append({'id': 'w%d' % i, 'env': {'DS_1': ds}, 'term': term, 'cc': True})
    return units


# ---- validation and hierarchy (C07) -----------------------------------------------------------------
HR_MODES = ['non_null', 'non_zero', 'partial_null', 'partial_zero', 'always_null', 'always_zero']


def _codes(rnd):
    return rnd.sample(['A', 'B', 'C', 'D', 'T'], rnd.choice([3, 4, 5]))


def random_validation_units(rnd, n):
    units = []
    for i in range(n):
        kind = rnd.choice(['check', 'dpcheck', 'dpcheck', 'hcheck', 'hcheck', 'hier', 'hier'])
        if kind == 'check':
            ids = [('Id_1', 'Integer')] + ([('Id_2', 'String')] if rnd.random() < 0.5 else [])
            env = {'DS_1': gen.shuffled(rnd, gen.dataset(rnd, ids, [('Me_1', 'M', 'Integer')], rnd.choice([0, 1, 3, 5, 8]), keyspace=4, null_p=0.2))}
            x = {'k': 'bin', 'op': rnd.choice(['>', '>=', '<', '=', '<>']), 'l': var('DS_1'), 'r': const(I(rnd.choice([0, 1, 2])))}
            imb = []
            if rnd.random() < 0.5:
                env['DS_2'] = gen.shuffled(rnd, gen.dataset(rnd, ids, [('Me_1', 'M', 'Integer')], rnd.choice([0, 2, 5, 8]), keyspace=4, null_p=0.2))
                imb = [rnd.choice([var('DS_2'), {'k': 'bin', 'op': '-', 'l': var('DS_1'), 'r': var('DS_2')}])]
                if imb[0]['k'] == 'bin':
                    x = {'k': 'bin', 'op': rnd.choice(['>', '=', '<=']), 'l': var('DS_1'), 'r': var('DS_2')}
            term = {'k': 'check', 'x': x, 'imb': imb, 'ec': rnd.choice([S('E1'), NULL]), 'el': rnd.choice([I(2), NULL]), 'out': rnd.choice(['invalid', 'all'])}
        elif kind == 'dpcheck':
            ids = [('Id_1', 'Integer')] + ([('Id_2', 'String')] if rnd.random() < 0.5 else [])
            env = {'DS_1': gen.shuffled(rnd, gen.dataset(rnd, ids, [('Me_1', 'M', 'Integer'), ('Me_2', 'M', 'Integer')], rnd.choice([0, 1, 3, 5, 8]), keyspace=4, null_p=0.2))}
            rules = []
            for j in range(rnd.choice([1, 2, 3, 5])):
                def cmp_(m):
                    return {'k': 'bin', 'op': rnd.choice(['>', '>=', '<', '=', '<>']), 'l': var(m), 'r': rnd.choice([const(I(rnd.choice([0, 1, 3]))), var('Me_2' if m == 'Me_1' else 'Me_1')])}
                then = cmp_(rnd.choice(['Me_1', 'Me_2']))
                if rnd.random() < 0.25:
                    then = {'k': 'bin', 'op': rnd.choice(['and', 'or']), 'l': then, 'r': cmp_('Me_2')}
                rules.append({'name': S('r%d' % (j + 1)), 'when': [cmp_(rnd.choice(['Me_1', 'Me_2']))] if rnd.random() < 0.5 else [], 'then': then,
                              'ec': rnd.choice([S('E%d' % j), NULL]), 'el': rnd.choice([I(j + 1), NULL])})
            term = {'k': 'dpcheck', 'ds': var('DS_1'), 'rs': 'dpr_%d' % i, 'vars': ['Me_1', 'Me_2'], 'rules': rules, 'out': rnd.choice(['invalid', 'all', 'all_measures'])}
        else:
            codes = _codes(rnd)
            twoids = rnd.random() < 0.6
            comps = ([gen.comp('Id_1', 'I', 'Integer')] if twoids else []) + [gen.comp('Id_2', 'I', 'String'), gen.comp('Me_1', 'M', 'Integer')]
            rows = []
            for k1 in ([1, 2, 3][:rnd.choice([1, 2, 3])] if twoids else [0]):
                for c in codes:
                    r = rnd.random()
                    if r < 0.25:
                        continue                           # missing code item
                    v = NULL if r < 0.4 else I(rnd.choice([0, 0, 1, 2, 3, 5, -2]))
                    row = {'Id_2': S(c), 'Me_1': v}
                    if twoids:
                        row['Id_1'] = I(k1)
                    rows.append(row)
            env = {'DS_1': gen.shuffled(rnd, {'comps': comps, 'rows': rows})}
            nrules = rnd.choice([1, 2, 3, 5])
            layered = rnd.random() < 0.8
            rules, lefts = [], []
            avail = list(codes)
            for j in range(nrules):
                cand = avail[:-1] if layered else avail
                left = rnd.choice([c for c in cand if c not in lefts] or cand)
                rs = [c for c in codes if c != left]
                if layered and [c for c in codes if codes.index(c) > codes.index(left)]:
                    rs = [c for c in codes if codes.index(c) > codes.index(left)]     # no cycles: an item only depends on later ones
                right = [[rnd.choice(['+', '+', '-']), S(c)] for c in rnd.sample(rs, rnd.randrange(1, min(3, len(rs)) + 1))]
                right[0][0] = '+'
                op = '=' if kind == 'hier' or rnd.random() < 0.5 else rnd.choice(['>', '>=', '<', '<='])
                lefts.append(left)
                rules.append({'name': S('h%d' % (j + 1)), 'left': S(left), 'op': op, 'right': right, 'ec': rnd.choice([S('H%d' % j), NULL]), 'el': rnd.choice([I(j + 1), NULL])})
            if kind == 'hier':
                # one rule per computed item, no cyclic dependencies among the computed items
                seen, rr = set(), []
                for r_ in rules:
                    lc = ''.join(chr(x) for x in r_['left'][1])
                    if lc in seen:
                        continue
                    seen.add(lc)
                    rr.append(r_)
                rules = rr
                order = hr_order(rules)
                if order is None:
                    continue
                term = {'k': 'hier', 'check': False, 'ds': var('DS_1'), 'rs': 'hr_%d' % i, 'comp': 'Id_2', 'rules': rules, 'mode': rnd.choice(HR_MODES),
                        'input': rnd.choice(['dataset', 'rule', 'rule_priority']), 'out': rnd.choice(['computed', 'all']), 'order': order}
            else:
                term = {'k': 'hier', 'check': True, 'ds': var('DS_1'), 'rs': 'hr_%d' % i, 'comp': 'Id_2', 'rules': rules, 'mode': rnd.choice(HR_MODES),
                        'input': 'dataset', 'out': rnd.choice(['invalid', 'all', 'all_measures']), 'order': []}
        units.append({'id': 'v%d' % i, 'env': env, 'term': term, 'cc': True, 'nopack': True})
    return units


def hr_order(rules):
    """dependency order of the '=' rules (1-based indexes); None if cyclic"""
    left = {''.join(chr(x) for x in r['left'][1]): j for j, r in enumerate(rules)}
    deps = {j: {left[''.join(chr(x) for x in c[1])] for _, c in r['right'] if ''.join(chr(x) for x in c[1]) in left and left[''.join(chr(x) for x in c[1])] != j}
            for j, r in enumerate(rules)}
    order, done = [], set()
    while len(order) < len(rules):
        ready = [j for j in range(len(rules)) if j not in done and deps[j] <= done]
        if not ready:
            return None
        j = ready[0]
        order.append(j + 1)
        done.add(j)
    return order


def random_ifds_units(rnd, n):
    """dataset-level conditional: if DS_cond then a else b (a, b datasets or scalars), conditions that are datasets or comparisons"""
    units = []
    for i in range(n):
        two = rnd.random() < 0.4
        ids = [('Id_1', 'Integer')] + ([('Id_2', 'String')] if two else [])
        env = {'DS_c': gen.shuffled(rnd, gen.dataset(rnd, ids, [('Me_1', 'M', 'Boolean')], rnd.choice([0, 2, 5, 8]), keyspace=3, null_p=0.25)),
               'DS_n': gen.shuffled(rnd, gen.dataset(rnd, ids, [('Me_1', 'M', 'Integer')], rnd.choice([1, 4, 8]), keyspace=3, null_p=0.2))}
        for nm in ('DS_1', 'DS_2'):
            env[nm] = gen.shuffled(rnd, gen.dataset(rnd, ids, [('Me_1', 'M', 'Number'), ('Me_2', 'M', 'Integer')], rnd.choice([0, 2, 5, 8]), keyspace=3, null_p=0.2))
        cond = rnd.choice([var('DS_c'), var('DS_c'), {'k': 'bin', 'op': rnd.choice(['>', '<=', '=']), 'l': var('DS_n'), 'r': const(I(rnd.choice([0, 1, 3])))},
                           {'k': 'un', 'op': 'not', 'x': var('DS_c')}, {'k': 'un', 'op': 'isnull', 'x': var('DS_n')}])
        ds1 = rnd.choice([var('DS_1'), var('DS_1'), {'k': 'bin', 'op': rnd.choice(['+', '*']), 'l': var('DS_1'), 'r': const(I(2))}])
        ds2 = rnd.choice([var('DS_2'), var('DS_2'), {'k': 'un', 'op': '-', 'x': var('DS_2')}])
        sc = const(I(rnd.choice([0, 1, -7])))
        a, b = rnd.choice([(ds1, ds2), (ds1, ds2), (ds1, sc), (sc, ds2), (ds1, ds1)])
        units.append({'id': 'if%d' % i, 'env': env, 'term': {'k': 'if', 'c': cond, 't': a, 'e': b}, 'cc': True})
    return units


def random_caseds_units(rnd, n):
    """dataset-level case with mutually exclusive conditions over one Integer dataset (= 0, = 1, > 1), then / else datasets or scalars"""
    units = []
    for i in range(n):
        ids = [('Id_1', 'Integer')]
        env = {'DS_n': gen.shuffled(rnd, gen.dataset(rnd, ids, [('Me_1', 'M', 'Integer')], rnd.choice([0, 3, 6, 8]), keyspace=3, null_p=0.25))}
        for r in env['DS_n']['rows']:
            if r['Me_1'][0] == 1:
                r['Me_1'] = I(rnd.choice([0, 1, 2, 3]))
        for nm in ('DS_1', 'DS_2', 'DS_3'):
            env[nm] = gen.shuffled(rnd, gen.dataset(rnd, ids, [('Me_1', 'M', 'Number'), ('Me_2', 'M', 'Integer')], rnd.choice([0, 3, 6, 8]), keyspace=3, null_p=0.2))
        conds = [{'k': 'bin', 'op': '=', 'l': var('DS_n'), 'r': const(I(0))}, {'k': 'bin', 'op': '=', 'l': var('DS_n'), 'r': const(I(1))},
                 {'k': 'bin', 'op': '>', 'l': var('DS_n'), 'r': const(I(1))}]
        k = rnd.choice([1, 2, 2, 3])
        conds = rnd.sample(conds, k)
        opnd = lambda: rnd.choice([var('DS_1'), var('DS_2'), var('DS_3'), const(I(rnd.choice([0, 9])))])
        whens = [[c, opnd()] for c in conds]
        e = opnd()
        if all(x.get('k') == 'const' for x in [w[1] for w in whens] + [e]):
            e = var('DS_3')
        units.append({'id': 'cs%d' % i, 'env': env, 'term': {'k': 'case', 'whens': whens, 'else': e}, 'cc': True})
    return units


def random_exists_units(rnd, n):
    """exists_in over equal and nested identifier sets, every retain option, operands that are expressions"""
    units = []
    for i in range(n):
        ids2 = [('Id_1', 'Integer'), ('Id_2', 'String')]
        a_ids, b_ids = rnd.choice([(ids2, ids2), (ids2, ids2[:1]), (ids2[:1], ids2), (ids2[:1], ids2[:1])])
        env = {'DS_1': gen.shuffled(rnd, gen.dataset(rnd, a_ids, [('Me_1', 'M', 'Integer')], rnd.choice([0, 2, 5, 9]), keyspace=3, null_p=0.2)),
               'DS_2': gen.shuffled(rnd, gen.dataset(rnd, b_ids, [('Me_1', 'M', 'Integer'), ('Me_2', 'M', 'String')][:rnd.choice([1, 2])], rnd.choice([0, 2, 5, 9]), keyspace=3, null_p=0.2))}
        l = rnd.choice([var('DS_1'), var('DS_1'), {'k': 'clause', 'op': 'filter', 'ds': var('DS_1'), 'items': [{'k': 'bin', 'op': '>', 'l': var('Me_1'), 'r': const(I(0))}]}])
        r = rnd.choice([var('DS_2'), var('DS_2'), {'k': 'clause', 'op': 'filter', 'ds': var('DS_2'), 'items': [{'k': 'un', 'op': 'isnull', 'x': var('Me_1')}]}])
        units.append({'id': 'ex%d' % i, 'env': env, 'term': {'k': 'exists', 'l': l, 'r': r, 'retain': rnd.choice(['default', 'all', 'true', 'false'])}, 'cc': True})
    return units


def udo_wrap(units, rnd, share=1.0):
    """the same statement written as a call of a user-defined operator whose body is the statement's expression over parameters:
    R := f(DS_1, DS_2) with define operator f (p1 dataset, p2 dataset) returns dataset is <expression over p1, p2>"""
    from . import k2
    out = []
    for u in units:
        t = u['term']
        names = sorted(n for n, d in u['env'].items() if 'comps' in d)
        if rnd.random() > share or not names or t.get('k') in ('var', 'const', 'udo') or any('comps' not in d for d in u['env'].values()):
            continue
        if t.get('k') in ('hier', 'dpcheck', 'check'):
            continue
        params = ['p_%d' % (i + 1) for i in range(len(names))]
        body = k2.rename_term(json.loads(json.dumps(t)), dict(zip(names, params)))
        args = [var(n) for n in names]
        v = dict(u)
        v['id'] = u['id'] + '.udo'
        v['term'] = {'k': 'udo', 'name': 'f_%d' % len(out), 'params': params, 'ptypes': ['dataset'] * len(params), 'returns': 'dataset', 'body': body, 'args': args}
        out.append(v)
    return out


def random_unpivot_units(rnd, n):
    """unpivot over datasets with 1-3 measures of one numeric type and nulls, alone and after / before other clauses"""
    units = []
    for i in range(n):
        ids = [('Id_1', 'Integer')] + ([('Id_2', 'String')] if rnd.random() < 0.5 else [])
        ty = rnd.choice(['Integer', 'Number'])
        meas = [('Me_%d' % (j + 1), 'M', ty) for j in range(rnd.choice([1, 2, 3]))]
        others = meas + ([('At_1', 'A', 'String')] if rnd.random() < 0.3 else [])
        env = {'DS_1': gen.shuffled(rnd, gen.dataset(rnd, ids, others, rnd.choice([0, 1, 3, 6]), keyspace=3, null_p=0.3))}
        t = var('DS_1')
        kept = [m for m, _, _ in meas]
        if rnd.random() < 0.3 and len(kept) > 1:
            kept = rnd.sample(kept, len(kept) - 1)
            t = {'k': 'clause', 'op': 'keep', 'ds': t, 'items': kept}
        t = {'k': 'clause', 'op': 'unpivot', 'ds': t, 'items': ['Id_9', 'Me_9', {m: [ord(c) for c in m] for m in kept}]}
        if rnd.random() < 0.4:
            t = {'k': 'clause', 'op': 'filter', 'ds': t, 'items': [{'k': 'bin', 'op': rnd.choice(['>', '<=']), 'l': var('Me_9'), 'r': const(I(0))}]}
        units.append({'id': 'up%d' % i, 'env': env, 'term': t, 'cc': True})
    return units


def random_vd_units(rnd, n):
    """in / not_in against VALUE DOMAINS of the environment (run(value_domains=...)) at dataset, membership and
    component level; the same statements with the set written out are the units of random_units."""
    units = []
    for i in range(n):
        nty = rnd.choice(['Integer', 'Number'])
        ids = [('Id_1', 'Integer'), ('Id_2', 'String')][:rnd.choice([1, 2, 2])]
        others = [('Me_1', 'M', nty), ('Me_2', 'M', 'String')] + ([('At_1', 'A', 'String')] if rnd.random() < 0.2 else [])
        ds = gen.shuffled(rnd, gen.dataset(rnd, ids, others, rnd.choice([0, 1, 3, 6, 12]), keyspace=4, null_p=0.25))
        env = {'DS_1': ds}

        def pool(col, extra):
            seen = []
            for r in ds['rows']:
                v = r.get(col)
                if v is not None and v[0] != 0 and v not in seen:
                    seen.append(v)
            k = rnd.choice([0, 1, 2, 3])
            return rnd.sample(seen, min(k, len(seen))) + [extra]
        env['VD_1'] = {'set': pool('Me_1', I(77) if nty == 'Integer' else N(15, 2)), 't': nty}
        strcol = rnd.choice(['Me_2'] + (['Id_2'] if len(ids) > 1 else []))
        env['VD_2'] = {'set': pool(strcol, S('zz')), 't': 'String'}
        env['VD_3'] = {'set': pool('Id_1', I(-3)), 't': 'Integer'}

        def m(comp, dom, neg=None):
            return {'k': 'in', 'neg': rnd.random() < 0.4 if neg is None else neg, 'x': var(comp), 'set': [], 'dom': dom}
        kind = rnd.choice(['ds', 'memb', 'calc', 'filter', 'both'])
        if kind == 'ds':
            t = {'k': 'in', 'neg': rnd.random() < 0.4, 'x': {'k': 'clause', 'op': 'keep', 'ds': var('DS_1'), 'items': ['Me_1']}, 'set': [], 'dom': 'VD_1'}
        elif kind == 'memb':
            c, d = rnd.choice([('Me_1', 'VD_1'), ('Me_2', 'VD_2')])
            t = {'k': 'in', 'neg': rnd.random() < 0.4, 'x': {'k': 'memb', 'ds': var('DS_1'), 'comp': c}, 'set': [], 'dom': d}
        elif kind == 'calc':
            items = [{'name': 'X1', 'role': 'M', 'expr': m('Me_1', 'VD_1')}, {'name': 'X2', 'role': rnd.choice(['M', 'A']), 'expr': m(strcol, 'VD_2')},
                     {'name': 'X3', 'role': 'M', 'expr': m('Id_1', 'VD_3')}]
            t = {'k': 'clause', 'op': 'calc', 'ds': var('DS_1'), 'items': rnd.sample(items, rnd.choice([1, 2, 3]))}
        elif kind == 'filter':
            t = {'k': 'clause', 'op': 'filter', 'ds': var('DS_1'), 'items': [rnd.choice([m('Me_1', 'VD_1'), m(strcol, 'VD_2'), m('Id_1', 'VD_3')])]}
        else:
            e = {'k': 'bin', 'op': rnd.choice(['and', 'or', 'xor']), 'l': m('Me_1', 'VD_1'), 'r': {'k': 'un', 'op': 'not', 'x': m(strcol, 'VD_2')}}
            t = {'k': 'clause', 'op': rnd.choice(['filter', 'calc']), 'ds': var('DS_1'), 'items': None}
            t['items'] = [e] if t['op'] == 'filter' else [{'name': 'X1', 'role': 'M', 'expr': e}]
        units.append({'id': 'vd%d' % i, 'env': env, 'term': t, 'cc': True, 'nopack': True})
    return units


def random_apply_units(rnd, n, attrs=False, three=False, cmp_ops=False):
    """joins of two (three) aliased datasets whose body ends with `apply a op b`: homonymous measures are combined, other
    measures left out; optionally a filter before it and keep / rename after it.
    attrs / three / cmp_ops switch on the shapes for which the engine has known findings (kept apart so that the
    plain shapes are judged on their own)."""
    units = []
    for i in range(n):
        how = rnd.choice(['inner', 'inner', 'left', 'full'])
        ids = [('Id_1', 'Integer'), ('Id_2', 'String')][:rnd.choice([1, 1, 2])]
        nds = 3 if three else 2
        common = ['Me_1'] + (['Me_2'] if rnd.random() < 0.5 else [])
        ty = {m: rnd.choice(['Integer', 'Number']) for m in common}
        env, ops = {}, []
        aliased = rnd.random() < 0.7
        for d in range(nds):
            nm = 'DS_%d' % (d + 1)
            others = [(m, 'M', ty[m] if rnd.random() < 0.7 else rnd.choice(['Integer', 'Number'])) for m in common]
            if rnd.random() < 0.4:
                others.append(('Me_%d' % (d + 5), 'M', 'Integer'))          # not homonymous: left out by apply
            if attrs:
                others.append(('At_1', 'A', 'String'))
            env[nm] = gen.shuffled(rnd, gen.dataset(rnd, ids, others, rnd.choice([0, 1, 2, 3, 5]), keyspace=3, null_p=0.2))
            ops.append({'t': var(nm), 'a': ('d%d' % (d + 1)) if aliased else nm})
        a, b = rnd.sample([o['a'] for o in ops], 2)
        bop = rnd.choice(['>', '<=', '=']) if cmp_ops else rnd.choice(['+', '-', '*'])
        body = []
        if rnd.random() < 0.3:
            body.append({'op': 'filter', 'items': [{'k': 'bin', 'op': rnd.choice(['>', '<=']), 'l': var('%s#Me_1' % a), 'r': const(I(rnd.choice([0, 1, 2])))}]})
        body.append({'op': 'apply', 'items': [a, b, bop]})
        r = rnd.random()
        if r < 0.2 and len(common) > 1:
            body.append({'op': 'keep', 'items': ['Me_2']})
        elif r < 0.4:
            body.append({'op': 'rename', 'items': [['Me_1', 'X_1']]})
        cls = []
        if any(c['n'] not in common and c['r'] == 'M' for d in env.values() for c in d['comps']):
            cls.append('with a non-homonymous measure')
        if body[-1]['op'] != 'apply':
            cls.append('followed by ' + body[-1]['op'])
        if body[0]['op'] == 'filter':
            cls.append('after filter')
        if len({c['t'] for d in env.values() for c in d['comps'] if c['n'] in common}) > 1:
            cls.append('Integer with Number')
        cls += (['attributes'] if attrs else []) + (['three operands'] if three else []) + (['comparison'] if cmp_ops else [])
        units.append({'id': 'ap%d' % i, 'env': env, 'term': {'k': 'join', 'how': how, 'ops': ops, 'using': [], 'body': body}, 'cc': True, 'nopack': True,
                      'applyclass': ', '.join(cls) or 'plain'})
    return units
