"""Pure-Python stand-in for the pybind11 extension ``vtl_cpp_parser``.

It serves parse trees produced by ANTLR's Java runtime interpreting the serialized ATN that is
embedded in the repository's generated C++ parser (see parser_shim/extract.py).  It reproduces
the extension's surface and its one piece of native state: a single "last parse" buffer.  Nodes of
an earlier parse become *stale* once a later parse() starts; touching a stale node is recorded in
``STALE_TOUCHES`` (observable analogue of the native use-after-free, used by C17/C23).
"""
import json
import os
import re
import struct
import subprocess
import sys
import threading
import types

HERE = os.path.dirname(os.path.abspath(__file__))
VERIF = os.path.dirname(HERE)

_G = None
_srv = None
_srv_lock = threading.Lock()
_state = {'text': '', 'comments': [], 'error': None, 'gen': 0}
STALE_TOUCHES = []          # (generation of node, current generation, what)
PARSE_LOG = None            # optional list: harness sets it to record (mode, text, ok)
FORCE_MODE = None           # harness may force 'LL' / 'SLL'
PARSE_TIMEOUT = 120.0


def _jar():
    for p in (os.path.join(VERIF, 'vendor', 'antlr4-runtime-4.11.1.jar'),
              '/opt/veriftools/tlapm/lib/tlapm/backends/Isabelle/contrib/solr-9.7.0-1/lib/antlr4-runtime-4.11.1.jar'):
        if os.path.exists(p):
            return p
    raise RuntimeError('antlr runtime jar not found')


class Server:
    def __init__(self, grammar_txt):
        self.grammar_txt = grammar_txt
        self.start()

    def start(self):
        cp = _jar() + ':' + os.path.join(VERIF, 'build', 'parser')
        self.p = subprocess.Popen(['java', '-Xss512m', '-Xmx2g', '-XX:+UseSerialGC', '-XX:TieredStopAtLevel=1',
                                   '-cp', cp, 'VtlParseServer', self.grammar_txt],
                                  stdin=subprocess.PIPE, stdout=subprocess.PIPE, stderr=subprocess.DEVNULL)

    def parse(self, text, mode='SLL', timeout=None):
        b = text.encode('utf-8', errors='replace')
        res = {}

        def io():
            try:
                self.p.stdin.write(struct.pack('>iB', len(b), 1 if mode == 'LL' else 0) + b)
                self.p.stdin.flush()
                h = self.p.stdout.read(4)
                n = struct.unpack('>i', h)[0]
                res['v'] = json.loads(self.p.stdout.read(n))
            except Exception as e:  # noqa
                res['e'] = e
        t = threading.Thread(target=io, daemon=True)
        t.start()
        t.join(timeout or PARSE_TIMEOUT)
        if t.is_alive() or 'e' in res:
            try:
                self.p.kill()
            except Exception:
                pass
            self.start()
            if t.is_alive():
                return {'hang': True}
            return {'crash': repr(res['e'])}
        return res['v']

    def close(self):
        try:
            self.p.stdin.close()
            self.p.kill()
        except Exception:
            pass


def configure(grammar_dir):
    """Point the shim at the extraction output (grammar.json / grammar.txt)."""
    global _G, _srv
    _G = json.load(open(os.path.join(grammar_dir, 'grammar.json')))
    _G['_dir'] = grammar_dir
    if _srv is not None:
        _srv.close()
        _srv = None
    _install_constants()


def server():
    global _srv
    with _srv_lock:
        if _srv is None:
            _srv = Server(os.path.join(_G['_dir'], 'grammar.txt'))
        return _srv


def raw_parse(text, mode=None, timeout=None):
    """Parse without touching the 'last parse' state (used by C31)."""
    with _srv_lock_io:
        return server().parse(text, mode or _G['prediction_mode'], timeout)


_srv_lock_io = threading.Lock()


def _touch(gen, what):
    if gen != _state['gen']:
        STALE_TOUCHES.append((gen, _state['gen'], what))


class TerminalNode:
    __slots__ = ('symbol_type', 'text', 'line', 'column')
    is_terminal = True

    def __init__(self, t):
        self.symbol_type, self.text, self.line, self.column = t


class ParseNode:
    __slots__ = ('_d', 'rule_index', 'alt_index', '_children', '_gen')
    is_terminal = False

    def __init__(self, d, gen):
        self._d = d
        self.rule_index = d['r']
        self.alt_index = d['a']
        self._children = None
        self._gen = gen

    @property
    def children(self):
        if self._children is None:
            _touch(self._gen, 'children')
            g = self._gen
            self._children = [TerminalNode(c['t']) if 't' in c else ParseNode(c, g) for c in self._d['c']]
        return self._children

    def _pos(self, key, i, default=0):
        _touch(self._gen, key)
        v = self._d.get(key)
        return v[i] if v else default

    @property
    def start_line(self):
        return self._pos('s', 0)

    @property
    def start_column(self):
        return self._pos('s', 1)

    @property
    def stop_line(self):
        return self._pos('p', 0)

    @property
    def stop_column(self):
        return self._pos('p', 1)

    @property
    def stop_text(self):
        return self._pos('p', 2, '')

    @property
    def text(self):
        _touch(self._gen, 'text')
        out = []
        stack = [self._d]
        while stack:
            d = stack.pop()
            if 't' in d:
                out.append(d['t'][1])
            else:
                stack.extend(reversed(d['c']))
        return ''.join(out)

    @property
    def ctx_id(self):
        return (self.rule_index, self.alt_index)


def _source_line_expanded(text, line, col1):
    """Transcription of extract_source_line_expanded (tab expansion, caret remap)."""
    tw = _G.get('tab_width', 4)
    if line < 1:
        return '', col1
    lines = text.split('\n')
    if line > len(lines):
        return '', col1
    src = lines[line - 1]
    out = []
    n = 0
    orig = 1
    remapped = col1
    for c in src:
        if orig == col1:
            remapped = n + 1
        if c == '\t':
            out.append(' ' * tw)
            n += tw
        elif c != '\r':
            out.append(c)
            n += 1
        orig += 1
    if col1 > orig:
        remapped = n + 1
    return ''.join(out), remapped


def parse(text):
    mode = FORCE_MODE or _G['prediction_mode']
    _state['gen'] += 1
    gen = _state['gen']
    with _srv_lock_io:
        r = server().parse(text, mode)
        if 'hang' in r:
            # a loaded machine (JVM start-up of the restarted server included) is not a hang of the parser: one more
            # attempt with four times the patience before the text is reported as hanging
            r = server().parse(text, mode, timeout=4 * PARSE_TIMEOUT)
    if 'hang' in r:
        raise RuntimeError('VERIF-PARSER-HANG')
    if 'crash' in r:
        raise RuntimeError('VERIF-PARSER-CRASH ' + r['crash'])
    _state['text'] = text
    _state['comments'] = [{'type': c[0], 'text': c[1], 'line': c[2], 'column': c[3]} for c in r['comments']]
    e = r['error']
    if e is not None:
        col1 = e['column'] + 1
        sl, col1 = _source_line_expanded(text, e['line'], col1)
        e['source_line'] = sl
        e['column'] = col1 - 1
    _state['error'] = e
    if PARSE_LOG is not None:
        PARSE_LOG.append((mode, text, e is None))
    return ParseNode(r['tree'], gen)


def get_input_text():
    return _state['text']


def get_comments():
    return [dict(c) for c in _state['comments']]


def get_syntax_error():
    return dict(_state['error']) if _state['error'] is not None else None


MODNAME = 'vtlengine.AST.Grammar._cpp_parser.vtl_cpp_parser'
mod = types.ModuleType(MODNAME)
for _k, _v in dict(ParseNode=ParseNode, TerminalNode=TerminalNode, parse=parse, get_input_text=get_input_text,
                   get_comments=get_comments, get_syntax_error=get_syntax_error).items():
    setattr(mod, _k, _v)
mod.__doc__ = 'verif stand-in for the compiled VTL parser'


def _install_constants():
    for k, v in _G['tok_enum'].items():
        setattr(mod, k, v)
    mod.TOKEN_EOF = -1
    for k, v in _G['rule_enum'].items():
        setattr(mod, 'RULE_' + re.sub(r'(?<!^)(?=[A-Z])', '_', k).upper(), v)
    for name, rule in _G.get('exported_rules', []):
        setattr(mod, name, _G['rule_enum'][rule])


def install():
    sys.modules[MODNAME] = mod
