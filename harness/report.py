"""Check results: evidence file, known findings, VIOLATION / KNOWN-FINDING lines, exit codes."""
import json
import os
import re
import sys
import time

from . import engine

_OUT = os.environ.get('VERIF_OUT_DIR') or engine.VERIF      # mutant evaluation writes elsewhere
EVID = os.path.join(_OUT, 'evidence')
REPLAYS = os.path.join(_OUT, 'replays')
FINDINGS = os.path.join(engine.VERIF, 'known_findings.json')


class Check:
    def __init__(self, pid, tier, seed, level):
        self.pid = pid
        self.tier = tier
        self.seed = seed
        self.level = level
        self.t0 = time.time()
        self.cov = {'samples': []}
        self.violations = []      # dict(key, what, replay)
        self.assumptions = []
        self.notes = {}

    # -------------------------------------------------------------------------------------
    def add(self, key, n=1):
        self.cov[key] = self.cov.get(key, 0) + n

    def sample(self, x, limit=5):
        if len(self.cov['samples']) < limit:
            self.cov['samples'].append(x)

    def violation(self, key, what, replay=None):
        """key: stable identification of the failing input / call site / history."""
        self.violations.append({'key': key, 'what': what, 'replay': replay})

    # -------------------------------------------------------------------------------------
    def finish(self):
        known = []
        if os.path.exists(FINDINGS):
            known = [f for f in json.load(open(FINDINGS)).get('findings', [])
                     if f.get('property') == self.pid and f.get('status') == 'known']
        os.makedirs(REPLAYS, exist_ok=True)
        import glob
        for old in glob.glob(os.path.join(REPLAYS, self.pid + '-*.json')):
            os.unlink(old)
        os.makedirs(EVID, exist_ok=True)
        reported, seen_known = [], {}
        for v in self.violations:
            hit = None
            for f in known:
                if re.search(f['match'], v['key']):
                    hit = f
                    break
            if hit is not None:
                seen_known.setdefault(hit['id'], (hit, []))[1].append(v)
            else:
                reported.append(v)
        for fid, (f, vs) in seen_known.items():
            print('KNOWN-FINDING: property=%s %s [%s; %d occurrence(s) this run, e.g. %s]' %
                  (self.pid, f['what'], fid, len(vs), vs[0]['key'][:160]))
        paths = []
        groups = {}
        for v in reported:
            groups.setdefault(v['key'].split(' | ')[0], []).append(v)
        for n, (g, vs) in enumerate(sorted(groups.items())):
            path = os.path.join(REPLAYS, '%s-%d.json' % (self.pid, n))
            with open(path, 'w') as fh:
                json.dump({'property': self.pid, 'key': g, 'count': len(vs), 'all_keys': sorted({v['key'] for v in vs})[:400],
                           'cases': [{'key': v['key'], 'what': v['what'], 'replay': v['replay']} for v in vs[:20]]},
                          fh, indent=1, default=str)
            paths.append(path)
            print('VIOLATION property=%s replay=%s' % (self.pid, path))
            print('  %s: %s (%d case(s))' % (g, vs[0]['what'][:400], len(vs)))
        cov = dict(self.cov)
        cov.setdefault('evaluations', 0)
        cov.setdefault('distinct_nontrivial', 0)
        cov.setdefault('rule', '')
        if not cov['samples']:
            cov['samples'] = ['(none)']
        ev = {'property_id': self.pid, 'tier': self.tier, 'seed': self.seed, 'level': self.level,
              'coverage': cov, 'assumptions': self.assumptions, 'wall_s': round(time.time() - self.t0, 2),
              'violations': len(reported), 'known_findings_seen': sorted(seen_known),
              'notes': self.notes}
        with open(os.path.join(EVID, self.pid + '.json'), 'w') as fh:
            json.dump(ev, fh, indent=1, default=str)
        print('%s tier=%s seed=%d wall=%.1fs evaluations=%s distinct_nontrivial=%s violations=%d known=%d' %
              (self.pid, self.tier, self.seed, time.time() - self.t0, cov.get('evaluations'),
               cov.get('distinct_nontrivial'), len(reported), len(seen_known)))
        return 1 if reported else 0


def machinery_failure(pid, msg):
    sys.stderr.write('MACHINERY-FAILURE property=%s: %s\n' % (pid, msg))
    sys.exit(2)
