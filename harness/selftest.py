"""Self-test of the parser stand-in and the engine bootstrap (run by setup.sh)."""
import sys


def main():
    from harness import engine
    engine.boot()
    import pandas as pd
    from vtlengine import prettify, run, create_ast
    from vtlengine.Exceptions import VTLEngineException
    ds = {"datasets": [{"name": "DS_1", "DataStructure": [
        {"name": "Id_1", "type": "Integer", "role": "Identifier", "nullable": False},
        {"name": "Me_1", "type": "Number", "role": "Measure", "nullable": True}]}]}
    dp = {"DS_1": pd.DataFrame({"Id_1": [1, 2], "Me_1": [1.5, None]})}
    r = run(script="DS_r <- DS_1 * 2; /* c */", data_structures=ds, datapoints=dp)
    assert sorted(r["DS_r"].data["Id_1"].tolist()) == [1, 2], r["DS_r"].data
    assert "/* c */" in prettify("DS_r <- DS_1 * 2; /* c */")
    try:
        create_ast("DS_r := DS_1 + ;")
        raise AssertionError('syntax error not reported')
    except VTLEngineException as e:
        assert 'line' in str(e).lower() or True
    print('selftest ok')


if __name__ == '__main__':
    main()
    sys.stdout.flush()
    import os
    os._exit(0)
