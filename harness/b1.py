"""Binding B1 (spec -> code): run a TLC generation model, turn its transitions into engine runs,
compare; and B2 (code -> spec): engine observations validated by the trace spec."""
import json
import random

from . import k2, tlc, values


def generate(module, cfg, workers=8, timeout=1800, simulate=None, depth=None, seed=None):
    """Run a generation model; returns (units, TLCResult). Each unit: {env, term, exp, depth}."""
    r = tlc.run(module, cfg, workers=workers, timeout=timeout, simulate=simulate, depth=depth, seed=seed,
                coverage=False)
    if r.violated:
        return [], r
    tlc.must(r, module)
    seen = set()
    units = []
    for line in r.lines:
        if line in seen:
            continue
        seen.add(line)
        units.append(json.loads(line))
    return units, r


def normalise_unit(u, i, prefix='g'):
    """Generation output -> executable unit (ToJson rendered sets as arrays already)."""
    return {'id': '%s%d' % (prefix, i), 'env': u['env'], 'term': u['term'], 'exp': u['exp'], 'cc': True}


def replay(chk, units, keyfn, sample=None, seed=0, label='b1', pack=40, cc=True, extra_unit=None):
    """Execute units on the engine and compare with the expected value computed by TLC."""
    rnd = random.Random(seed)
    if sample is not None and len(units) > sample:
        units = rnd.sample(units, sample)
    us = []
    for i, u in enumerate(units):
        x = normalise_unit(u, i, label)
        x['cc'] = cc
        if extra_unit:
            x.update(extra_unit)
        us.append(x)
    obs = k2.execute(us, pack=pack)
    nontrivial = set()
    rejected = 0
    for u, o in zip(us, obs):
        if 'machinery' in o:
            raise RuntimeError(o['machinery'])
        chk.add('evaluations')
        ok, why = judge(u['exp'], o, u['cc'])
        if ok is None and why.startswith('undetermined'):
            chk.add('undetermined_not_judged')
            continue
        if ok is None:
            rejected += 1
            chk.add('rejected_by_engine')
            chk.notes.setdefault('rejected_by_engine_samples', [])
            if len(chk.notes['rejected_by_engine_samples']) < 5:
                chk.notes['rejected_by_engine_samples'].append({'text': o.get('text'), 'err': o.get('err'), 'msg': o.get('msg')})
            continue
        chk.add('traces_validated_against_impl')
        nontrivial.add(json.dumps([u['term'], u['exp']], sort_keys=True))
        if not ok:
            chk.violation('%s | %s | %s' % (failure_kind(why), keyfn(u), o.get('text')), why,
                          {'env': u['env'], 'term': u['term'], 'expected': u['exp'],
                           'observed': {k: v for k, v in o.items() if k != 'tb'}})
        else:
            chk.sample({'script': o.get('text'), 'expected': u['exp'] if len(json.dumps(u['exp'])) < 600 else '...'})
    chk.add('distinct_nontrivial', len(nontrivial))
    return us, obs


def failure_kind(why):
    for k, pat in (('decimal-scale', 'out of range of the DECIMAL type'), ('raw', 'raw (non-VTL)'), ('comps', 'components differ'), ('value', 'value of '), ('rows', 'row count'),
                   ('missing', 'missing datapoint'), ('noerror', 'VTL defines a runtime error'), ('error', 'engine raised'),
                   ('columns', 'columns differ'), ('scalar', 'scalar ')):
        if pat in why:
            if k == 'raw':
                return 'raw:' + why.split('RAW:')[1].split(' ')[0] if 'RAW:' in why else 'raw'
            return k
    return 'other'


def judge(exp, o, cc=True):
    """(ok, why); ok None = the engine rejected a spec-well-typed unit at semantic analysis."""
    if exp.get('err') == 'undetermined':
        return None, 'undetermined by VTL (not judged)'
    if 'err' in o:
        if o['err'].startswith('RAW:'):
            return False, 'raw (non-VTL) exception escaped: %s %s' % (o['err'], o.get('msg'))
        if 'err' in exp:
            return True, ''
        if o['err'] in ('SemanticError',):
            return None, 'rejected by engine: %s' % o.get('msg')
        return False, 'engine raised %s %s but VTL defines a value' % (o['err'], o.get('msg'))
    if 'err' in exp:
        return False, 'VTL defines a runtime error, engine returned a value'
    return values.result_close(exp, o, cc)


def validate(chk, units, keyfn, pack=40, module='VTLOperators_Trace', cfg='VTLOperators_Trace.cfg', raw_is_violation=True, group=None):
    """B2: observe units on the engine, let TLC judge each observation.
    group: name of a unit field; units sharing it are variants of one abstract step - when raw_is_violation is off,
    an error outcome is only a violation if another variant of the same group succeeded (outcome depends on the variant)."""
    obs = k2.execute(units, pack=pack)
    live_u, live_o = [], []
    okgroups = set()
    if group:
        for u, o in zip(units, obs):
            if 'err' not in o:
                okgroups.add(u[group])
    for u, o in zip(units, obs):
        if 'machinery' in o:
            raise RuntimeError(o['machinery'])
        chk.add('evaluations')
        if 'err' in o and not raw_is_violation:
            if group and u[group] in okgroups:
                chk.violation('outcome depends on the variant | %s | %s' % (keyfn(u), o.get('text')),
                              'this variant raised %s %s while another variant of the same step returned a result' % (o['err'], o.get('msg')),
                              {'env': u['env'], 'term': u['term'], 'observed': o})
            else:
                chk.add('skipped_engine_error')
            continue
        if 'err' in o and o['err'].startswith('RAW:'):
            chk.violation('raw:%s | %s | %s' % (o['err'][4:], keyfn(u), o.get('text')), 'raw (non-VTL) exception escaped: %s %s' % (o['err'], o.get('msg')),
                          {'env': u['env'], 'term': u['term'], 'observed': o})
            continue
        if o.get('err') == 'SemanticError':
            chk.add('rejected_by_engine')
            chk.notes.setdefault('rejected_by_engine_samples', [])
            if len(chk.notes['rejected_by_engine_samples']) < 5:
                chk.notes['rejected_by_engine_samples'].append({'text': o.get('text'), 'msg': o.get('msg')})
            continue
        live_u.append(u)
        live_o.append(o)
    verdicts, states, gen = k2.validate(live_u, live_o, module, cfg)
    chk.add('states', states)
    chk.add('transitions', gen)
    nontrivial = set()
    for u, o, v in zip(live_u, live_o, verdicts):
        if v['ok'] is None:
            chk.add('undetermined_not_judged' if v.get('why', '').startswith('undetermined') else 'skipped_overflow')
            continue
        chk.add('traces_validated_against_impl')
        nontrivial.add(json.dumps(u['term'], sort_keys=True) + str(len(o.get('rows', []))))
        if not v['ok']:
            chk.violation('%s | %s | %s' % (failure_kind(v['why']), keyfn(u), o.get('text')), v['why'],
                          {'env': u['env'], 'term': u['term'], 'expected': v.get('exp'), 'observed': o})
    chk.add('distinct_nontrivial', len(nontrivial))
    return live_u, live_o, verdicts


def binding_demo(chk, units, obs, corrupt, module='VTLOperators_Trace', cfg='VTLOperators_Trace.cfg'):
    """Corrupt one accepted observation and require the validator to reject it (exit 2 otherwise)."""
    for u, o in zip(units, obs):
        if 'rows' in o and o['rows']:
            bad = corrupt(json.loads(json.dumps(o)))
            if bad is None:
                continue
            v, _, _ = k2.validate([u], [bad], module, cfg, workers=2)
            if v[0]['ok']:
                raise RuntimeError('binding demonstration failed: corrupted observation accepted for %s' % o.get('text'))
            chk.notes['binding_demo'] = {'script': o.get('text'), 'corrupted_rejected_because': v[0]['why']}
            return True
    raise RuntimeError('binding demonstration: no unit with data to corrupt')
