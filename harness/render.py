"""Term -> VTL text (written from Vtl.g4, independent of the engine's ASTString)."""
from fractions import Fraction

RESERVED_OK = None


def name(n):
    import re
    if '#' in n:        # alias#component inside a join body
        a, b = n.split('#', 1)
        return name(a) + '#' + name(b)
    if re.match(r'^[A-Za-z][A-Za-z0-9_.]*$', n) and n.lower() not in _KW:
        return n
    return "'" + n + "'"


_KW = set("""eval if case then else using with current_date on drop keep calc attrcalc rename as and or xor not
between in not_in null isnull ex union diff symdiff intersect random keys check exists_in to return imbalance
errorcode all aggr errorlevel order by rank asc desc min max first last indexof abs key ln log trunc round power mod
length trim upper lower substr sum avg median count identifier measure attribute filter merge exp viral
match_characters type nvl hierarchy invalid valuedomain variable data structure dataset operator define datapoint
hierarchical ruleset rule end ltrim rtrim instr replace ceil floor sqrt any setdiff stddev_pop stddev_samp var_pop
var_samp group except having first_value last_value lag lead ratio_to_report over preceding following unbounded
partition rows range current valid fill_time_series flow_to_stock stock_to_flow timeshift measures no_measures
condition boolean date time_period number string time integer float list record restrict yyyy mm dd maxlength regexp
is when from aggregates points point total partial always inner_join left_join cross_join full_join maps_from maps_to
map_to map_from returns pivot unpivot sub apply conditioned period_indicator single duration time_agg unit value
valuedomains variables input output cast rule_priority dataset_priority default check_datapoint check_hierarchy
computed non_null non_zero partial_null partial_zero always_null always_zero components all_measures scalar component
datapoint_on_valuedomains datapoint_on_variables hierarchical_on_valuedomains hierarchical_on_variables set language
true false getyear getmonth dayofmonth dayofyear datediff dateadd daytoyear daytomonth yeartoday monthtoday""".split())


def const(v):
    tag, p = v
    if tag == 0:
        return 'null'
    if tag == 1:
        return str(p)
    if tag == 2:
        f = Fraction(p[0], p[1])
        s = ('%.10f' % float(f)).rstrip('0')
        if s.endswith('.'):
            s += '0'
        return s
    if tag == 3:
        return 'true' if p else 'false'
    if tag == 4:
        return '"' + ''.join(chr(c) for c in p) + '"'
    if tag == 5:
        from . import values
        return 'cast("%s", date)' % values.dec(v)
    if tag == 13:
        return p
    raise ValueError(v)


PREFIX_UN = {'+': '+', '-': '-', 'not': 'not '}
FUNC_BIN = {'mod', 'power', 'log', 'nvl'}
ROLE_KW = {'M': '', 'I': 'identifier ', 'A': 'attribute ', 'V': 'viral attribute '}


def operand(t):
    s = expr(t)
    return s if t['k'] in ('var', 'const', 'fn', 'agg', 'set', 'memb', 'clause', 'join', 'an', 'cast') or \
        (t['k'] == 'un' and t['op'] not in PREFIX_UN) or (t['k'] == 'bin' and t['op'] in FUNC_BIN) else '(' + s + ')'


def expr(t):
    k = t['k']
    if k == 'var':
        return name(t['name'])
    if k == 'const':
        return const(t['v'])
    if k == 'none':
        return ''
    if k == 'un':
        if t['op'] in PREFIX_UN:
            return PREFIX_UN[t['op']] + operand(t['x'])
        return '%s(%s)' % (t['op'], expr(t['x']))
    if k == 'bin':
        if t['op'] in FUNC_BIN:
            return '%s(%s, %s)' % (t['op'], expr(t['l']), expr(t['r']))
        return '%s %s %s' % (operand(t['l']), t['op'], operand(t['r']))
    if k == 'fn':
        args = list(t['args'])
        if t['op'] == 'between':
            return 'between(%s, %s, %s)' % tuple(expr(a) for a in args)
        while len(args) > 1 and args[-1]['k'] == 'const' and args[-1]['v'][0] == 0:
            args.pop()
        parts = [expr(args[0])] + ['_' if (a['k'] == 'const' and a['v'][0] == 0) else expr(a) for a in args[1:]]
        return '%s(%s)' % (t['op'], ', '.join(parts))
    if k == 'in' and t.get('dom'):
        return '%s %s %s' % (operand(t['x']), 'not_in' if t['neg'] else 'in', name(t['dom']))
    if k == 'in':
        return '%s %s {%s}' % (operand(t['x']), 'not_in' if t['neg'] else 'in', ', '.join(const(v) for v in t['set']))
    if k == 'udo':
        return '%s(%s)' % (t['name'], ', '.join(expr(a) for a in t['args']))
    if k == 'exists':
        return 'exists_in(%s, %s%s)' % (expr(t['l']), expr(t['r']), '' if t['retain'] == 'default' else ', ' + t['retain'])
    if k == 'if':
        return 'if %s then %s else %s' % (operand(t['c']), operand(t['t']), operand(t['e']))
    if k == 'case':
        return 'case ' + ' '.join('when %s then %s' % (operand(c), operand(x)) for c, x in t['whens']) + \
            ' else ' + operand(t['else'])
    if k == 'memb':
        return '%s#%s' % (operand(t['ds']), name(t['comp']))
    if k == 'clause':
        return '%s[%s]' % (operand(t['ds']), clause_body(t))
    if k == 'agg':
        return '%s(%s%s%s)' % (t['op'], expr(t['x']), group(t), having(t))
    if k == 'set':
        return '%s(%s)' % (t['op'], ', '.join(expr(o) for o in t['ops']))
    if k == 'cast':
        return 'cast(%s, %s%s)' % (expr(t['x']), t['to'], (', "%s"' % t['mask']) if t.get('mask') else '')
    if k == 'join':
        return join(t)
    if k == 'an':
        return analytic(t)
    if k == 'check':
        s = 'check(%s' % expr(t['x'])
        if t['ec'][0] != 0:
            s += ' errorcode %s' % const(t['ec'])
        if t['el'][0] != 0:
            s += ' errorlevel %s' % const(t['el'])
        if t.get('imb'):
            s += ' imbalance %s' % expr(t['imb'][0])
        return s + ' %s)' % t['out']
    if k == 'dpcheck':
        return 'check_datapoint(%s, %s %s)' % (expr(t['ds']), t['rs'], t['out'])
    if k == 'hier':
        if t['check']:
            return 'check_hierarchy(%s, %s rule %s %s %s)' % (expr(t['ds']), t['rs'], name(t['comp']), t['mode'], t['out'])
        return 'hierarchy(%s, %s rule %s %s %s %s)' % (expr(t['ds']), t['rs'], name(t['comp']), t['mode'], t['input'], t['out'])
    if k == 'raw':
        return t['text']
    raise ValueError('cannot render %r' % (t,))


def group(t):
    if t.get('mode') in ('by', 'except') and t.get('group'):
        return ' group %s %s' % (t['mode'], ', '.join(name(g) for g in t['group']))
    return ''


def having(t):
    if t.get('having'):
        return ' having ' + expr(t['having'][0])
    return ''


def aggcall(a):
    if a['op'] == 'count' and a['x']['k'] == 'none':
        return 'count()'
    return '%s(%s)' % (a['op'], expr(a['x']))


def clause_body(t):
    op = t['op']
    it = t['items']
    if op == 'filter':
        return 'filter ' + expr(it[0])
    if op == 'calc':
        return 'calc ' + ', '.join('%s%s := %s' % (ROLE_KW[i['role']], name(i['name']), expr(i['expr'])) for i in it)
    if op in ('keep', 'drop'):
        return op + ' ' + ', '.join(name(n) for n in it)
    if op == 'rename':
        return 'rename ' + ', '.join('%s to %s' % (name(a), name(b)) for a, b in it)
    if op == 'apply':
        return 'apply %s %s %s' % (name(it[0]), it[2], name(it[1]))
    if op == 'unpivot':
        return 'unpivot %s, %s' % (name(it[0]), name(it[1]))
    if op == 'sub':
        return 'sub ' + ', '.join('%s = %s' % (name(a), const(v)) for a, v in it)
    if op == 'aggr':
        return 'aggr ' + ', '.join('%s%s := %s' % (ROLE_KW[i['role']], name(i['name']), aggcall(i['agg'])) for i in it) + \
            group(t) + having(t)
    raise ValueError(op)


def join(t):
    # an operand without explicit alias is known by its dataset name (alias field = that name)
    ops = ', '.join(expr(o['t']) + ((' as ' + name(o['a'])) if not (o['t'].get('k') == 'var' and o['t']['name'] == o['a']) else '') for o in t['ops'])
    s = '%s(%s' % (t['how'] + '_join', ops)
    if t.get('using'):
        s += ' using ' + ', '.join(name(u) for u in t['using'])
    for c in t.get('body', []):
        s += ' ' + clause_body(c)
    return s + ')'


def analytic(t):
    parts = []
    if t.get('part'):
        parts.append('partition by ' + ', '.join(name(p) for p in t['part']))
    if t.get('order'):
        parts.append('order by ' + ', '.join('%s %s' % (name(o), d) for o, d in t['order']))
    if t.get('frame'):
        f = t['frame'][0]
        parts.append('%s between %s and %s' % ('data points' if f['kind'] == 'rows' else 'range', bound(f['lo']), bound(f['hi'])))
    params = ''.join(', ' + const(p) for p in t.get('params', []))
    x = '' if t['x'].get('k') == 'none' else expr(t['x'])
    return '%s(%s%s%sover (%s))' % (t['op'], x, params, ' ' if x else '', ' '.join(parts))


def bound(b):
    if b['d'] == 'current':
        return 'current data point'
    return ('unbounded ' if b['n'] == -1 else '%d ' % b['n']) + b['d']


def script(stmts):
    return '\n'.join('%s %s %s;' % (name(s['name']), '<-' if s.get('persistent') else ':=', expr(s['expr'])) for s in stmts)


def _err(r):
    s = ''
    if r['ec'][0] != 0:
        s += ' errorcode %s' % const(r['ec'])
    if r['el'][0] != 0:
        s += ' errorlevel %s' % const(r['el'])
    return s


def prelude(t):
    """define statements (rulesets) needed by the validation terms inside t"""
    out = []
    if isinstance(t, dict):
        if t.get('k') == 'dpcheck':
            rules = []
            for r in t['rules']:
                body = ('when %s then %s' % (expr(r['when'][0]), expr(r['then']))) if r['when'] else expr(r['then'])
                rules.append('  %s: %s%s' % (''.join(chr(c) for c in r['name'][1]), body, _err(r)))
            out.append('define datapoint ruleset %s (variable %s) is\n%s\nend datapoint ruleset;' % (t['rs'], ', '.join(name(v) for v in t['vars']), ';\n'.join(rules)))
        elif t.get('k') == 'udo':
            out.append('define operator %s (%s)\n  returns %s is\n    %s\nend operator;' % (
                t['name'], ', '.join('%s %s' % (p, ty) for p, ty in zip(t['params'], t['ptypes'])), t['returns'], expr(t['body'])))
        elif t.get('k') == 'hier':
            rules = []
            for r in t['rules']:
                rhs = ''
                for j, (sg, c) in enumerate(r['right']):
                    code = ''.join(chr(x) for x in c[1])
                    rhs += (code if (j == 0 and sg == '+') else ' %s %s' % (sg, code)) if j else (('-' if sg == '-' else '') + code)
                rules.append('  %s: %s %s %s%s' % (''.join(chr(c) for c in r['name'][1]), ''.join(chr(x) for x in r['left'][1]), r['op'], rhs, _err(r)))
            out.append('define hierarchical ruleset %s (variable rule %s) is\n%s\nend hierarchical ruleset;' % (t['rs'], name(t['comp']), ';\n'.join(rules)))
        for v in t.values():
            out += prelude(v)
    elif isinstance(t, list):
        for v in t:
            out += prelude(v)
    return out


def statement(res, t, persistent=False):
    return '\n'.join(prelude(t) + ['%s %s %s;' % (name(res), '<-' if persistent else ':=', expr(t))])
