import org.antlr.v4.runtime.*;
import org.antlr.v4.runtime.atn.*;
import org.antlr.v4.runtime.tree.*;
import java.io.*;
import java.nio.charset.StandardCharsets;
import java.util.*;

public class VtlParseServer {
    static List<String> parserRules, lexerRules, literal, symbolic, channels, modes;
    static int[] parserAtnData, lexerAtnData;
    static Map<Long,Integer> outerAlt = new HashMap<>(), opAlt = new HashMap<>();
    static ATN parserATN, lexerATN;
    static Vocabulary vocab;

    static String unq(String s) { // JSON string -> java string (simple)
        if (!s.startsWith("\"")) return s;
        StringBuilder sb = new StringBuilder();
        for (int i = 1; i < s.length() - 1; i++) {
            char c = s.charAt(i);
            if (c == '\\') { char d = s.charAt(++i);
                switch (d) { case 'n': sb.append('\n'); break; case 't': sb.append('\t'); break; case 'r': sb.append('\r'); break;
                  case 'u': sb.append((char)Integer.parseInt(s.substring(i+1,i+5),16)); i+=4; break; default: sb.append(d);} }
            else sb.append(c);
        }
        return sb.toString();
    }
    static void load(String path) throws IOException {
        BufferedReader br = new BufferedReader(new InputStreamReader(new FileInputStream(path), StandardCharsets.UTF_8));
        String line;
        while ((line = br.readLine()) != null) {
            String[] h = line.substring(1).split(" "); int n = Integer.parseInt(h[1]);
            List<String> items = new ArrayList<>();
            for (int i = 0; i < n; i++) items.add(unq(br.readLine()));
            switch (h[0]) {
              case "parser_atn": parserAtnData = items.stream().mapToInt(Integer::parseInt).toArray(); break;
              case "lexer_atn": lexerAtnData = items.stream().mapToInt(Integer::parseInt).toArray(); break;
              case "parser_rules": parserRules = items; break; case "lexer_rules": lexerRules = items; break;
              case "literal": literal = items; break; case "symbolic": symbolic = items; break;
              case "channels": channels = items; break; case "modes": modes = items; break;
              case "altmap": for (String s : items) { String[] p = s.split(" ");
                  long key = Long.parseLong(p[0]) * 1000 + Long.parseLong(p[2]);
                  (p[1].equals("O") ? outerAlt : opAlt).put(key, Integer.parseInt(p[3])); } break;
            }
        }
        String[] lit = new String[literal.size()], sym = new String[symbolic.size()];
        for (int i = 0; i < lit.length; i++) lit[i] = literal.get(i).isEmpty() ? null : literal.get(i);
        for (int i = 0; i < sym.length; i++) sym[i] = symbolic.get(i).isEmpty() ? null : symbolic.get(i);
        vocab = new VocabularyImpl(lit, sym);
        parserATN = new ATNDeserializer().deserialize(parserAtnData);
        lexerATN = new ATNDeserializer().deserialize(lexerAtnData);
    }

    static class Ctx extends InterpreterRuleContext {
        int alt = -1;   // labelled alt index (bindings.cpp numbering) or -1
        boolean altSet = false;
        Ctx(ParserRuleContext parent, int invokingState, int ruleIndex) { super(parent, invokingState, ruleIndex); }
    }
    static class P extends ParserInterpreter {
        P(TokenStream in) { super("Vtl.g4", vocab, parserRules, parserATN, in); }
        @Override protected InterpreterRuleContext createInterpreterRuleContext(ParserRuleContext parent, int invokingStateNumber, int ruleIndex) {
            Ctx c = new Ctx(parent, invokingStateNumber, ruleIndex);
            ATNState first = atn.ruleToStartState[ruleIndex].transition(0).target;
            if (!(first instanceof DecisionState) || first.getNumberOfTransitions() <= 1) {
                Integer a = outerAlt.get((long)ruleIndex * 1000 + 1);
                if (a != null) c.alt = a;   // single outer alternative: label known without a decision
            }
            return c;
        }
        @Override protected int visitDecisionState(DecisionState p) {
            int alt = super.visitDecisionState(p);
            record(p, alt);
            return alt;
        }
        void record(DecisionState p, int alt) {
            Ctx c = (Ctx) _ctx;
            RuleStartState rs = atn.ruleToStartState[p.ruleIndex];
            ATNState first = rs.transition(0).target;
            if (p == first) { // outer (or primary for LR rules) alternative
                Integer a = outerAlt.get((long)p.ruleIndex * 1000 + alt);
                if (a != null && !c.altSet) { c.alt = a; c.altSet = true; }
            } else if (p instanceof StarBlockStartState && rs.isLeftRecursiveRule) {
                // operator alternative block of the (...)* loop of a left-recursive rule
                ATNState loopEntry = ((StarBlockStartState)p).endState.transition(0).target; // loopback
                // identify: the star loop that is the precedence decision
                if (isPrecedenceLoopBlock((StarBlockStartState)p)) {
                    Integer a = opAlt.get((long)p.ruleIndex * 1000 + alt);
                    if (a != null) { c.alt = a; c.altSet = true; }
                }
            }
        }
        boolean isPrecedenceLoopBlock(StarBlockStartState b) {
            // StarLoopEntryState -> (StarBlockStart | LoopEnd); find an entry with isPrecedenceDecision pointing at b
            for (ATNState s : atn.states) if (s instanceof StarLoopEntryState && ((StarLoopEntryState)s).isPrecedenceDecision && s.ruleIndex == b.ruleIndex) {
                for (int i = 0; i < s.getNumberOfTransitions(); i++) if (s.transition(i).target == b) return true;
            }
            return false;
        }
    }

    static class Err extends BaseErrorListener {
        boolean has = false; int line, col; String msg, text; int ulen = 1;
        @Override public void syntaxError(Recognizer<?,?> r, Object off, int line, int col, String msg, RecognitionException e) {
            if (has) return; has = true; this.line = line; this.col = col; this.msg = msg;
            text = "";
            if (off instanceof Token) { Token t = (Token) off; text = t.getText(); if (t.getStopIndex() >= t.getStartIndex() && t.getStopIndex() != -1) ulen = t.getStopIndex() - t.getStartIndex() + 1; }
        }
    }
    static void js(StringBuilder sb, String s) {
        sb.append('"');
        for (int i = 0; i < s.length(); i++) { char c = s.charAt(i);
            if (c == '"' || c == '\\') sb.append('\\').append(c);
            else if (c < 0x20 || c > 0x7e) sb.append(String.format("\\u%04x", (int)c));
            else sb.append(c); }
        sb.append('"');
    }
    static void tok(StringBuilder sb, Token t) {
        sb.append("[").append(t.getType()).append(","); js(sb, t.getText()); sb.append(",").append(t.getLine()).append(",").append(t.getCharPositionInLine()).append("]");
    }
    static void dump(StringBuilder sb, ParseTree t) {
        // iterative-safe enough for tests; recursion depth = tree depth
        if (t instanceof TerminalNode) { sb.append("{\"t\":"); tok(sb, ((TerminalNode)t).getSymbol()); sb.append(",\"e\":").append(t instanceof ErrorNode ? 1 : 0).append("}"); return; }
        Ctx c = (Ctx) t;
        sb.append("{\"r\":").append(c.getRuleIndex()).append(",\"a\":").append(c.alt);
        if (c.start != null) { sb.append(",\"s\":["); sb.append(c.start.getLine()).append(",").append(c.start.getCharPositionInLine()).append("]"); }
        if (c.stop != null) { sb.append(",\"p\":["); sb.append(c.stop.getLine()).append(",").append(c.stop.getCharPositionInLine()).append(","); js(sb, c.stop.getText()); sb.append("]"); }
        sb.append(",\"c\":[");
        if (c.children != null) for (int i = 0; i < c.children.size(); i++) { if (i > 0) sb.append(","); dump(sb, c.children.get(i)); }
        sb.append("]}");
    }
    static String parse(String text, String mode) {
        CharStream cs = CharStreams.fromString(text);
        LexerInterpreter lex = new LexerInterpreter("VtlTokens.g4", vocab, lexerRules, channels, modes, lexerATN, cs);
        CommonTokenStream ts = new CommonTokenStream(lex);
        P p = new P(ts);
        p.getInterpreter().setPredictionMode(mode.equals("LL") ? PredictionMode.LL : PredictionMode.SLL);
        Err err = new Err();
        lex.removeErrorListeners(); lex.addErrorListener(err);
        p.removeErrorListeners(); p.addErrorListener(err);
        ParserRuleContext tree = p.parse(0);
        ts.fill();
        StringBuilder sb = new StringBuilder();
        sb.append("{\"tree\":"); dump(sb, tree);
        sb.append(",\"comments\":[");
        boolean first = true;
        int ML = vocabType("ML_COMMENT"), SL = vocabType("SL_COMMENT");
        for (Token t : ts.getTokens()) if (t.getType() == ML || t.getType() == SL) { if (!first) sb.append(","); first = false; tok(sb, t); }
        sb.append("],\"error\":");
        if (!err.has) sb.append("null"); else { sb.append("{\"line\":").append(err.line).append(",\"column\":").append(err.col).append(",\"message\":"); js(sb, err.msg); sb.append(",\"offending_text\":"); js(sb, err.text); sb.append(",\"underline_length\":").append(err.ulen).append("}"); }
        sb.append("}");
        return sb.toString();
    }
    static int vocabType(String name) { for (int i = 0; i < symbolic.size(); i++) if (name.equals(symbolic.get(i))) return i; return -99; }

    public static void main(String[] a) throws Exception {
        load(a[0]);
        final Exception[] fail = new Exception[1];
        Thread t = new Thread(null, () -> { try { serve(); } catch (Exception e) { fail[0] = e; } }, "serve", 2L << 30);
        t.start(); t.join();
        if (fail[0] != null) throw fail[0];
    }
    static void serve() throws Exception {
        DataInputStream in = new DataInputStream(new BufferedInputStream(System.in));
        PrintStream out = new PrintStream(new FileOutputStream(FileDescriptor.out), false, "UTF-8");
        while (true) {
            int n;
            try { n = in.readInt(); } catch (EOFException e) { break; }
            byte mode = in.readByte();
            byte[] buf = new byte[n]; in.readFully(buf);
            String res;
            try { res = parse(new String(buf, StandardCharsets.UTF_8), mode == 1 ? "LL" : "SLL"); }
            catch (Throwable t) { StringBuilder sb = new StringBuilder("{\"crash\":"); js(sb, t.toString()); sb.append("}"); res = sb.toString(); }
            byte[] ob = res.getBytes(StandardCharsets.UTF_8);
            DataOutputStream dos = new DataOutputStream(out);
            dos.writeInt(ob.length); dos.write(ob); dos.flush();
        }
    }
}
