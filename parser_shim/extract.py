"""Extract the serialized ATNs, vocabularies and labelled-alternative maps from the
ANTLR-generated C++ sources in the repository working tree (no compilation).

Usage: extract.py <repo_cpp_parser_dir> <out_dir>
Writes <out_dir>/grammar.json (for the Python shim) and <out_dir>/grammar.txt (for the Java server).
"""
import json
import os
import re
import sys


def str_vectors(src, start):
    out = []
    pos = start
    rx = re.compile(r'std::vector<std::string>\{')
    while True:
        m = rx.search(src, pos)
        if not m:
            break
        i = m.end()
        depth = 1
        instr = False
        items = []
        cur = None
        while depth:
            c = src[i]
            if instr:
                if c == '\\':
                    cur.append(src[i:i + 2])
                    i += 2
                    continue
                if c == '"':
                    instr = False
                    items.append(''.join(cur))
                    cur = None
                else:
                    cur.append(c)
            else:
                if c == '"':
                    instr = True
                    cur = []
                elif c == '{':
                    depth += 1
                elif c == '}':
                    depth -= 1
            i += 1
        out.append(items)
        pos = i
        if src[pos:pos + 40].lstrip().startswith(');'):
            break
    return out


def unescape(s):
    return bytes(s, 'utf-8').decode('unicode_escape') if '\\' in s else s


def atn(src):
    m = re.search(r'serializedATNSegment\[\]\s*=\s*\{(.*?)\};', src, re.S)
    return [int(x) for x in re.findall(r'-?\d+', m.group(1))]


def extract(D):
    P = open(os.path.join(D, 'Vtl.cpp')).read()
    L = open(os.path.join(D, 'VtlTokens.cpp')).read()
    B = open(os.path.join(D, 'bindings.cpp')).read()
    H = open(os.path.join(D, 'Vtl.h')).read()
    pv = str_vectors(P, P.index('std::make_unique<VtlStaticData>'))
    lv = str_vectors(L, L.index('std::make_unique<VtlTokensStaticData>'))
    res = {
        'parser_rules': pv[0], 'literal': [unescape(x) for x in pv[1]], 'symbolic': pv[2],
        'parser_atn': atn(P),
        'lexer_rules': lv[0], 'channels': lv[1], 'modes': lv[2],
        'lexer_literal': [unescape(x) for x in lv[3]], 'lexer_symbolic': lv[4],
        'lexer_atn': atn(L),
    }
    tm = {}
    for m in re.finditer(r'g_type_map\[typeid\(Vtl::(\w+)Context\)\]\s*=\s*\{Vtl::Rule(\w+),\s*(-?\d+)\}', B):
        tm[m.group(1)] = (m.group(2), int(m.group(3)))
    m = re.search(r'enum\s*\{\s*(RuleStart.*?)\};', H, re.S)
    rule_enum = {mm.group(1): int(mm.group(2)) for mm in re.finditer(r'Rule(\w+)\s*=\s*(\d+)', m.group(1))}
    m = re.search(r'enum\s*\{\s*(ASSIGN\s*=.*?)\};', H, re.S)
    tok_enum = {mm.group(1): int(mm.group(2)) for mm in re.finditer(r'(\w+)\s*=\s*(\d+)', m.group(1))}
    res['rule_enum'] = rule_enum
    res['tok_enum'] = tok_enum
    # token attributes the binding actually exports (m.attr("X") = ...Vtl::X)
    res['exported_tokens'] = re.findall(r'm\.attr\("(\w+)"\)\s*=\s*static_cast<int>\(Vtl::(\w+)\)', B)
    res['exported_rules'] = re.findall(r'm\.attr\("(RULE_\w+)"\)\s*=\s*static_cast<int>\(Vtl::Rule(\w+)\)', B)
    alt_map = {}
    for fm in re.finditer(r'^Vtl::(\w+)Context\* Vtl::(\w+)\((int precedence)?\) \{\n(.*?)^\}\n', P, re.S | re.M):
        cls, _fname, lr, body = fm.group(1), fm.group(2), fm.group(3), fm.group(4)
        if not re.search(r'enterRule\(|enterRecursionRule\(', body):
            continue
        ridx = rule_enum[cls]
        outer, op = {}, {}
        if lr:
            for cm in re.finditer(r'case (\d+): \{\s*_localctx = _tracker\.createInstance<(?:Vtl::)?(\w+)Context>\(_localctx\);', body):
                outer[int(cm.group(1))] = cm.group(2)
            for cm in re.finditer(r'case (\d+): \{\s*auto newContext = _tracker\.createInstance<(?:Vtl::)?(\w+)Context>\(', body):
                op[int(cm.group(1))] = cm.group(2)
        else:
            for cm in re.finditer(r'_localctx = _tracker\.createInstance<(?:Vtl::)?(\w+)Context>\(_localctx\);\s*enterOuterAlt\(_localctx, (\d+)\);', body):
                outer[int(cm.group(2))] = cm.group(1)
        alt_map[ridx] = {'lr': bool(lr),
                         'outer': {k: tm[v][1] for k, v in outer.items() if v in tm},
                         'op': {k: tm[v][1] for k, v in op.items() if v in tm},
                         'outer_cls': outer, 'op_cls': op}
    res['alt_map'] = alt_map
    found = set()
    for v in alt_map.values():
        found |= set(v['outer_cls'].values()) | set(v['op_cls'].values())
    labelled = {k for k, v in tm.items() if v[1] >= 0}
    res['missing_labelled'] = sorted(labelled - found)
    res['n_labelled'] = len(labelled)
    pm = re.search(r'setPredictionMode\(antlr4::atn::PredictionMode::(\w+)\)', B)
    res['prediction_mode'] = pm.group(1) if pm else 'LL'
    tw = re.search(r'TAB_WIDTH\s*=\s*(\d+)', B)
    res['tab_width'] = int(tw.group(1)) if tw else 4
    return res


def write(res, out_dir):
    os.makedirs(out_dir, exist_ok=True)
    json.dump(res, open(os.path.join(out_dir, 'grammar.json'), 'w'))
    with open(os.path.join(out_dir, 'grammar.txt'), 'w', encoding='utf-8') as f:
        def sec(name, items):
            f.write('#%s %d\n' % (name, len(items)))
            for it in items:
                f.write(json.dumps(it) if isinstance(it, str) else str(it))
                f.write('\n')
        sec('parser_atn', res['parser_atn'])
        sec('lexer_atn', res['lexer_atn'])
        sec('parser_rules', res['parser_rules'])
        sec('lexer_rules', res['lexer_rules'])
        sec('literal', res['literal'])
        sec('symbolic', res['symbolic'])
        sec('channels', res['channels'])
        sec('modes', res['modes'])
        am = []
        for ridx, v in res['alt_map'].items():
            for alt, lab in v['outer'].items():
                am.append('%s O %s %s' % (ridx, alt, lab))
            for alt, lab in v['op'].items():
                am.append('%s P %s %s' % (ridx, alt, lab))
        sec('altmap', am)


if __name__ == '__main__':
    D = sys.argv[1]
    out = sys.argv[2]
    r = extract(D)
    write(r, out)
    print('rules', len(r['parser_rules']), 'labelled', r['n_labelled'], 'missing', r['missing_labelled'], r['prediction_mode'])
    if r['missing_labelled']:
        sys.exit(2)
