#!/bin/sh
# Build the verification framework from files on disk only (offline).
set -e
cd /verif
JAR=vendor/antlr4-runtime-4.11.1.jar
[ -f "$JAR" ] || JAR=/opt/veriftools/tlapm/lib/tlapm/backends/Isabelle/contrib/solr-9.7.0-1/lib/antlr4-runtime-4.11.1.jar
mkdir -p build/parser evidence replays .work
javac -cp "$JAR" -d build/parser parser_shim/VtlParseServer.java
# parse every specification module
cd spec
for f in *.tla; do
  java -cp /opt/veriftools/tla/tla2tools.jar:/opt/veriftools/tla/CommunityModules-deps.jar tla2sany.SANY "$f" > ../build/sany.log 2>&1 || { cat ../build/sany.log; echo "SANY failed: $f"; exit 1; }
  if grep -q "Semantic errors\|\*\*\* Errors" ../build/sany.log; then cat ../build/sany.log; echo "SANY errors: $f"; exit 1; fi
done
cd ..
# parser stand-in self-test against the working tree
/venv/bin/python -m harness.selftest
echo "setup ok"
